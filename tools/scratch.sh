#!/bin/bash
# usage: scratch.sh <name> [crate...]   -> scratch copy of /repo (git worktree of HEAD + uncommitted
# tracked changes) and of the harness wired to it, under /tmp/rvscratch/<name>. Edit the scratch repo,
# then: cd /tmp/rvscratch/<name>/harness && cargo build --release --offline -p <crate>
# and run /tmp/rvscratch/<name>/target/release/<crate> Cxx quick   (evidence of such runs is written
# to /verif/evidence too - do NOT keep it: re-run the real check afterwards).
# Remove with scratch_rm.sh <name> as soon as you are done (disk is limited).
set -e
name="$1"; [ -n "$name" ] || { echo "usage: $0 <name>"; exit 2; }
base=/tmp/rvscratch/$name
mkdir -p /tmp/rvscratch
[ -e "$base" ] && { echo "$base exists"; exit 1; }
mkdir -p "$base"
git -C /repo worktree add --detach "$base/repo" HEAD >/dev/null 2>&1
( cd /repo && git diff HEAD ) | ( cd "$base/repo" && git apply --allow-empty 2>/dev/null || true )
mkdir -p "$base/harness"
rsync -a --exclude target /verif/harness/ "$base/harness/"
grep -rl '/repo/' "$base/harness" --include=Cargo.toml | xargs sed -i "s#\"/repo/#\"$base/repo/#g"
cat > "$base/harness/.cargo/config.toml" <<EOC
[net]
offline = true
[build]
target-dir = "$base/target"
jobs = 6
EOC
# Seed the scratch target dir with a copy of the shared one: third-party crates (librocksdb-sys,
# wasm-opt-sys, wasmi, ...) are then reused instead of being cold-built (saves >10 min and a lot of CPU);
# only the /repo path crates and the harness crates are recompiled.
if [ -d /verif/target/release ]; then
  mkdir -p "$base/target"
  cp -a /verif/target/release "$base/target/release" 2>/dev/null || true
  cp -a /verif/target/cxxbridge "$base/target/cxxbridge" 2>/dev/null || true
  rm -rf "$base/target/release/incremental" "$base/target/release/.cargo-lock"
fi
echo "scratch repo:    $base/repo"
echo "scratch harness: $base/harness   (target: $base/target)"
