#!/bin/bash
# usage: confirm_seed.sh <worktree> <out-dir-of-one-seed> <crate> [extra cargo test args for the crate's own tests]
# Confirms: (1) crate tests pass with patch, (2) demo fails with patch, (3) demo passes without patch.
wt="$1"; out="$2"; crate="$3"; shift 3
export CARGO_BUILD_JOBS=6
export CARGO_INCREMENTAL=0
cd "$wt" || exit 2
git checkout -q -- . ; git clean -fdq -e OUT -e target
demo_files=$(grep '^+++ b/' "$out/demo.diff" | sed 's#^+++ b/##')
git apply "$out/patch.diff" || { echo "PATCH-DOES-NOT-APPLY"; exit 2; }
echo "[1] crate tests WITH patch (demo absent)"
cargo test --offline -p "$crate" "$@" 2>&1 | grep -E "^test result|FAILED|^error" | sort | uniq -c | head -8
git apply "$out/demo.diff" || { echo "DEMO-DOES-NOT-APPLY"; exit 2; }
demo_test=$(echo "$demo_files" | grep '/tests/' | head -1 | xargs -n1 basename 2>/dev/null | sed 's/\.rs$//')
echo "[2] demo WITH patch (must fail): files=$demo_files test=$demo_test"
if [ -n "$demo_test" ]; then cargo test --offline -p "$crate" --test "$demo_test" "$@" 2>&1 | grep -E "^test result|FAILED|^error" | head -4; else cargo test --offline -p "$crate" "$@" 2>&1 | grep -E "^test result|FAILED|^error" | sort | uniq -c | head -6; fi
git apply -R "$out/patch.diff"
echo "[3] demo WITHOUT patch (must pass)"
if [ -n "$demo_test" ]; then cargo test --offline -p "$crate" --test "$demo_test" "$@" 2>&1 | grep -E "^test result|FAILED|^error" | head -4; else cargo test --offline -p "$crate" "$@" 2>&1 | grep -E "^test result|FAILED|^error" | sort | uniq -c | head -6; fi
git checkout -q -- . ; git clean -fdq -e OUT -e target
