#!/usr/bin/env python3
"""Prints the markdown table of independently seeded changes from /verif/seeded/*/meta.json"""
import json, glob, os
rows = []
for f in sorted(glob.glob('/verif/seeded/*/meta.json')):
    m = json.load(open(f))
    d = os.path.basename(os.path.dirname(f))
    rows.append((m['property'], d, m['change'], m['needs_to_manifest'], m['detection']['result'], m['detection']['by']))
print('| property | seed | change | needs | result | detected by / remedy |')
print('|---|---|---|---|---|---|')
for r in rows:
    print('| ' + ' | '.join(x.replace('|', '/').replace('\n', ' ') for x in r) + ' |')
