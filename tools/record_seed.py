#!/usr/bin/env python3
"""record_seed.py <worktree> <id> <suffix> <json-meta-fragment-file>: copy patch/demo/notes into /verif/seeded/<id>-<suffix>/ and write meta.json"""
import json, shutil, sys, os
wt, pid, suffix, frag = sys.argv[1:5]
src = f"{wt}/OUT/{pid}"
dst = f"/verif/seeded/{pid}-{suffix}"
os.makedirs(dst, exist_ok=True)
for f in ("patch.diff", "demo.diff", "notes.md"):
    if os.path.exists(f"{src}/{f}"):
        shutil.copy(f"{src}/{f}", f"{dst}/{f}")
m = {"property": pid, "origin": "independent seeding agent (saw only the property text and its own worktree)"}
m.update(json.load(open(frag)))
m.setdefault("detection", {})["how"] = "patch applied in scratch copy /tmp/rvscratch/seedval, harness binary rebuilt, quick tier, VERIF_SEED=1"
json.dump(m, open(f"{dst}/meta.json", "w"), indent=1)
print("recorded", dst)
