#!/bin/bash
# usage: eval_seed.sh <seed-worktree> <seed-id> <crate-for-confirmation> <harness-bin> <check-id> [more check ids...]
# 1) confirms the seed's own claims in its worktree, 2) applies the patch in the seedval scratch copy,
# rebuilds the harness binary there and runs the given checks (quick). Output: one log per seed.
wt="$1"; id="$2"; crate="$3"; bin="$4"; shift 4
out="$wt/OUT/$id"
log=/tmp/seed/eval-$(basename $wt)-$id.log
{
echo "##### confirm $id ($crate)"
[ -n "$SKIP_CONFIRM" ] || /verif/tools/confirm_seed.sh "$wt" "$out" "$crate" $CONFIRM_ARGS
echo "##### detect $id with $bin $*"
cd /tmp/rvscratch/seedval/repo && git checkout -q -- . && git apply "$out/patch.diff" && git diff --stat | tail -1
# refresh the scratch harness from /verif/harness (sources may have been strengthened since the scratch copy was made)
rsync -a --exclude target --exclude .cargo /verif/harness/ /tmp/rvscratch/seedval/harness/
grep -rl '"/repo/' /tmp/rvscratch/seedval/harness --include=Cargo.toml | xargs -r sed -i 's#"/repo/#"/tmp/rvscratch/seedval/repo/#g'
cd /tmp/rvscratch/seedval/harness && cargo build --release --offline -p "$bin" 2>&1 | grep -E "^error|Finished" | tail -2
for chk in "$@"; do
  VERIF_SEED=${VERIF_SEED:-1} /tmp/rvscratch/seedval/target/release/$bin $chk ${TIER:-quick} 2>&1 | grep -E "VIOLATION|KNOWN|SUMMARY|INCONCL" | cut -c1-230 | head -6
done
cd /tmp/rvscratch/seedval/repo && git checkout -q -- .
} > "$log" 2>&1
echo "done $id -> $log"
