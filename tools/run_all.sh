#!/bin/bash
# usage: run_all.sh <quick|thorough> [seed] [ids...]   -> runs ./check for every registered property (or the given ids)
# and prints one line per check; full output per check in /verif/target/tmp/runall/<id>.log
tier=${1:-quick}; seed=${2:-1}; shift 2 2>/dev/null
cd /verif
ids="$@"
[ -n "$ids" ] || ids=$(jq -r '.checks[].property_id' MANIFEST.json)
mkdir -p /verif/target/tmp/runall
for id in $ids; do
  t0=$(date +%s)
  VERIF_SEED=$seed ./check $id $tier > /verif/target/tmp/runall/$id.log 2>&1
  rc=$?
  t1=$(date +%s)
  echo "$id rc=$rc $((t1-t0))s $(grep -E '^SUMMARY' /verif/target/tmp/runall/$id.log | head -1 | sed 's/SUMMARY property=[A-Z0-9]* //') $(grep -cE '^KNOWN-FINDING' /verif/target/tmp/runall/$id.log) known $(grep -E '^(VIOLATION|INCONCLUSIVE)' /verif/target/tmp/runall/$id.log | head -2 | cut -c1-160 | tr '\n' ' ')"
done
