#!/bin/bash
name="$1"; [ -n "$name" ] || { echo "usage: $0 <name>"; exit 2; }
base=/tmp/rvscratch/$name
git -C /repo worktree remove --force "$base/repo" 2>/dev/null
rm -rf "$base"
git -C /repo worktree prune
echo removed $base
