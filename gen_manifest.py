#!/usr/bin/env python3
import json, os, sys
ROOT = os.path.dirname(os.path.abspath(__file__))
sys.path.insert(0, ROOT)
from checks_meta import CHECKS, UNCLAIMED, UNCLAIMED_DEFAULT
props = [json.loads(l)["id"] for l in open(os.path.join(ROOT, "properties.jsonl"))]
hooks_commits = [l.strip() for l in open(os.path.join(ROOT, "hook_commits.txt"))] if os.path.exists(os.path.join(ROOT, "hook_commits.txt")) else []
engines = {}
checks = []
for pid in props:
    if pid not in CHECKS:
        continue
    m = CHECKS[pid]
    engines.setdefault(m["bin"], []).append(pid)
    checks.append({
        "property_id": pid,
        "quick_cmd": f"./check {pid} quick",
        "thorough_cmd": f"./check {pid} thorough",
        "evidence_file": f"/verif/evidence/{pid}.json",
        "replay_cmd_template": f"./check {pid} --replay {{path}}",
        "engine": m["bin"],
        "level_claimed": {"category": m["level"], "text": m["text"], "design_ref": m["design_ref"]},
        "level_note": m["note"],
        "technique": m["technique"],
    })
manifest = {
    "version": 1,
    "setup_cmd": "./check --setup",
    "hooks": {
        "guard": "cargo feature `verif_hooks` (radix-engine, radix-substate-store-impls); off by default",
        "enable": "harness crates depend on /repo crates by path with features = [\"verif_hooks\"] (see harness/Cargo.toml)",
        "baseline_off_cmd": "cd /repo && cargo nextest run --workspace --no-fail-fast --tool-config-file pb:/w/lib/nextest.toml --profile pb --test-threads 8 --offline",
        "source_commits": hooks_commits,
        "add_only": True,
    },
    "engines": [{"name": b, "path": f"/verif/harness/{b}", "serves_properties": ps,
                 "kind_free_text": "runtime monitor binary: generated workloads on the real /repo code + oracles (see DESIGN.md)"} for b, ps in engines.items()],
    "checks": checks,
    "notes": "Technique family: runtime monitoring and sanitizers. Exit codes: 0 held on observed executions, 1 violation, 2 inconclusive (never a VIOLATION line). Known findings: /verif/known_findings.json.",
    "not_applicable": [{"property_id": p, "reason": UNCLAIMED.get(p, UNCLAIMED_DEFAULT)} for p in props if p not in CHECKS],
}
json.dump(manifest, open(os.path.join(ROOT, "MANIFEST.json"), "w"), indent=1)
print(f"MANIFEST.json: {len(checks)} checks, {len(manifest['not_applicable'])} unclaimed")
