//! Access-rule side of C08: the badge universe, a generator of random `AccessRule` trees within
//! the validation limits (nesting depth <= 8, <= 64 composite nodes), the *reference evaluator*
//! written from the documented semantics of require / amount-of / count-of / all-of / any-of and
//! their composition, and a witness search used to steer proof placements towards satisfying
//! (and nearly satisfying) configurations.
use rv_common::Rng;
use rv_ledger::prelude::*;
use std::collections::BTreeSet;

pub const MAX_NEST: usize = 8; // MAX_ACCESS_RULE_DEPTH (documented validation limit)
pub const MAX_NODES: usize = 64; // MAX_COMPOSITE_REQUIREMENTS

pub struct FBadge {
    pub addr: ResourceAddress,
    pub div: u8,
    /// balance held by badge account 0 / 1 (never changes: proofs do not move resources)
    pub bal: [Decimal; 2],
}
impl FBadge {
    pub fn unit(&self) -> Decimal {
        Decimal::from_attos(I192::from(10u128.pow(18 - self.div as u32)))
    }
    pub fn total(&self) -> Decimal {
        self.bal[0].checked_add(self.bal[1]).unwrap()
    }
}
pub struct NBadge {
    pub addr: ResourceAddress,
    pub ids: [BTreeSet<u64>; 2],
}

pub struct Universe {
    pub accounts: [ComponentAddress; 2],
    pub f: Vec<FBadge>,
    pub n: Vec<NBadge>,
    /// signature badges of 4 keys: 0,1 secp256k1, 2 ed25519, 3 secp256k1 that never signs
    pub keys: Vec<NonFungibleGlobalId>,
    pub tp_caller: NonFungibleGlobalId,
    pub tp_pkg: NonFungibleGlobalId,
    pub acct_pkg: NonFungibleGlobalId,
    /// caller badges that are never visible in our call chains
    pub foreign: Vec<NonFungibleGlobalId>,
}

impl Universe {
    pub fn f_index(&self, r: &ResourceAddress) -> Option<usize> {
        self.f.iter().position(|b| &b.addr == r)
    }
    pub fn n_index(&self, r: &ResourceAddress) -> Option<usize> {
        self.n.iter().position(|b| &b.addr == r)
    }
    pub fn key_index(&self, g: &NonFungibleGlobalId) -> Option<usize> {
        self.keys.iter().position(|k| k == g)
    }
}

pub fn is_virtual_resource(r: &ResourceAddress) -> bool {
    *r == SECP256K1_SIGNATURE_RESOURCE || *r == ED25519_SIGNATURE_RESOURCE || *r == GLOBAL_CALLER_RESOURCE || *r == PACKAGE_OF_DIRECT_CALLER_RESOURCE
}

// ---------------------------------------------------------------------------------------------
// What a callee can see
// ---------------------------------------------------------------------------------------------
#[derive(Clone, Debug, PartialEq, Eq)]
pub enum PDesc {
    /// fungible proof: evidence = (container = badge account index, locked amount); amount = sum
    F { res: ResourceAddress, evidence: Vec<(usize, Decimal)> },
    N { res: ResourceAddress, ids: BTreeSet<u64> },
}
impl PDesc {
    pub fn res(&self) -> &ResourceAddress {
        match self {
            PDesc::F { res, .. } | PDesc::N { res, .. } => res,
        }
    }
    pub fn amount(&self) -> Decimal {
        match self {
            PDesc::F { evidence, .. } => evidence.iter().fold(Decimal::ZERO, |a, (_, x)| a.checked_add(*x).unwrap()),
            PDesc::N { ids, .. } => Decimal::from(ids.len() as u64),
        }
    }
    pub fn has_id(&self, id: &NonFungibleLocalId) -> bool {
        match (self, id) {
            (PDesc::N { ids, .. }, NonFungibleLocalId::Integer(i)) => ids.contains(&i.value()),
            _ => false,
        }
    }
}

#[derive(Clone, Debug, Default)]
pub struct Visible {
    /// proofs in the auth zone of the caller (the transaction processor / the parent intent)
    pub proofs: Vec<PDesc>,
    /// virtual badges: signature badges of the intent + implicit caller badges of the call
    pub virt: BTreeSet<NonFungibleGlobalId>,
    /// "simulate every proof under these resources" (preview's assume-all-signature-proofs)
    pub simulated: BTreeSet<ResourceAddress>,
}

// ---------------------------------------------------------------------------------------------
// Reference evaluator (the oracle). `lenient` selects the second reading of the two places the
// documentation leaves open (resource-level requirements against *virtual* badges); a case is
// verdict-bearing only when both readings agree.
// ---------------------------------------------------------------------------------------------
fn sat_atom(a: &ResourceOrNonFungible, v: &Visible, lenient: bool) -> bool {
    match a {
        // require(non_fungible_global_id): a proof containing that id, or that virtual badge,
        // or every proof of its resource being simulated
        ResourceOrNonFungible::NonFungible(g) => {
            v.virt.contains(g) || v.simulated.contains(&g.resource_address()) || v.proofs.iter().any(|p| *p.res() == g.resource_address() && p.has_id(g.local_id()))
        }
        // require(resource): any (non-empty) proof of that resource
        ResourceOrNonFungible::Resource(r) => {
            v.proofs.iter().any(|p| p.res() == r && p.amount() > Decimal::ZERO) || (lenient && (v.simulated.contains(r) || v.virt.iter().any(|g| g.resource_address() == *r)))
        }
    }
}

fn sat_basic(b: &BasicRequirement, v: &Visible, lenient: bool) -> bool {
    match b {
        BasicRequirement::Require(a) => sat_atom(a, v, lenient),
        // require_amount(n, resource): *a* proof of the resource whose amount is at least n
        // (largest single proof, not the sum over proofs)
        BasicRequirement::AmountOf(n, r) => {
            let virtual_count = v.virt.iter().filter(|g| g.resource_address() == *r).count() as u64;
            v.proofs.iter().any(|p| p.res() == r && p.amount() >= *n) || (lenient && (v.simulated.contains(r) || (virtual_count > 0 && Decimal::from(virtual_count) >= *n)))
        }
        // require_n_of(k, list): at least k entries of the list are satisfied
        BasicRequirement::CountOf(k, list) => list.iter().filter(|a| sat_atom(a, v, lenient)).count() >= *k as usize,
        BasicRequirement::AllOf(list) => list.iter().all(|a| sat_atom(a, v, lenient)),
        BasicRequirement::AnyOf(list) => list.iter().any(|a| sat_atom(a, v, lenient)),
    }
}

fn sat_comp(c: &CompositeRequirement, v: &Visible, lenient: bool) -> bool {
    match c {
        CompositeRequirement::BasicRequirement(b) => sat_basic(b, v, lenient),
        CompositeRequirement::AnyOf(cs) => cs.iter().any(|c| sat_comp(c, v, lenient)),
        CompositeRequirement::AllOf(cs) => cs.iter().all(|c| sat_comp(c, v, lenient)),
    }
}

pub fn satisfied(rule: &AccessRule, v: &Visible, lenient: bool) -> bool {
    match rule {
        AccessRule::AllowAll => true,
        AccessRule::DenyAll => false,
        AccessRule::Protected(c) => sat_comp(c, v, lenient),
    }
}

// ---------------------------------------------------------------------------------------------
// Shape statistics
// ---------------------------------------------------------------------------------------------
#[derive(Default, Debug, Clone)]
pub struct Shape {
    pub nest: usize,
    pub nodes: usize,
    pub kinds: BTreeSet<&'static str>,
}

fn atom_kind(a: &ResourceOrNonFungible, u: &Universe) -> &'static str {
    match a {
        ResourceOrNonFungible::Resource(r) if is_virtual_resource(r) => "require:virtual-resource(grey)",
        ResourceOrNonFungible::Resource(r) if u.f_index(r).is_some() => "require:fungible-resource",
        ResourceOrNonFungible::Resource(_) => "require:non-fungible-resource",
        ResourceOrNonFungible::NonFungible(g) => {
            let r = g.resource_address();
            if r == SECP256K1_SIGNATURE_RESOURCE || r == ED25519_SIGNATURE_RESOURCE {
                "require:signature"
            } else if r == GLOBAL_CALLER_RESOURCE {
                "require:global-caller"
            } else if r == PACKAGE_OF_DIRECT_CALLER_RESOURCE {
                "require:package-of-direct-caller"
            } else {
                "require:non-fungible-id"
            }
        }
    }
}

fn shape_comp(c: &CompositeRequirement, depth: usize, u: &Universe, s: &mut Shape) {
    s.nodes += 1;
    s.nest = s.nest.max(depth);
    match c {
        CompositeRequirement::BasicRequirement(b) => match b {
            BasicRequirement::Require(a) => {
                s.kinds.insert(atom_kind(a, u));
            }
            BasicRequirement::AmountOf(_, r) => {
                s.kinds.insert(if u.f_index(r).is_some() { "amount-of:fungible" } else if u.n_index(r).is_some() { "amount-of:non-fungible" } else { "amount-of:virtual-resource(grey)" });
            }
            BasicRequirement::CountOf(_, l) => {
                s.kinds.insert("count-of");
                for a in l {
                    s.kinds.insert(atom_kind(a, u));
                }
            }
            BasicRequirement::AllOf(l) => {
                s.kinds.insert(if l.is_empty() { "all-of:empty" } else { "all-of" });
                for a in l {
                    s.kinds.insert(atom_kind(a, u));
                }
            }
            BasicRequirement::AnyOf(l) => {
                s.kinds.insert(if l.is_empty() { "any-of:empty" } else { "any-of" });
                for a in l {
                    s.kinds.insert(atom_kind(a, u));
                }
            }
        },
        CompositeRequirement::AnyOf(cs) => {
            s.kinds.insert(if cs.is_empty() { "composite-any-of:empty" } else { "composite-any-of" });
            for c in cs {
                shape_comp(c, depth + 1, u, s);
            }
        }
        CompositeRequirement::AllOf(cs) => {
            s.kinds.insert(if cs.is_empty() { "composite-all-of:empty" } else { "composite-all-of" });
            for c in cs {
                shape_comp(c, depth + 1, u, s);
            }
        }
    }
}

pub fn shape(rule: &AccessRule, u: &Universe) -> Shape {
    let mut s = Shape::default();
    match rule {
        AccessRule::AllowAll => {
            s.kinds.insert("allow-all");
        }
        AccessRule::DenyAll => {
            s.kinds.insert("deny-all");
        }
        AccessRule::Protected(c) => shape_comp(c, 0, u, &mut s),
    }
    s
}

/// Boundary situations of the decisive rule (evidence that the run can tell `>=` from `>`, k from
/// k-1, any from all, first proof from later proofs).
pub fn boundaries(rule: &AccessRule, v: &Visible, out: &mut BTreeSet<&'static str>) {
    fn atom_late(a: &ResourceOrNonFungible, v: &Visible) -> bool {
        // satisfied by a proof, but not by the first proof of the zone
        let by = |p: &PDesc| match a {
            ResourceOrNonFungible::Resource(r) => p.res() == r,
            ResourceOrNonFungible::NonFungible(g) => *p.res() == g.resource_address() && p.has_id(g.local_id()),
        };
        let virt = match a {
            ResourceOrNonFungible::NonFungible(g) => v.virt.contains(g) || v.simulated.contains(&g.resource_address()),
            _ => false,
        };
        !virt && v.proofs.iter().any(by) && !v.proofs.first().map(by).unwrap_or(false)
    }
    fn basic(b: &BasicRequirement, v: &Visible, out: &mut BTreeSet<&'static str>) {
        let atoms: Vec<&ResourceOrNonFungible> = match b {
            BasicRequirement::Require(a) => vec![a],
            BasicRequirement::AmountOf(..) => vec![],
            BasicRequirement::CountOf(_, l) | BasicRequirement::AllOf(l) | BasicRequirement::AnyOf(l) => l.iter().collect(),
        };
        if atoms.iter().any(|a| atom_late(a, v)) {
            out.insert("atom-satisfied-only-by-a-later-proof-of-the-zone");
        }
        match b {
            BasicRequirement::AmountOf(n, r) => {
                let ps: Vec<Decimal> = v.proofs.iter().filter(|p| p.res() == r).map(|p| p.amount()).collect();
                if let Some(m) = ps.iter().max() {
                    let sum = ps.iter().fold(Decimal::ZERO, |a, x| a.checked_add(*x).unwrap());
                    if m == n {
                        out.insert("amount-of:largest-proof-equals-the-amount");
                    }
                    if m < n && sum >= *n {
                        out.insert("amount-of:sum-of-proofs-reaches-the-amount-but-no-single-proof");
                    }
                    if m < n {
                        out.insert("amount-of:proofs-present-but-too-small");
                    }
                }
            }
            BasicRequirement::CountOf(k, l) => {
                let c = l.iter().filter(|a| sat_atom(a, v, false)).count();
                if *k > 0 && c == *k as usize {
                    out.insert("count-of:exactly-k-satisfied");
                }
                if *k > 1 && c + 1 == *k as usize {
                    out.insert("count-of:k-minus-one-satisfied");
                }
                if c > *k as usize {
                    out.insert("count-of:more-than-k-satisfied");
                }
            }
            BasicRequirement::AnyOf(l) => {
                let c = l.iter().filter(|a| sat_atom(a, v, false)).count();
                if l.len() == 2 && c == 1 {
                    out.insert("any-of:two-entries-exactly-one-satisfied");
                }
            }
            BasicRequirement::AllOf(l) => {
                let c = l.iter().filter(|a| sat_atom(a, v, false)).count();
                if l.len() >= 2 && c + 1 == l.len() {
                    out.insert("all-of:all-but-one-satisfied");
                }
            }
            _ => {}
        }
    }
    fn comp(c: &CompositeRequirement, v: &Visible, out: &mut BTreeSet<&'static str>) {
        match c {
            CompositeRequirement::BasicRequirement(b) => basic(b, v, out),
            CompositeRequirement::AnyOf(cs) => {
                if cs.len() >= 2 && cs.iter().filter(|c| sat_comp(c, v, false)).count() == 1 {
                    out.insert("composite-any-of:exactly-one-child-satisfied");
                }
                cs.iter().for_each(|c| comp(c, v, out))
            }
            CompositeRequirement::AllOf(cs) => {
                if cs.len() >= 2 && cs.iter().filter(|c| sat_comp(c, v, false)).count() + 1 == cs.len() {
                    out.insert("composite-all-of:all-but-one-child-satisfied");
                }
                cs.iter().for_each(|c| comp(c, v, out))
            }
        }
    }
    if let AccessRule::Protected(c) = rule {
        comp(c, v, out)
    }
}

/// true when the rule fits in a manifest argument that starts `wrap` SBOR levels deep
pub fn fits(rule: &AccessRule, wrap: usize) -> bool {
    manifest_encode_with_depth_limit(rule, MANIFEST_SBOR_V1_MAX_DEPTH.saturating_sub(wrap)).is_ok()
}

// ---------------------------------------------------------------------------------------------
// Generator
// ---------------------------------------------------------------------------------------------
fn int_id(i: u64) -> NonFungibleLocalId {
    NonFungibleLocalId::integer(i)
}

pub fn gen_atom(rng: &mut Rng, u: &Universe) -> ResourceOrNonFungible {
    match rng.below(100) {
        0..=21 => ResourceOrNonFungible::Resource(rng.pick(&u.f).addr),
        22..=31 => ResourceOrNonFungible::Resource(rng.pick(&u.n).addr),
        32..=57 => {
            let nb = rng.pick(&u.n);
            let id = if rng.chance(1, 14) { 99 } else { rng.range(1, 6) };
            ResourceOrNonFungible::NonFungible(NonFungibleGlobalId::new(nb.addr, int_id(id)))
        }
        58..=83 => ResourceOrNonFungible::NonFungible(rng.pick(&u.keys).clone()),
        84..=87 => ResourceOrNonFungible::NonFungible(u.tp_caller.clone()),
        88..=90 => ResourceOrNonFungible::NonFungible(u.tp_pkg.clone()),
        91..=93 => ResourceOrNonFungible::NonFungible(u.acct_pkg.clone()),
        94..=97 => ResourceOrNonFungible::NonFungible(rng.pick(&u.foreign).clone()),
        _ => ResourceOrNonFungible::Resource(*rng.pick(&[SECP256K1_SIGNATURE_RESOURCE, ED25519_SIGNATURE_RESOURCE, GLOBAL_CALLER_RESOURCE, PACKAGE_OF_DIRECT_CALLER_RESOURCE])),
    }
}

/// amounts that sit on and next to what proofs can carry
pub fn rule_amount(rng: &mut Rng, b: &FBadge) -> Decimal {
    let unit = b.unit();
    let pick = match rng.below(16) {
        0 => Decimal::ZERO,
        1 => unit,
        2 | 3 => Decimal::ONE,
        4 | 5 => Decimal::from(2),
        6 => Decimal::from(3),
        7 => b.bal[0],
        8 => b.bal[1],
        9 => b.total(),
        10 => b.total().checked_add(unit).unwrap(),
        11 => b.bal[0].checked_add(unit).unwrap(),
        12 => Decimal::from(2).checked_add(unit).unwrap(),
        13 => Decimal::from(2).checked_sub(unit).unwrap(),
        14 => Decimal::from(-1),
        _ => Decimal::ONE.checked_add(Decimal::ONE_ATTO).unwrap(), // finer than any divisibility < 18
    };
    if rng.chance(1, 60) {
        Decimal::MAX
    } else {
        pick
    }
}

fn gen_list(rng: &mut Rng, u: &Universe) -> Vec<ResourceOrNonFungible> {
    let n = if rng.chance(1, 18) { 0 } else { rng.range(1, 5) };
    let mut v: Vec<ResourceOrNonFungible> = (0..n).map(|_| gen_atom(rng, u)).collect();
    if v.len() >= 2 && rng.chance(1, 10) {
        v[1] = v[0].clone(); // duplicate entry
    }
    v
}

pub fn gen_basic(rng: &mut Rng, u: &Universe) -> BasicRequirement {
    match rng.below(100) {
        0..=34 => BasicRequirement::Require(gen_atom(rng, u)),
        35..=54 => match rng.below(20) {
            0 => BasicRequirement::AmountOf(Decimal::ONE, *rng.pick(&[SECP256K1_SIGNATURE_RESOURCE, ED25519_SIGNATURE_RESOURCE])),
            1..=4 => {
                let nb = rng.pick(&u.n);
                let total = (nb.ids[0].len() + nb.ids[1].len()) as u64;
                let k = match rng.below(7) {
                    0 => Decimal::ZERO,
                    1 => Decimal::ONE,
                    2 => Decimal::from(2),
                    3 => Decimal::from(nb.ids[0].len() as u64),
                    4 => Decimal::from(total),
                    5 => Decimal::from(total + 1),
                    _ => Decimal::ONE.checked_add(Decimal::ONE_ATTO).unwrap(),
                };
                BasicRequirement::AmountOf(k, nb.addr)
            }
            _ => {
                let b = rng.pick(&u.f);
                BasicRequirement::AmountOf(rule_amount(rng, b), b.addr)
            }
        },
        55..=74 => {
            let l = gen_list(rng, u);
            let k = match rng.below(8) {
                0 => 0,
                1 => l.len() as u64 + 1,
                2 => l.len() as u64,
                3 => 255,
                _ => rng.range(1, l.len().max(1) as u64),
            };
            BasicRequirement::CountOf(k.min(255) as u8, l)
        }
        75..=86 => BasicRequirement::AllOf(gen_list(rng, u)),
        _ => BasicRequirement::AnyOf(gen_list(rng, u)),
    }
}

/// SBOR levels a basic requirement needs below its composite node
fn basic_levels(b: &BasicRequirement) -> usize {
    let list = |l: &Vec<ResourceOrNonFungible>| {
        if l.is_empty() {
            2
        } else if l.iter().any(|a| matches!(a, ResourceOrNonFungible::NonFungible(_))) {
            5
        } else {
            4
        }
    };
    match b {
        BasicRequirement::AmountOf(..) => 2,
        BasicRequirement::Require(ResourceOrNonFungible::Resource(_)) => 3,
        BasicRequirement::Require(ResourceOrNonFungible::NonFungible(_)) => 4,
        BasicRequirement::CountOf(_, l) | BasicRequirement::AllOf(l) | BasicRequirement::AnyOf(l) => list(l),
    }
}

/// levels available to a basic requirement at composite nesting level `level` when the rule
/// itself starts `wrap` levels deep in the manifest (calibrated with `C08-depth-probe`)
fn levels_available(level: usize, wrap: usize) -> usize {
    (MANIFEST_SBOR_V1_MAX_DEPTH - 2).saturating_sub(wrap + 2 * level)
}

/// returns the node and the number of composite nodes it used (<= budget, budget >= 1)
fn gen_comp(rng: &mut Rng, u: &Universe, level: usize, max_nest: usize, wrap: usize, budget: usize, force_deep: bool, pool: &[BasicRequirement]) -> (CompositeRequirement, usize) {
    let leaf = |rng: &mut Rng| -> CompositeRequirement {
        let avail = levels_available(level, wrap);
        for _ in 0..10 {
            let b = if !pool.is_empty() && rng.chance(2, 3) { rng.pick(pool).clone() } else { gen_basic(rng, u) };
            if basic_levels(&b) <= avail {
                return CompositeRequirement::BasicRequirement(b);
            }
        }
        let fb = rng.pick(&u.f);
        CompositeRequirement::BasicRequirement(BasicRequirement::AmountOf(rule_amount(rng, fb), fb.addr))
    };
    if level >= max_nest || budget <= 1 || (!force_deep && rng.chance(2, 5)) {
        return (leaf(rng), 1);
    }
    let maxk = (budget - 1).min(if rng.chance(1, 6) { 8 } else { 4 });
    let k = if rng.chance(1, 16) && !force_deep { 0 } else { rng.range(1, maxk as u64) as usize };
    let mut used = 1;
    let mut children = vec![];
    for i in 0..k {
        let reserve = k - i - 1;
        let avail = budget - used - reserve;
        let b = if avail <= 1 {
            1
        } else if i == 0 && force_deep {
            avail
        } else {
            let cap = if rng.chance(1, 4) { avail } else { 6 };
            1 + rng.usize_below(avail.min(cap))
        };
        let (c, n) = gen_comp(rng, u, level + 1, max_nest, wrap, b, force_deep && i == 0, pool);
        used += n;
        children.push(c);
    }
    if children.len() > 1 && rng.bool() {
        rng.shuffle(&mut children);
    }
    let node = if rng.bool() { CompositeRequirement::AnyOf(children) } else { CompositeRequirement::AllOf(children) };
    (node, used)
}

/// A random rule whose nesting depth is at most `max_nest` (<= 8) and that fits a manifest
/// argument `wrap` levels deep.
pub fn gen_rule(rng: &mut Rng, u: &Universe, max_nest: usize, wrap: usize) -> AccessRule {
    // deepest level at which even the shallowest leaf (amount-of, 2 levels) still fits
    let mut cap = 0;
    while cap < MAX_NEST && levels_available(cap + 1, wrap) >= 2 {
        cap += 1;
    }
    for _ in 0..4 {
        let r = gen_rule_once(rng, u, max_nest.min(cap), wrap);
        if fits(&r, wrap) {
            return r;
        }
    }
    AccessRule::Protected(CompositeRequirement::BasicRequirement(gen_basic(rng, u)))
}

fn gen_rule_once(rng: &mut Rng, u: &Universe, max_nest: usize, wrap: usize) -> AccessRule {
    match rng.below(40) {
        0 => return AccessRule::AllowAll,
        1 => return AccessRule::DenyAll,
        _ => {}
    }
    // a small pool of basics re-used across the tree keeps wide/deep trees satisfiable
    let pool: Vec<BasicRequirement> = (0..rng.range(0, 3)).map(|_| gen_basic(rng, u)).collect();
    let (nest, budget, deep) = match rng.below(20) {
        0..=3 => (0, 1, false),
        4..=9 => (rng.range(1, 3) as usize, rng.range(2, 8) as usize, false),
        10..=14 => (rng.range(2, 5) as usize, rng.range(5, 24) as usize, rng.bool()),
        15..=17 => (max_nest, rng.range(9, 40) as usize, true), // reaches the depth limit
        18 => return exactly_64_nodes(rng, u, max_nest, wrap, &pool),
        _ => (max_nest, MAX_NODES, true),
    };
    let nest = nest.min(max_nest);
    let (c, _) = gen_comp(rng, u, 0, nest, wrap, budget, deep && nest > 0, &pool);
    AccessRule::Protected(c)
}

/// a tree with exactly MAX_COMPOSITE_REQUIREMENTS nodes: 1 + 63 leaves, or 1 + 7 * (1 + 8)
fn exactly_64_nodes(rng: &mut Rng, u: &Universe, max_nest: usize, wrap: usize, pool: &[BasicRequirement]) -> AccessRule {
    let pool: Vec<BasicRequirement> = if pool.is_empty() { vec![gen_basic(rng, u)] } else { pool.to_vec() };
    let mut leaf = |rng: &mut Rng, level: usize| -> CompositeRequirement {
        let b = if rng.chance(9, 10) { rng.pick(&pool).clone() } else { gen_basic(rng, u) };
        if basic_levels(&b) <= levels_available(level, wrap) {
            CompositeRequirement::BasicRequirement(b)
        } else {
            let fb = rng.pick(&u.f);
            CompositeRequirement::BasicRequirement(BasicRequirement::AmountOf(rule_amount(rng, fb), fb.addr))
        }
    };
    let wrap_node = |rng: &mut Rng, cs: Vec<CompositeRequirement>| if rng.bool() { CompositeRequirement::AnyOf(cs) } else { CompositeRequirement::AllOf(cs) };
    let c = if max_nest >= 2 && rng.bool() {
        let mids: Vec<CompositeRequirement> = (0..7)
            .map(|_| {
                let cs = (0..8).map(|_| leaf(rng, 2)).collect();
                wrap_node(rng, cs)
            })
            .collect();
        wrap_node(rng, mids)
    } else if max_nest >= 1 {
        let cs = (0..MAX_NODES - 1).map(|_| leaf(rng, 1)).collect();
        wrap_node(rng, cs)
    } else {
        leaf(rng, 0)
    };
    AccessRule::Protected(c)
}

// ---------------------------------------------------------------------------------------------
// Witness: what would have to be visible for the rule to be satisfied
// ---------------------------------------------------------------------------------------------
#[derive(Default, Clone, Debug)]
pub struct Needs {
    /// a single proof of fungible badge i with at least this amount
    pub f: Vec<(usize, Decimal)>,
    /// a proof of non-fungible badge j containing this id
    pub n_id: Vec<(usize, u64)>,
    /// a single proof of non-fungible badge j with at least k ids
    pub n_count: Vec<(usize, usize)>,
    pub sigs: BTreeSet<usize>,
}
impl Needs {
    fn merge(&mut self, o: Needs) {
        self.f.extend(o.f);
        self.n_id.extend(o.n_id);
        self.n_count.extend(o.n_count);
        self.sigs.extend(o.sigs);
    }
}

fn wit_atom(a: &ResourceOrNonFungible, u: &Universe, implicit: &BTreeSet<NonFungibleGlobalId>) -> Option<Needs> {
    let mut n = Needs::default();
    match a {
        ResourceOrNonFungible::Resource(r) => {
            if let Some(i) = u.f_index(r) {
                n.f.push((i, u.f[i].unit()));
            } else if let Some(j) = u.n_index(r) {
                n.n_count.push((j, 1));
            } else {
                return None;
            }
        }
        ResourceOrNonFungible::NonFungible(g) => {
            if implicit.contains(g) {
            } else if let Some(k) = u.key_index(g) {
                if k >= 3 {
                    return None;
                }
                n.sigs.insert(k);
            } else if let Some(j) = u.n_index(&g.resource_address()) {
                let id = match g.local_id() {
                    NonFungibleLocalId::Integer(i) => i.value(),
                    _ => return None,
                };
                if !(u.n[j].ids[0].contains(&id) || u.n[j].ids[1].contains(&id)) {
                    return None;
                }
                n.n_id.push((j, id));
            } else {
                return None;
            }
        }
    }
    Some(n)
}

fn pick_k(rng: &mut Rng, k: usize, list: &[ResourceOrNonFungible], u: &Universe, implicit: &BTreeSet<NonFungibleGlobalId>) -> Option<Needs> {
    let mut order: Vec<usize> = (0..list.len()).collect();
    rng.shuffle(&mut order);
    let mut got = 0;
    let mut n = Needs::default();
    for i in order {
        if got == k {
            break;
        }
        if let Some(w) = wit_atom(&list[i], u, implicit) {
            n.merge(w);
            got += 1;
        }
    }
    if got == k {
        Some(n)
    } else {
        None
    }
}

fn wit_basic(rng: &mut Rng, b: &BasicRequirement, u: &Universe, implicit: &BTreeSet<NonFungibleGlobalId>) -> Option<Needs> {
    match b {
        BasicRequirement::Require(a) => wit_atom(a, u, implicit),
        BasicRequirement::AmountOf(amt, r) => {
            let mut n = Needs::default();
            if let Some(i) = u.f_index(r) {
                if *amt > u.f[i].total() {
                    return None;
                }
                n.f.push((i, if *amt <= Decimal::ZERO { u.f[i].unit() } else { *amt }));
            } else if let Some(j) = u.n_index(r) {
                let most = u.n[j].ids[0].len().max(u.n[j].ids[1].len());
                if *amt > Decimal::from(most as u64) {
                    return None;
                }
                let mut k = 1usize;
                while Decimal::from(k as u64) < *amt {
                    k += 1;
                }
                n.n_count.push((j, k));
            } else {
                return None;
            }
            Some(n)
        }
        BasicRequirement::CountOf(k, l) => pick_k(rng, *k as usize, l, u, implicit),
        BasicRequirement::AllOf(l) => {
            let mut n = Needs::default();
            for a in l {
                n.merge(wit_atom(a, u, implicit)?);
            }
            Some(n)
        }
        BasicRequirement::AnyOf(l) => pick_k(rng, 1, l, u, implicit).filter(|_| !l.is_empty()),
    }
}

fn wit_comp(rng: &mut Rng, c: &CompositeRequirement, u: &Universe, implicit: &BTreeSet<NonFungibleGlobalId>) -> Option<Needs> {
    match c {
        CompositeRequirement::BasicRequirement(b) => wit_basic(rng, b, u, implicit),
        CompositeRequirement::AllOf(cs) => {
            let mut n = Needs::default();
            for c in cs {
                n.merge(wit_comp(rng, c, u, implicit)?);
            }
            Some(n)
        }
        CompositeRequirement::AnyOf(cs) => {
            let mut order: Vec<usize> = (0..cs.len()).collect();
            rng.shuffle(&mut order);
            for i in order {
                if let Some(n) = wit_comp(rng, &cs[i], u, implicit) {
                    return Some(n);
                }
            }
            None
        }
    }
}

pub fn witness(rng: &mut Rng, rule: &AccessRule, u: &Universe, implicit: &BTreeSet<NonFungibleGlobalId>) -> Option<Needs> {
    match rule {
        AccessRule::AllowAll => Some(Needs::default()),
        AccessRule::DenyAll => None,
        AccessRule::Protected(c) => wit_comp(rng, c, u, implicit),
    }
}
