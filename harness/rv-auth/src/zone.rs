//! Proof-placement side of C08: a manifest-level model of one intent's auth zone (stack of
//! proofs + virtual signature badges + simulated resources) and of its named proofs, a generator
//! of feasible instruction sequences (optionally steered by a witness of the rule under test)
//! and the emission of those sequences into any manifest builder.
use crate::rules::*;
use rv_common::Rng;
use rv_ledger::prelude::*;
use std::collections::{BTreeMap, BTreeSet};

#[derive(Clone, Debug)]
pub enum Op {
    /// account method returns a proof -> pushed on the auth zone by the transaction processor
    AcctAmount { acct: usize, f: usize, amount: Decimal },
    AcctIds { acct: usize, n: usize, ids: BTreeSet<u64> },
    Pop { name: usize },
    Push { name: usize },
    CloneP { src: usize, name: usize },
    DropP { name: usize },
    ZoneAmount { f: usize, amount: Decimal, name: usize },
    ZoneAllF { f: usize, name: usize },
    ZoneAllN { n: usize, name: usize },
    ZoneIds { n: usize, ids: BTreeSet<u64>, name: usize },
    DropRegular,
    DropSigs,
    DropZone,
    DropNamedAll,
    DropAll,
}

impl Op {
    pub fn kind(&self) -> &'static str {
        match self {
            Op::AcctAmount { .. } => "create_proof_from_account_of_amount",
            Op::AcctIds { .. } => "create_proof_from_account_of_non_fungibles",
            Op::Pop { .. } => "pop_from_auth_zone",
            Op::Push { .. } => "push_to_auth_zone",
            Op::CloneP { .. } => "clone_proof",
            Op::DropP { .. } => "drop_proof",
            Op::ZoneAmount { .. } => "create_proof_from_auth_zone_of_amount",
            Op::ZoneAllF { .. } | Op::ZoneAllN { .. } => "create_proof_from_auth_zone_of_all",
            Op::ZoneIds { .. } => "create_proof_from_auth_zone_of_non_fungibles",
            Op::DropRegular => "drop_auth_zone_regular_proofs",
            Op::DropSigs => "drop_auth_zone_signature_proofs",
            Op::DropZone => "drop_auth_zone_proofs",
            Op::DropNamedAll => "drop_named_proofs",
            Op::DropAll => "drop_all_proofs",
        }
    }
}

/// proof names >= this are reserved for witness recipes
pub const RECIPE_NAMES: usize = 1000;

#[derive(Clone, Debug, Default)]
pub struct ZoneModel {
    pub zone: Vec<PDesc>,
    pub named: BTreeMap<usize, PDesc>,
    pub next_name: usize,
    pub sigs: BTreeSet<NonFungibleGlobalId>,
    pub simulated: BTreeSet<ResourceAddress>,
}

fn ids_local(ids: &BTreeSet<u64>) -> Vec<NonFungibleLocalId> {
    ids.iter().map(|i| NonFungibleLocalId::integer(*i)).collect()
}

impl ZoneModel {
    pub fn new(sigs: BTreeSet<NonFungibleGlobalId>, simulated: BTreeSet<ResourceAddress>) -> Self {
        ZoneModel { sigs, simulated, ..Default::default() }
    }

    /// per container maximum over the zone's proofs of fungible badge `f`, in first-seen order
    fn f_containers(&self, u: &Universe, f: usize) -> Vec<(usize, Decimal)> {
        let mut out: Vec<(usize, Decimal)> = vec![];
        for p in &self.zone {
            if let PDesc::F { res, evidence } = p {
                if *res == u.f[f].addr {
                    for (c, a) in evidence {
                        if let Some(e) = out.iter_mut().find(|(c2, _)| c2 == c) {
                            if *a > e.1 {
                                e.1 = *a;
                            }
                        } else {
                            out.push((*c, *a));
                        }
                    }
                }
            }
        }
        out
    }
    fn n_union(&self, u: &Universe, n: usize) -> BTreeSet<u64> {
        let mut s = BTreeSet::new();
        for p in &self.zone {
            if let PDesc::N { res, ids } = p {
                if *res == u.n[n].addr {
                    s.extend(ids.iter().cloned());
                }
            }
        }
        s
    }

    pub fn feasible(&self, op: &Op, u: &Universe) -> bool {
        match op {
            Op::AcctAmount { acct, f, amount } => *amount > Decimal::ZERO && *amount <= u.f[*f].bal[*acct] && check_fungible_amount(amount, u.f[*f].div),
            Op::AcctIds { acct, n, ids } => !ids.is_empty() && ids.is_subset(&u.n[*n].ids[*acct]),
            Op::Pop { .. } => !self.zone.is_empty(),
            Op::Push { name } | Op::DropP { name } => self.named.contains_key(name),
            Op::CloneP { src, .. } => self.named.contains_key(src),
            Op::ZoneAmount { f, amount, .. } => {
                let c = self.f_containers(u, *f);
                c.len() == 1 && *amount > Decimal::ZERO && *amount <= c[0].1 && check_fungible_amount(amount, u.f[*f].div)
            }
            Op::ZoneAllF { f, .. } => !self.f_containers(u, *f).is_empty(),
            Op::ZoneAllN { n, .. } => !self.n_union(u, *n).is_empty(),
            Op::ZoneIds { n, ids, .. } => !ids.is_empty() && ids.is_subset(&self.n_union(u, *n)),
            _ => true,
        }
    }

    pub fn apply(&mut self, op: &Op, u: &Universe) {
        match op {
            Op::AcctAmount { acct, f, amount } => self.zone.push(PDesc::F { res: u.f[*f].addr, evidence: vec![(*acct, *amount)] }),
            Op::AcctIds { n, ids, .. } => self.zone.push(PDesc::N { res: u.n[*n].addr, ids: ids.clone() }),
            Op::Pop { name } => {
                let p = self.zone.pop().unwrap();
                self.named.insert(*name, p);
            }
            Op::Push { name } => {
                let p = self.named.remove(name).unwrap();
                self.zone.push(p);
            }
            Op::CloneP { src, name } => {
                let p = self.named.get(src).unwrap().clone();
                self.named.insert(*name, p);
            }
            Op::DropP { name } => {
                self.named.remove(name);
            }
            Op::ZoneAmount { f, amount, name } => {
                let c = self.f_containers(u, *f);
                self.named.insert(*name, PDesc::F { res: u.f[*f].addr, evidence: vec![(c[0].0, *amount)] });
            }
            Op::ZoneAllF { f, name } => {
                let c = self.f_containers(u, *f);
                self.named.insert(*name, PDesc::F { res: u.f[*f].addr, evidence: c });
            }
            Op::ZoneAllN { n, name } => {
                let ids = self.n_union(u, *n);
                self.named.insert(*name, PDesc::N { res: u.n[*n].addr, ids });
            }
            Op::ZoneIds { n, ids, name } => {
                self.named.insert(*name, PDesc::N { res: u.n[*n].addr, ids: ids.clone() });
            }
            Op::DropRegular => self.zone.clear(),
            Op::DropSigs => self.drop_sigs(),
            Op::DropZone => {
                self.drop_sigs();
                self.zone.clear();
            }
            Op::DropNamedAll => self.named.clear(),
            Op::DropAll => {
                self.named.clear();
                self.drop_sigs();
                self.zone.clear();
            }
        }
        if let Op::Pop { name } | Op::CloneP { name, .. } | Op::ZoneAmount { name, .. } | Op::ZoneAllF { name, .. } | Op::ZoneAllN { name, .. } | Op::ZoneIds { name, .. } = op {
            if *name < RECIPE_NAMES {
                self.next_name = self.next_name.max(*name + 1);
            }
        }
    }

    fn drop_sigs(&mut self) {
        self.sigs.clear();
        self.simulated.remove(&SECP256K1_SIGNATURE_RESOURCE);
        self.simulated.remove(&ED25519_SIGNATURE_RESOURCE);
    }

    /// what a callee sees of this intent's auth zone
    pub fn visible(&self, implicit: &BTreeSet<NonFungibleGlobalId>) -> Visible {
        let mut virt = self.sigs.clone();
        virt.extend(implicit.iter().cloned());
        Visible { proofs: self.zone.clone(), virt, simulated: self.simulated.clone() }
    }
}

pub fn proof_amount(rng: &mut Rng, b: &FBadge, acct: usize) -> Decimal {
    let unit = b.unit();
    let bal = b.bal[acct];
    let cands = [unit, Decimal::ONE, Decimal::from(2), Decimal::from(3), bal, bal.checked_sub(unit).unwrap_or(bal), Decimal::from(2).checked_add(unit).unwrap(), Decimal::from(2).checked_sub(unit).unwrap()];
    for _ in 0..6 {
        let a = *rng.pick(&cands);
        if a > Decimal::ZERO && a <= bal && check_fungible_amount(&a, b.div) {
            return a;
        }
    }
    unit.min(bal)
}

fn subset(rng: &mut Rng, ids: &BTreeSet<u64>) -> BTreeSet<u64> {
    let v: Vec<u64> = ids.iter().cloned().collect();
    let mut s = BTreeSet::new();
    if v.is_empty() {
        return s;
    }
    s.insert(*rng.pick(&v));
    for x in &v {
        if rng.chance(1, 3) {
            s.insert(*x);
        }
    }
    s
}

/// one random feasible instruction in the current state
pub fn random_op(rng: &mut Rng, u: &Universe, m: &ZoneModel) -> Option<Op> {
    let name = m.next_name;
    for _ in 0..8 {
        let named: Vec<usize> = m.named.keys().cloned().collect();
        let op = match rng.below(100) {
            0..=21 => {
                let f = rng.usize_below(u.f.len());
                let acct = rng.usize_below(2);
                if u.f[f].bal[acct] <= Decimal::ZERO {
                    continue;
                }
                Op::AcctAmount { acct, f, amount: proof_amount(rng, &u.f[f], acct) }
            }
            22..=39 => {
                let n = rng.usize_below(u.n.len());
                let acct = rng.usize_below(2);
                Op::AcctIds { acct, n, ids: subset(rng, &u.n[n].ids[acct]) }
            }
            40..=48 => Op::Pop { name },
            49..=58 if !named.is_empty() => Op::Push { name: *rng.pick(&named) },
            59..=65 if !named.is_empty() => Op::CloneP { src: *rng.pick(&named), name },
            66..=69 if !named.is_empty() => Op::DropP { name: *rng.pick(&named) },
            70..=74 => {
                let f = rng.usize_below(u.f.len());
                let c = m.f_containers(u, f);
                if c.len() != 1 {
                    continue;
                }
                let unit = u.f[f].unit();
                let amount = *rng.pick(&[c[0].1, unit, c[0].1.checked_sub(unit).unwrap_or(unit)]);
                Op::ZoneAmount { f, amount, name }
            }
            75..=78 => Op::ZoneAllF { f: rng.usize_below(u.f.len()), name },
            79..=82 => Op::ZoneAllN { n: rng.usize_below(u.n.len()), name },
            83..=87 => {
                let n = rng.usize_below(u.n.len());
                Op::ZoneIds { n, ids: subset(rng, &m.n_union(u, n)), name }
            }
            88..=90 => Op::DropRegular,
            91..=93 => Op::DropSigs,
            94 | 95 => Op::DropZone,
            96 | 97 => Op::DropNamedAll,
            98 => Op::DropAll,
            _ => continue,
        };
        if m.feasible(&op, u) {
            return Some(op);
        }
    }
    None
}

#[derive(Clone, Debug, Default)]
pub struct Placement {
    pub sig_keys: BTreeSet<usize>,
    pub simulated: BTreeSet<ResourceAddress>,
    pub pre: Vec<Op>,
    pub post: Vec<Op>,
}

/// Instruction recipes realising the needs (each recipe is kept contiguous-in-order, recipes are
/// interleaved with noise by the caller).
fn recipes(rng: &mut Rng, u: &Universe, needs: &Needs, next_name: &mut usize) -> Vec<Vec<Op>> {
    let mut out = vec![];
    for (f, amt) in &needs.f {
        let b = &u.f[*f];
        // smallest valid amount >= amt, sometimes more, sometimes one unit short (near miss)
        let unit = b.unit();
        let mut a = *amt;
        if !check_fungible_amount(&a, b.div) {
            // round up to the next multiple of the unit
            let q = a.checked_div(unit).unwrap().checked_floor().unwrap();
            a = q.checked_add(Decimal::ONE).unwrap().checked_mul(unit).unwrap();
        }
        match rng.below(10) {
            0 => a = a.checked_sub(unit).unwrap_or(a), // near miss
            1 => a = a.checked_add(unit).unwrap_or(a),
            _ => {}
        }
        let single: Vec<usize> = (0..2).filter(|c| a <= b.bal[*c] && a > Decimal::ZERO).collect();
        if !single.is_empty() && !(a <= Decimal::ZERO) {
            let acct = *rng.pick(&single);
            if rng.chance(1, 6) && a > unit {
                // two smaller proofs whose sum (but not maximum) reaches the amount
                let part = a.checked_sub(unit).unwrap();
                out.push(vec![Op::AcctAmount { acct, f: *f, amount: part }, Op::AcctAmount { acct, f: *f, amount: unit }]);
            } else {
                out.push(vec![Op::AcctAmount { acct, f: *f, amount: a }]);
            }
        } else if a > Decimal::ZERO && a <= b.total() && b.bal[0] > Decimal::ZERO && b.bal[1] > Decimal::ZERO {
            // needs both vaults: two account proofs, composed into one proof of everything
            let name = *next_name;
            *next_name += 1;
            let mut r = vec![Op::AcctAmount { acct: 0, f: *f, amount: b.bal[0] }, Op::AcctAmount { acct: 1, f: *f, amount: b.bal[1] }];
            if !rng.chance(1, 6) {
                r.push(Op::ZoneAllF { f: *f, name });
                r.push(Op::Push { name });
            }
            out.push(r);
        }
    }
    for (n, id) in &needs.n_id {
        let acct = if u.n[*n].ids[0].contains(id) { 0 } else { 1 };
        let mut ids = if rng.bool() { subset(rng, &u.n[*n].ids[acct]) } else { BTreeSet::new() };
        if rng.chance(9, 10) {
            ids.insert(*id);
        }
        if !ids.is_empty() {
            out.push(vec![Op::AcctIds { acct, n: *n, ids }]);
        }
    }
    for (n, k) in &needs.n_count {
        let acct = if u.n[*n].ids[0].len() >= *k { if u.n[*n].ids[1].len() >= *k && rng.bool() { 1 } else { 0 } } else { 1 };
        let all: Vec<u64> = u.n[*n].ids[acct].iter().cloned().collect();
        let take = match rng.below(10) {
            0 => k.saturating_sub(1),
            1 => k + 1,
            _ => *k,
        };
        let ids: BTreeSet<u64> = all.into_iter().take(take.max(1)).collect();
        if !ids.is_empty() {
            out.push(vec![Op::AcctIds { acct, n: *n, ids }]);
        }
    }
    rng.shuffle(&mut out);
    out
}

/// Generates a placement; returns it with the model state at the time of the protected call.
pub fn gen_placement(rng: &mut Rng, u: &Universe, needs: Option<&Needs>, allow_simulation: bool) -> (Placement, ZoneModel) {
    let mut p = Placement::default();
    match needs {
        Some(n) => {
            for k in &n.sigs {
                if !rng.chance(1, 9) {
                    p.sig_keys.insert(*k);
                }
            }
            for k in 0..3 {
                if rng.chance(1, 5) {
                    p.sig_keys.insert(k);
                }
            }
        }
        None => {
            for k in 0..3 {
                if rng.chance(1, 3) {
                    p.sig_keys.insert(k);
                }
            }
        }
    }
    if allow_simulation && rng.chance(1, 10) {
        match rng.below(5) {
            0 => {
                p.simulated.insert(SECP256K1_SIGNATURE_RESOURCE);
            }
            1 => {
                p.simulated.insert(ED25519_SIGNATURE_RESOURCE);
            }
            2 | 3 => {
                p.simulated.insert(SECP256K1_SIGNATURE_RESOURCE);
                p.simulated.insert(ED25519_SIGNATURE_RESOURCE);
            }
            _ => {
                p.simulated.insert(rng.pick(&u.n).addr);
            }
        }
    }
    let sigs: BTreeSet<NonFungibleGlobalId> = p.sig_keys.iter().map(|k| u.keys[*k].clone()).collect();
    let mut m = ZoneModel::new(sigs, p.simulated.clone());
    let mut pending: Vec<Vec<Op>> = match needs {
        Some(n) => {
            let mut nn = RECIPE_NAMES; // recipe names live in their own range
            let mut r = recipes(rng, u, n, &mut nn);
            r.retain(|_| !rng.chance(1, 12)); // sometimes forget one
            r
        }
        None => vec![],
    };
    pending.reverse();
    let noise_budget = match needs {
        Some(_) => {
            if rng.chance(1, 2) {
                0
            } else {
                rng.range(1, 4)
            }
        }
        None => rng.range(0, 9),
    };
    let mut noise_left = noise_budget;
    let destructive_ok = needs.is_none() || rng.chance(1, 4);
    while (!pending.is_empty() || noise_left > 0) && p.pre.len() < 24 {
        if !pending.is_empty() && (noise_left == 0 || rng.chance(2, 3)) {
            for op in pending.pop().unwrap() {
                if m.feasible(&op, u) {
                    m.apply(&op, u);
                    p.pre.push(op);
                }
            }
        } else {
            noise_left -= 1;
            if let Some(op) = random_op(rng, u, &m) {
                let destructive = matches!(op, Op::DropRegular | Op::DropSigs | Op::DropZone | Op::DropAll | Op::Pop { .. });
                if destructive && !destructive_ok {
                    continue;
                }
                m.apply(&op, u);
                p.pre.push(op);
            }
        }
    }
    let at_call = m.clone();
    // decoys after the protected call: proofs that arrive too late
    for _ in 0..(if rng.chance(1, 3) { rng.range(1, 3) } else { 0 }) {
        if let Some(op) = random_op(rng, u, &m) {
            m.apply(&op, u);
            p.post.push(op);
        }
    }
    (p, at_call)
}

pub fn emit<M: BuildableManifest>(mut b: ManifestBuilder<M>, ops: &[Op], u: &Universe) -> ManifestBuilder<M>
where
    M::Instruction: From<InstructionV1>,
{
    let nm = |n: &usize| format!("p{n}");
    for op in ops {
        b = match op {
            Op::AcctAmount { acct, f, amount } => b.create_proof_from_account_of_amount(u.accounts[*acct], u.f[*f].addr, *amount),
            Op::AcctIds { acct, n, ids } => b.create_proof_from_account_of_non_fungibles(u.accounts[*acct], u.n[*n].addr, ids_local(ids)),
            Op::Pop { name } => b.pop_from_auth_zone(nm(name)),
            Op::Push { name } => b.push_to_auth_zone(nm(name)),
            Op::CloneP { src, name } => b.clone_proof(nm(src), nm(name)),
            Op::DropP { name } => b.drop_proof(nm(name)),
            Op::ZoneAmount { f, amount, name } => b.create_proof_from_auth_zone_of_amount(u.f[*f].addr, *amount, nm(name)),
            Op::ZoneAllF { f, name } => b.create_proof_from_auth_zone_of_all(u.f[*f].addr, nm(name)),
            Op::ZoneAllN { n, name } => b.create_proof_from_auth_zone_of_all(u.n[*n].addr, nm(name)),
            Op::ZoneIds { n, ids, name } => b.create_proof_from_auth_zone_of_non_fungibles(u.n[*n].addr, ids_local(ids), nm(name)),
            Op::DropRegular => b.drop_auth_zone_regular_proofs(),
            Op::DropSigs => b.drop_auth_zone_signature_proofs(),
            Op::DropZone => b.drop_auth_zone_proofs(),
            Op::DropNamedAll => b.drop_named_proofs(),
            Op::DropAll => b.drop_all_proofs(),
        };
    }
    b
}
