//! C08 (authorization succeeds iff the applicable access rule is satisfied): reference evaluator
//! of access-rule trees + manifest-level auth-zone model, checked against protected calls on the
//! monitored ledger.
mod c08;
mod rules;
mod zone;

fn main() {
    let args = rv_common::parse_args();
    let code = match args.prop.as_str() {
        "C08" => c08::run(&args),
        "C08-depth-probe" => c08::depth_probe(&args),
        other => {
            eprintln!("rv-auth: no check named {other}");
            2
        }
    };
    std::process::exit(code);
}
