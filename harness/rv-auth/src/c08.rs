//! C08: a protected call / explicit access-rule assertion passes authorization if and only if the
//! applicable rule is satisfied by what is visible to the caller.
//!
//! Every case = (entity with a modelled role assignment, probe = protected call, proof placement
//! built in the manifest). The reference evaluator (rules.rs) predicts from the *model* of the
//! role assignment (owner rule, owner updater, explicit roles, owner fallback), of the auth zone
//! (zone.rs) and of the call chain (which implicit caller badges exist) whether authorization
//! must pass; the receipt is classified as success / authorization error / other failure.
use crate::rules::*;
use crate::zone::*;
use rv_common::*;
use rv_ledger::actions::Nfd;
use rv_ledger::prelude::*;
use rv_ledger::{outcome_class, Ledger};
use serde_json::json;
use std::collections::{BTreeMap, BTreeSet};
use std::time::Duration;

const PHASE: u64 = 0xC08;
const CASES_PER_WORLD: u64 = 40;

// manifest nesting budget (SBOR levels above the rule) of the channels a rule travels through
// (calibrated with `rv-auth C08-depth-probe`)
const WRAP_SET: usize = 3; // set_role / set_owner_role
const WRAP_OWNER_CREATE: usize = 4; // owner role of a created resource / account, verify_parent
const WRAP_ROLE_CREATE: usize = 7; // role of a created resource

#[derive(Clone, Copy, PartialEq, Eq, Debug, Hash)]
enum Ctx {
    /// called by the manifest itself (global callee or direct vault access)
    Direct,
    /// vault inside a badge account: manifest -> account (global) -> vault (owned)
    ViaAccount,
    /// VERIFY_PARENT: checked against the parent intent's processor
    Parent,
}

fn implicit(u: &Universe, ctx: Ctx) -> BTreeSet<NonFungibleGlobalId> {
    let mut s = BTreeSet::new();
    s.insert(u.tp_caller.clone());
    match ctx {
        Ctx::Direct => {
            s.insert(u.tp_pkg.clone());
        }
        Ctx::ViaAccount => {
            s.insert(u.acct_pkg.clone());
        }
        Ctx::Parent => {}
    }
    s
}

#[derive(Clone, Copy, PartialEq, Eq, Debug)]
enum EKind {
    Fungible,
    NonFungible,
    Account,
}

const MAIN: u8 = 0;
const META: u8 = 1;

struct Entity {
    kind: EKind,
    addr: GlobalAddress,
    owner: AccessRule,
    updater: OwnerRoleUpdater,
    /// explicit role entries; a missing entry or `None` falls back to the owner rule
    roles: BTreeMap<(u8, String), Option<AccessRule>>,
    vault: Option<InternalAddress>,
    counter: u64,
}

impl Entity {
    fn role(&self, module: u8, key: &str) -> AccessRule {
        match self.roles.get(&(module, key.to_string())) {
            Some(Some(r)) => r.clone(),
            _ => self.owner.clone(),
        }
    }
    fn role_source(&self, module: u8, key: &str) -> &'static str {
        match self.roles.get(&(module, key.to_string())) {
            Some(Some(_)) => "explicit-role",
            Some(None) => "owner-fallback(entry-none)",
            None => "owner-fallback(no-entry)",
        }
    }
    fn owner_update_rule(&self) -> AccessRule {
        match self.updater {
            OwnerRoleUpdater::None => AccessRule::DenyAll,
            OwnerRoleUpdater::Owner => self.owner.clone(),
            OwnerRoleUpdater::Object => rule!(require(global_caller(self.addr))),
        }
    }
    fn resource(&self) -> ResourceAddress {
        ResourceAddress::new_or_panic(self.addr.into_node_id().0)
    }
    fn component(&self) -> ComponentAddress {
        ComponentAddress::new_or_panic(self.addr.into_node_id().0)
    }
}

const RES_ROLES: [&str; 12] = ["minter", "minter_updater", "burner", "burner_updater", "withdrawer", "withdrawer_updater", "depositor", "depositor_updater", "recaller", "recaller_updater", "freezer", "freezer_updater"];
const NF_EXTRA_ROLES: [&str; 2] = ["non_fungible_data_updater", "non_fungible_data_updater_updater"];
const META_ROLES: [&str; 4] = ["metadata_setter", "metadata_setter_updater", "metadata_locker", "metadata_locker_updater"];

fn updater_of(key: &str) -> String {
    // updater roles update themselves; note that "non_fungible_data_updater" is an actor role
    if key.ends_with("_updater") && key != "non_fungible_data_updater" {
        key.to_string()
    } else {
        format!("{key}_updater")
    }
}

#[derive(Clone, Debug)]
enum Probe {
    Mint,
    Burn,
    WithdrawDeposit,
    MintDeposit,
    Freeze,
    Recall,
    NfMint,
    NfUpdateData,
    SetRole { module: u8, key: String, new: AccessRule },
    SetOwner { new: AccessRule },
    LockOwner,
    SetMeta,
    LockMeta,
    AcctWithdraw,
    AcctDepositRule,
    AcctCreateProof,
    AcctLockFee,
    AcctDeposit,
    SetSecurify { new: AccessRule },
}

impl Probe {
    fn name(&self) -> &'static str {
        match self {
            Probe::Mint => "resource:mint+account-deposit(minter,depositor)",
            Probe::Burn => "resource:mint+burn(minter,burner)",
            Probe::WithdrawDeposit => "vault:take+put-via-account(withdrawer,depositor)",
            Probe::MintDeposit => "resource:mint+vault:put(minter,depositor)",
            Probe::Freeze => "vault:freeze+unfreeze(freezer)",
            Probe::Recall => "vault:recall+put(recaller,depositor)",
            Probe::NfMint => "nf-resource:mint+vault:put(minter,depositor)",
            Probe::NfUpdateData => "nf-resource:update_data(non_fungible_data_updater)",
            Probe::SetRole { .. } => "role-assignment:set_role(updater-role)",
            Probe::SetOwner { .. } => "role-assignment:set_owner_role(owner-updater)",
            Probe::LockOwner => "role-assignment:lock_owner_role(owner-updater)",
            Probe::SetMeta => "metadata:set(metadata_setter)",
            Probe::LockMeta => "metadata:lock(metadata_locker)",
            Probe::AcctWithdraw => "account:withdraw(owner)",
            Probe::AcctDepositRule => "account:set_default_deposit_rule(owner)",
            Probe::AcctCreateProof => "account:create_proof_of_amount(owner)",
            Probe::AcctLockFee => "account:lock_fee(owner)",
            Probe::AcctDeposit => "account:withdraw+deposit(owner,owner)",
            Probe::SetSecurify { .. } => "role-assignment:set_role(self-role)",
        }
    }

    /// the authorization checks the call performs, in order: (applicable rule, call context, source)
    fn steps(&self, e: &Entity) -> Vec<(AccessRule, Ctx, &'static str)> {
        let r = |k: &str, c: Ctx| (e.role(MAIN, k), c, e.role_source(MAIN, k));
        match self {
            Probe::Mint => vec![r("minter", Ctx::Direct), r("depositor", Ctx::ViaAccount)],
            Probe::Burn => vec![r("minter", Ctx::Direct), r("burner", Ctx::Direct)],
            Probe::WithdrawDeposit => vec![r("withdrawer", Ctx::ViaAccount), r("depositor", Ctx::ViaAccount)],
            Probe::MintDeposit | Probe::NfMint => vec![r("minter", Ctx::Direct), r("depositor", Ctx::ViaAccount)],
            Probe::Freeze => vec![r("freezer", Ctx::Direct), r("freezer", Ctx::Direct)],
            Probe::Recall => vec![r("recaller", Ctx::Direct), r("depositor", Ctx::ViaAccount)],
            Probe::NfUpdateData => vec![r("non_fungible_data_updater", Ctx::Direct)],
            Probe::SetRole { module, key, .. } => {
                let up = updater_of(key);
                vec![(e.role(*module, &up), Ctx::Direct, e.role_source(*module, &up))]
            }
            Probe::SetOwner { .. } | Probe::LockOwner => vec![(
                e.owner_update_rule(),
                Ctx::Direct,
                match e.updater {
                    OwnerRoleUpdater::None => "owner-updater:none",
                    OwnerRoleUpdater::Owner => "owner-updater:owner",
                    OwnerRoleUpdater::Object => "owner-updater:object",
                },
            )],
            Probe::SetMeta => vec![(e.role(META, "metadata_setter"), Ctx::Direct, e.role_source(META, "metadata_setter"))],
            Probe::LockMeta => vec![(e.role(META, "metadata_locker"), Ctx::Direct, e.role_source(META, "metadata_locker"))],
            Probe::AcctWithdraw | Probe::AcctDepositRule | Probe::AcctCreateProof | Probe::AcctLockFee => vec![(e.owner.clone(), Ctx::Direct, "owner-role")],
            Probe::AcctDeposit => vec![(e.owner.clone(), Ctx::Direct, "owner-role"), (e.owner.clone(), Ctx::Direct, "owner-role")],
            Probe::SetSecurify { .. } => vec![(rule!(require(global_caller(e.addr))), Ctx::Direct, "self-role")],
        }
    }

    fn emit<M: BuildableManifest>(&self, b: ManifestBuilder<M>, e: &Entity, u: &Universe) -> ManifestBuilder<M>
    where
        M::Instruction: From<InstructionV1>,
    {
        let a0 = u.accounts[0];
        match self {
            Probe::Mint => b.mint_fungible(e.resource(), dec!(1)).deposit_entire_worktop(a0),
            Probe::Burn => b.mint_fungible(e.resource(), dec!(1)).burn_all_from_worktop(e.resource()),
            Probe::WithdrawDeposit => match e.kind {
                EKind::NonFungible => b.withdraw_non_fungibles_from_account(a0, e.resource(), [NonFungibleLocalId::integer(1)]).try_deposit_entire_worktop_or_abort(a0, None),
                _ => b.withdraw_from_account(a0, e.resource(), dec!(1)).try_deposit_entire_worktop_or_abort(a0, None),
            },
            Probe::MintDeposit => b.mint_fungible(e.resource(), dec!(2)).try_deposit_entire_worktop_or_abort(a0, None),
            Probe::Freeze => {
                let v = e.vault.unwrap();
                b.freeze_withdraw(v).unfreeze_withdraw(v)
            }
            Probe::Recall => match e.kind {
                EKind::NonFungible => b.recall_non_fungibles(e.vault.unwrap(), [NonFungibleLocalId::integer(2)]).deposit_entire_worktop(a0),
                _ => b.recall(e.vault.unwrap(), dec!(1)).deposit_entire_worktop(a0),
            },
            Probe::NfMint => b.mint_non_fungible(e.resource(), [(NonFungibleLocalId::integer(1000 + e.counter), Nfd { counter: e.counter, fixed: "f".into(), note: "n".into() })]).deposit_entire_worktop(a0),
            Probe::NfUpdateData => b.update_non_fungible_data(e.resource(), NonFungibleLocalId::integer(1), "counter", e.counter),
            Probe::SetRole { module, key, new } => b.set_role(e.addr, if *module == MAIN { ModuleId::Main } else { ModuleId::Metadata }, RoleKey::new(key.as_str()), new.clone()),
            Probe::SetOwner { new } => b.set_owner_role(e.addr, new.clone()),
            Probe::LockOwner => b.lock_owner_role(e.addr),
            Probe::SetMeta => b.set_metadata(e.addr, format!("k{}", e.counter), MetadataValue::U64(e.counter)),
            Probe::LockMeta => b.lock_metadata(e.addr, format!("l{}", e.counter)),
            Probe::AcctWithdraw => b.withdraw_from_account(e.component(), XRD, dec!(1)).try_deposit_entire_worktop_or_abort(a0, None),
            Probe::AcctDepositRule => b.call_method(e.component(), ACCOUNT_SET_DEFAULT_DEPOSIT_RULE_IDENT, AccountSetDefaultDepositRuleInput { default: if e.counter % 2 == 0 { DefaultDepositRule::Accept } else { DefaultDepositRule::AllowExisting } }),
            Probe::AcctCreateProof => b.create_proof_from_account_of_amount(e.component(), XRD, dec!(1)),
            Probe::AcctLockFee => b.lock_fee(e.component(), dec!(1)),
            Probe::AcctDeposit => b.withdraw_from_account(e.component(), XRD, dec!(2)).deposit_entire_worktop(e.component()),
            Probe::SetSecurify { new } => b.set_role(e.addr, ModuleId::Main, RoleKey::new("securify"), new.clone()),
        }
    }

    fn on_success(&self, e: &mut Entity) {
        match self {
            Probe::SetRole { module, key, new } => {
                e.roles.insert((*module, key.clone()), Some(new.clone()));
            }
            Probe::SetSecurify { new } => {
                e.roles.insert((MAIN, "securify".into()), Some(new.clone()));
            }
            Probe::SetOwner { new } => e.owner = new.clone(),
            Probe::LockOwner => e.updater = OwnerRoleUpdater::None,
            _ => {}
        }
    }
}

// ---------------------------------------------------------------------------------------------
// World
// ---------------------------------------------------------------------------------------------
struct World {
    ledger: Ledger,
    u: Universe,
}

fn secp(n: u64) -> NonFungibleGlobalId {
    NonFungibleGlobalId::from_public_key(&Secp256k1PrivateKey::from_u64(n).unwrap().public_key())
}

fn build_world(shard: &mut Shard) -> Option<World> {
    let mut ledger = Ledger::new();
    ledger.walk_every = 0;
    let a0 = ledger.sim.new_account_advanced(OwnerRole::Fixed(rule!(allow_all)));
    let a1 = ledger.sim.new_account_advanced(OwnerRole::Fixed(rule!(allow_all)));
    let mut f = vec![];
    for (div, b0, b1) in [(0u8, dec!(10), dec!(5)), (0, dec!(3), dec!(0)), (18, dec!("2.5"), dec!("1.000000000000000001")), (2, dec!("7.25"), dec!("0.01"))] {
        let total = b0.checked_add(b1).unwrap();
        let m = ManifestBuilder::new().lock_fee_from_faucet().create_fungible_resource(OwnerRole::None, true, div, FungibleResourceRoles::default(), metadata!(), Some(total)).try_deposit_entire_worktop_or_abort(a0, None).build();
        let r = ledger.exec(shard, "setup:badge", m, vec![]);
        if !r.is_success() {
            return None;
        }
        let addr = r.receipt().expect_commit(true).new_resource_addresses()[0];
        if b1 > Decimal::ZERO {
            let m = ManifestBuilder::new().lock_fee_from_faucet().withdraw_from_account(a0, addr, b1).try_deposit_entire_worktop_or_abort(a1, None).build();
            if !ledger.exec(shard, "setup:badge", m, vec![]).is_success() {
                return None;
            }
        }
        f.push(FBadge { addr, div, bal: [b0, b1] });
    }
    let mut n = vec![];
    for (i0, i1) in [(vec![1u64, 2, 3, 4], vec![5u64, 6]), (vec![1, 2], vec![3]), (vec![1, 2, 3, 4, 5, 6], vec![])] {
        let entries: Vec<(NonFungibleLocalId, Nfd)> = i0.iter().chain(i1.iter()).map(|i| (NonFungibleLocalId::integer(*i), Nfd { counter: *i, fixed: "b".into(), note: String::new() })).collect();
        let m = ManifestBuilder::new()
            .lock_fee_from_faucet()
            .create_non_fungible_resource(OwnerRole::None, NonFungibleIdType::Integer, true, NonFungibleResourceRoles::default(), metadata!(), Some(entries))
            .try_deposit_entire_worktop_or_abort(a0, None)
            .build();
        let r = ledger.exec(shard, "setup:badge", m, vec![]);
        if !r.is_success() {
            return None;
        }
        let addr = r.receipt().expect_commit(true).new_resource_addresses()[0];
        if !i1.is_empty() {
            let m = ManifestBuilder::new()
                .lock_fee_from_faucet()
                .withdraw_non_fungibles_from_account(a0, addr, i1.iter().map(|i| NonFungibleLocalId::integer(*i)).collect::<Vec<_>>())
                .try_deposit_entire_worktop_or_abort(a1, None)
                .build();
            if !ledger.exec(shard, "setup:badge", m, vec![]).is_success() {
                return None;
            }
        }
        n.push(NBadge { addr, ids: [i0.into_iter().collect(), i1.into_iter().collect()] });
    }
    let keys = vec![secp(1001), secp(1002), NonFungibleGlobalId::from_public_key(&Ed25519PrivateKey::from_u64(1003).unwrap().public_key()), secp(1004)];
    let tp_bp = BlueprintId::new(&TRANSACTION_PROCESSOR_PACKAGE, TRANSACTION_PROCESSOR_BLUEPRINT);
    let u = Universe {
        accounts: [a0, a1],
        f,
        n,
        keys,
        tp_caller: NonFungibleGlobalId::global_caller_badge(GlobalCaller::PackageBlueprint(tp_bp)),
        tp_pkg: NonFungibleGlobalId::package_of_direct_caller_badge(TRANSACTION_PROCESSOR_PACKAGE),
        acct_pkg: NonFungibleGlobalId::package_of_direct_caller_badge(ACCOUNT_PACKAGE),
        foreign: vec![
            NonFungibleGlobalId::global_caller_badge(GlobalCaller::GlobalObject(FAUCET.into())),
            NonFungibleGlobalId::global_caller_badge(GlobalCaller::GlobalObject(a0.into())),
            NonFungibleGlobalId::global_caller_badge(GlobalCaller::PackageBlueprint(BlueprintId::new(&ACCOUNT_PACKAGE, ACCOUNT_BLUEPRINT))),
            NonFungibleGlobalId::package_of_direct_caller_badge(RESOURCE_PACKAGE),
            NonFungibleGlobalId::package_of_direct_caller_badge(FAUCET_PACKAGE),
        ],
    };
    Some(World { ledger, u })
}

fn role_def(rng: &mut Rng, pool: &[AccessRule]) -> Option<AccessRule> {
    match rng.below(10) {
        0..=2 => Some(AccessRule::AllowAll),
        3 => Some(AccessRule::DenyAll),
        4 | 5 => None,
        _ => Some(rng.pick(pool).clone()),
    }
}

fn gen_owner(rng: &mut Rng, u: &Universe, wrap: usize) -> (OwnerRole, AccessRule, OwnerRoleUpdater) {
    let nest = *rng.pick(&[0usize, 1, 2, 3, 5, 8]);
    let r = gen_rule(rng, u, nest, wrap);
    match rng.below(10) {
        0 => (OwnerRole::None, AccessRule::DenyAll, OwnerRoleUpdater::None),
        1..=4 => (OwnerRole::Fixed(r.clone()), r, OwnerRoleUpdater::None),
        _ => (OwnerRole::Updatable(r.clone()), r, OwnerRoleUpdater::Owner),
    }
}

fn create_entity(w: &mut World, shard: &mut Shard, rng: &mut Rng) -> Option<Entity> {
    let u = &w.u;
    let a0 = u.accounts[0];
    let kind = match rng.below(10) {
        0..=4 => EKind::Fungible,
        5..=6 => EKind::NonFungible,
        _ => EKind::Account,
    };
    let mut roles: BTreeMap<(u8, String), Option<AccessRule>> = BTreeMap::new();
    match kind {
        EKind::Account => {
            let (owner_role, owner, updater) = gen_owner(rng, u, WRAP_OWNER_CREATE);
            let m = ManifestBuilder::new().lock_fee_from_faucet().new_account_advanced(owner_role, None).build();
            let r = w.ledger.exec(shard, "setup:account-entity", m, vec![]);
            if !r.is_success() {
                shard.count("c08:setup_failed");
                shard.seen("c08:setup_failure_classes", &r.receipt.as_ref().map(outcome_class).unwrap_or("not-executed".into()));
                return None;
            }
            let addr = r.receipt().expect_commit(true).new_component_addresses()[0];
            let m = ManifestBuilder::new().lock_fee_from_faucet().get_free_xrd_from_faucet().try_deposit_entire_worktop_or_abort(addr, None).build();
            if !w.ledger.exec(shard, "setup:account-entity", m, vec![]).is_success() {
                shard.count("c08:setup_failed");
                return None;
            }
            roles.insert((MAIN, "securify".into()), Some(AccessRule::DenyAll));
            Some(Entity { kind, addr: addr.into(), owner, updater, roles, vault: None, counter: 0 })
        }
        EKind::Fungible | EKind::NonFungible => {
            let (owner_role, owner, updater) = gen_owner(rng, u, WRAP_OWNER_CREATE);
            let pool: Vec<AccessRule> = (0..rng.range(2, 3)).map(|_| { let nest = *rng.pick(&[0usize, 1, 2, 3, 4, 6]); gen_rule(rng, u, nest, WRAP_ROLE_CREATE) }).collect();
            let mut keys: Vec<&str> = RES_ROLES.to_vec();
            if kind == EKind::NonFungible {
                keys.extend(NF_EXTRA_ROLES);
            }
            for k in keys {
                let d = if k == "depositor" { Some(AccessRule::AllowAll) } else { role_def(rng, &pool) };
                roles.insert((MAIN, k.to_string()), d);
            }
            let mut meta_roles = RoleAssignmentInit::new();
            for k in META_ROLES {
                if rng.chance(3, 5) {
                    let d = role_def(rng, &pool);
                    meta_roles.data.insert(RoleKey::new(k), d.clone());
                    roles.insert((META, k.to_string()), d);
                }
            }
            let g = |k: &str| roles.get(&(MAIN, k.to_string())).cloned().unwrap();
            let metadata = ModuleConfig { init: MetadataInit::default(), roles: meta_roles };
            let m = if kind == EKind::Fungible {
                let rr = FungibleResourceRoles {
                    mint_roles: Some(MintRoles { minter: g("minter"), minter_updater: g("minter_updater") }),
                    burn_roles: Some(BurnRoles { burner: g("burner"), burner_updater: g("burner_updater") }),
                    freeze_roles: Some(FreezeRoles { freezer: g("freezer"), freezer_updater: g("freezer_updater") }),
                    recall_roles: Some(RecallRoles { recaller: g("recaller"), recaller_updater: g("recaller_updater") }),
                    withdraw_roles: Some(WithdrawRoles { withdrawer: g("withdrawer"), withdrawer_updater: g("withdrawer_updater") }),
                    deposit_roles: Some(DepositRoles { depositor: g("depositor"), depositor_updater: g("depositor_updater") }),
                };
                ManifestBuilder::new().lock_fee_from_faucet().create_fungible_resource(owner_role, true, 18, rr, metadata, Some(dec!(1000))).try_deposit_entire_worktop_or_abort(a0, None).build()
            } else {
                let rr = NonFungibleResourceRoles {
                    mint_roles: Some(MintRoles { minter: g("minter"), minter_updater: g("minter_updater") }),
                    burn_roles: Some(BurnRoles { burner: g("burner"), burner_updater: g("burner_updater") }),
                    freeze_roles: Some(FreezeRoles { freezer: g("freezer"), freezer_updater: g("freezer_updater") }),
                    recall_roles: Some(RecallRoles { recaller: g("recaller"), recaller_updater: g("recaller_updater") }),
                    withdraw_roles: Some(WithdrawRoles { withdrawer: g("withdrawer"), withdrawer_updater: g("withdrawer_updater") }),
                    deposit_roles: Some(DepositRoles { depositor: g("depositor"), depositor_updater: g("depositor_updater") }),
                    non_fungible_data_update_roles: Some(NonFungibleDataUpdateRoles { non_fungible_data_updater: g("non_fungible_data_updater"), non_fungible_data_updater_updater: g("non_fungible_data_updater_updater") }),
                };
                let entries: Vec<(NonFungibleLocalId, Nfd)> = (1..=3u64).map(|i| (NonFungibleLocalId::integer(i), Nfd { counter: i, fixed: "e".into(), note: String::new() })).collect();
                ManifestBuilder::new().lock_fee_from_faucet().create_non_fungible_resource(owner_role, NonFungibleIdType::Integer, true, rr, metadata, Some(entries)).try_deposit_entire_worktop_or_abort(a0, None).build()
            };
            let r = w.ledger.exec(shard, "setup:resource-entity", m, vec![]);
            if !r.is_success() {
                shard.count("c08:setup_failed");
                shard.seen("c08:setup_failure_classes", &r.receipt.as_ref().map(outcome_class).unwrap_or("not-executed".into()));
                return None;
            }
            let addr = r.receipt().expect_commit(true).new_resource_addresses()[0];
            let vault = w.ledger.sim.get_component_vaults(a0, addr).first().map(|v| InternalAddress::new_or_panic(v.0));
            Some(Entity { kind, addr: addr.into(), owner, updater, roles, vault, counter: 0 })
        }
    }
}

fn gen_probe(rng: &mut Rng, u: &Universe, e: &Entity) -> Probe {
    let new_rule = |rng: &mut Rng| { let nest = *rng.pick(&[0usize, 1, 2, 3, 4, 6, 8, 8]); gen_rule(rng, u, nest, WRAP_SET) };
    match e.kind {
        EKind::Account => match rng.below(20) {
            0..=3 => Probe::AcctWithdraw,
            4..=6 => Probe::AcctDepositRule,
            7..=8 => Probe::AcctCreateProof,
            9..=10 => Probe::AcctLockFee,
            11..=12 => Probe::AcctDeposit,
            13..=14 => Probe::SetMeta,
            15 => Probe::LockMeta,
            16..=17 => Probe::SetOwner { new: new_rule(rng) },
            18 => {
                if rng.chance(1, 4) {
                    Probe::LockOwner
                } else {
                    Probe::SetOwner { new: new_rule(rng) }
                }
            }
            _ => Probe::SetSecurify { new: new_rule(rng) },
        },
        _ => {
            let nf = e.kind == EKind::NonFungible;
            let has_vault = e.vault.is_some();
            loop {
                let p = match rng.below(24) {
                    0..=2 if nf => Probe::NfMint,
                    0..=2 => Probe::Mint,
                    3..=5 if nf => Probe::NfUpdateData,
                    3..=4 => Probe::Burn,
                    5 => Probe::MintDeposit,
                    6..=8 if has_vault => Probe::WithdrawDeposit,
                    9..=10 if has_vault => Probe::Freeze,
                    11..=12 if has_vault => Probe::Recall,
                    13..=14 => Probe::SetMeta,
                    15 => Probe::LockMeta,
                    16 => Probe::SetOwner { new: new_rule(rng) },
                    17 if rng.chance(1, 4) => Probe::LockOwner,
                    18..=23 => {
                        let (module, key) = if rng.chance(1, 4) {
                            (META, rng.pick(&META_ROLES).to_string())
                        } else if nf && rng.chance(1, 5) {
                            (MAIN, rng.pick(&NF_EXTRA_ROLES).to_string())
                        } else {
                            (MAIN, rng.pick(&RES_ROLES).to_string())
                        };
                        Probe::SetRole { module, key, new: new_rule(rng) }
                    }
                    _ => continue,
                };
                return p;
            }
        }
    }
}

// ---------------------------------------------------------------------------------------------
// Oracle application
// ---------------------------------------------------------------------------------------------
#[derive(Debug, Clone, PartialEq, Eq)]
enum Expect {
    Authorized,
    Unauthorized(usize),
    Grey,
}

fn expected(steps: &[(AccessRule, Ctx, &'static str)], zone: &ZoneModel, u: &Universe) -> Expect {
    for (i, (rule, ctx, _)) in steps.iter().enumerate() {
        let v = zone.visible(&implicit(u, *ctx));
        let strict = satisfied(rule, &v, false);
        let lenient = satisfied(rule, &v, true);
        if strict != lenient {
            return Expect::Grey;
        }
        if !strict {
            return Expect::Unauthorized(i);
        }
    }
    Expect::Authorized
}

#[derive(Debug, Clone, PartialEq, Eq)]
enum Observed {
    Success,
    AuthError(String),
    AssertionFailed,
    Other(String),
}

fn observe(receipt: &TransactionReceipt) -> Observed {
    match &receipt.result {
        TransactionResult::Commit(c) => match &c.outcome {
            TransactionOutcome::Success(_) => Observed::Success,
            TransactionOutcome::Failure(e) => match e {
                RuntimeError::SystemModuleError(SystemModuleError::AuthError(a)) => Observed::AuthError(match a {
                    AuthError::Unauthorized(un) => format!("Unauthorized@{}", un.fn_identifier.ident),
                    other => format!("{:?}", other).chars().take(60).collect(),
                }),
                RuntimeError::SystemError(SystemError::IntentError(IntentError::VerifyParentFailed)) => Observed::AssertionFailed,
                RuntimeError::SystemError(SystemError::AssertAccessRuleFailed) => Observed::AssertionFailed,
                _ => Observed::Other(outcome_class(receipt)),
            },
        },
        _ => Observed::Other(outcome_class(receipt)),
    }
}

struct CaseInfo<'a> {
    vehicle: &'static str,
    steps: &'a [(AccessRule, Ctx, &'static str)],
    zone: &'a ZoneModel,
    placement: &'a Placement,
    coords: serde_json::Value,
    assertion: bool,
    probe: String,
}

/// compares prediction and observation; returns true when the call was observed to succeed
fn judge(shard: &mut Shard, u: &Universe, info: &CaseInfo, exp: &Expect, obs: &Observed) {
    shard.count("c08:cases");
    shard.count(&format!("vehicle:{}", info.vehicle));
    for op in info.placement.pre.iter().chain(info.placement.post.iter()) {
        shard.seen("c08:placement_instructions", op.kind());
    }
    shard.max("proofs_in_auth_zone_at_call", info.zone.zone.len() as u64);
    shard.max("named_proofs_outside_auth_zone_at_call", info.zone.named.len() as u64);
    if !info.zone.named.is_empty() {
        shard.count("c08:cases_with_named_proofs_not_in_zone");
    }
    if !info.placement.post.is_empty() {
        shard.count("c08:cases_with_late_proofs_after_call");
    }
    if !info.placement.simulated.is_empty() {
        shard.count("c08:cases_with_simulated_resources");
    }
    if info.placement.sig_keys.len() != info.zone.sigs.len() {
        shard.count("c08:cases_with_dropped_signature_proofs");
    }
    // the decisive rule: the first unsatisfied one, else all of them
    let decisive: Vec<usize> = match exp {
        Expect::Unauthorized(i) => vec![*i],
        _ => (0..info.steps.len()).collect(),
    };
    let mut kinds: BTreeSet<&'static str> = BTreeSet::new();
    let mut nest = 0;
    let mut nodes = 0;
    for i in &decisive {
        let s = shape(&info.steps[*i].0, u);
        kinds.extend(s.kinds);
        nest = nest.max(s.nest);
        nodes = nodes.max(s.nodes);
        shard.seen("c08:rule_sources", info.steps[*i].2);
        shard.count(&format!("source:{}", info.steps[*i].2));
        shard.seen("c08:call_contexts", &format!("{:?}", info.steps[*i].1));
    }
    let mut bounds: BTreeSet<&'static str> = BTreeSet::new();
    for i in &decisive {
        boundaries(&info.steps[*i].0, &info.zone.visible(&implicit(u, info.steps[*i].1)), &mut bounds);
    }
    let verdict_bearing = match (exp, obs) {
        (Expect::Grey, _) => {
            shard.count("c08:not_judged:documentation_ambiguous(resource-level requirement vs virtual badge)");
            false
        }
        (_, Observed::Other(c)) => {
            shard.count("c08:not_judged:failed_for_a_non_authorization_reason");
            shard.seen("c08:non_authorization_failures", &format!("{}|{}", info.vehicle, c));
            false
        }
        _ => true,
    };
    if !verdict_bearing {
        return;
    }
    shard.count("c08:judged");
    for k in &kinds {
        shard.count(&format!("kind:{k}"));
    }
    for b in &bounds {
        shard.count(&format!("boundary:{b}"));
    }
    shard.count(&format!("nest:{nest}"));
    shard.max("rule_nesting_depth", nest as u64);
    shard.max("rule_composite_nodes", nodes as u64);
    if nodes == MAX_NODES {
        shard.count("c08:judged_rules_with_64_nodes");
    }
    if nest == MAX_NEST {
        shard.count("c08:judged_rules_at_depth_limit");
    }
    let denied = matches!(obs, Observed::AuthError(_) | Observed::AssertionFailed);
    let exp_ok = *exp == Expect::Authorized;
    shard.count(if exp_ok { "c08:expected_authorized" } else { "c08:expected_unauthorized" });
    shard.count(&format!("vehicle:{}:{}", info.vehicle, if exp_ok { "authorized" } else { "unauthorized" }));
    shard.nontrivial(&(info.vehicle, exp_ok, &kinds, nest, info.zone.zone.len().min(6), info.zone.sigs.len(), info.zone.named.len().min(3)));
    if let Observed::AuthError(s) = obs {
        shard.seen("c08:authorization_errors", s);
    }
    if info.assertion && matches!(obs, Observed::AuthError(_)) {
        // an assertion reports its own error; an AuthError here comes from something else
        shard.count("c08:assertion_case_with_auth_error");
    }
    if exp_ok != !denied {
        let sig = if exp_ok { format!("satisfied-rule-denied:{}", info.vehicle) } else { format!("unsatisfied-rule-authorized:{}", info.vehicle) };
        let rules: Vec<String> = info.steps.iter().map(|(r, c, s)| format!("[{c:?}/{s}] {r:?}")).collect();
        shard.violation(
            sig,
            json!({
                "replay": info.coords,
                "vehicle": info.vehicle,
                "probe": info.probe,
                "expected": format!("{exp:?}"),
                "observed": format!("{obs:?}"),
                "applicable_rules_in_call_order": rules,
                "signature_badges_at_call": info.zone.sigs.iter().map(|g| format!("{g:?}")).collect::<Vec<_>>(),
                "simulated_resources_at_call": info.zone.simulated.iter().map(|g| format!("{g:?}")).collect::<Vec<_>>(),
                "auth_zone_proofs_at_call": info.zone.zone.iter().map(|p| format!("{p:?}")).collect::<Vec<_>>(),
                "named_proofs_not_in_zone": info.zone.named.values().map(|p| format!("{p:?}")).collect::<Vec<_>>(),
                "instructions_before_call": info.placement.pre.iter().map(|o| format!("{o:?}")).collect::<Vec<_>>(),
                "instructions_after_call": info.placement.post.iter().map(|o| format!("{o:?}")).collect::<Vec<_>>(),
            }),
        );
    } else {
        shard.count(if exp_ok { "c08:agree_authorized" } else { "c08:agree_unauthorized" });
        if shard.want_sample() && nest >= 2 {
            let rules: Vec<String> = info.steps.iter().map(|(r, c, s)| format!("[{c:?}/{s}] {r:?}")).collect();
            shard.sample(|| json!({"vehicle": info.vehicle, "expected": format!("{exp:?}"), "observed": format!("{obs:?}"), "rules": rules, "proofs_at_call": info.zone.zone.iter().map(|p| format!("{p:?}")).collect::<Vec<_>>(), "signatures": info.zone.sigs.len()}));
        }
    }
}

fn needs_for(rng: &mut Rng, steps: &[(AccessRule, Ctx, &'static str)], u: &Universe) -> Option<Needs> {
    let mut all = Needs::default();
    for (r, c, _) in steps {
        let n = witness(rng, r, u, &implicit(u, *c))?;
        all.f.extend(n.f);
        all.n_id.extend(n.n_id);
        all.n_count.extend(n.n_count);
        all.sigs.extend(n.sigs);
    }
    all.f.sort();
    all.f.dedup();
    all.n_id.sort();
    all.n_id.dedup();
    all.n_count.sort();
    all.n_count.dedup();
    Some(all)
}

fn sig_proofs(u: &Universe, keys: &BTreeSet<usize>) -> Vec<NonFungibleGlobalId> {
    keys.iter().map(|k| u.keys[*k].clone()).collect()
}

/// V1 test executable with an explicit AuthZoneInit (signature badges + simulated resources)
fn executable_with_simulation(w: &mut World, manifest: TransactionManifestV1, proofs: Vec<NonFungibleGlobalId>, simulated: BTreeSet<ResourceAddress>) -> Option<ExecutableTransaction> {
    let nonce = w.ledger.sim.next_transaction_nonce();
    let settings = w.ledger.sim.transaction_validator().preparation_settings().clone();
    let prepared = TestTransaction::new_v1_from_nonce(manifest, nonce, proofs.into_iter().collect()).prepare(&settings).ok()?;
    let PreparedTestTransaction::V1(intent) = prepared else { return None };
    let payload_size = intent.encoded_instructions.len();
    Some(ExecutableTransaction::new_v1(
        intent.encoded_instructions.clone(),
        AuthZoneInit::new(intent.initial_proofs.clone(), simulated),
        intent.references.clone(),
        intent.blobs.clone(),
        ExecutionContext {
            unique_hash: intent.hash,
            intent_hash_nullifications: vec![],
            epoch_range: None,
            payload_size,
            num_of_signature_validations: intent.initial_proofs.len() + 1,
            costing_parameters: TransactionCostingParameters { tip: TipSpecifier::None, free_credit_in_xrd: Decimal::ZERO },
            pre_allocated_addresses: vec![],
            disable_limits_and_costing_modules: false,
            proposer_timestamp_range: None,
        },
    ))
}

fn run_entity_probe(w: &mut World, shard: &mut Shard, rng: &mut Rng, e: &mut Entity, coords: serde_json::Value) {
    let probe = gen_probe(rng, &w.u, e);
    e.counter += 1;
    let steps = probe.steps(e);
    let needs = if rng.chance(13, 20) { needs_for(rng, &steps, &w.u) } else { None };
    let post_ok = !matches!(probe, Probe::AcctCreateProof);
    let (mut placement, zone) = gen_placement(rng, &w.u, needs.as_ref(), true);
    if !post_ok {
        placement.post.clear();
    }
    let exp = expected(&steps, &zone, &w.u);
    let b = ManifestBuilder::new().lock_fee_from_faucet();
    let b = emit(b, &placement.pre, &w.u);
    let b = probe.emit(b, e, &w.u);
    let b = emit(b, &placement.post, &w.u);
    let manifest = b.build();
    let proofs = sig_proofs(&w.u, &placement.sig_keys);
    let label = probe.name();
    let r = if placement.simulated.is_empty() {
        w.ledger.exec(shard, label, manifest, proofs)
    } else {
        let description = format!("simulated={:?} proofs={:?}\n{}", placement.simulated, proofs, rv_ledger::describe_manifest(&manifest, &proofs));
        match executable_with_simulation(w, manifest, proofs, placement.simulated.clone()) {
            Some(x) => w.ledger.exec_executable(shard, label, x, ExecutionConfig::for_test_transaction(), description, false),
            None => {
                shard.count("c08:not_executed");
                return;
            }
        }
    };
    let Some(receipt) = &r.receipt else {
        shard.count("c08:not_executed");
        return;
    };
    let obs = observe(receipt);
    let info = CaseInfo { vehicle: label, steps: &steps, zone: &zone, placement: &placement, coords, assertion: false, probe: format!("{probe:?} on {:?} {:?} owner={:?} updater={:?} roles={:?}", e.kind, e.addr, e.owner, e.updater, e.roles) };
    judge(shard, &w.u, &info, &exp, &obs);
    if obs == Observed::Success {
        probe.on_success(e);
    }
}

/// explicit assertion: a subintent executes VERIFY_PARENT(rule) against its parent intent
fn run_verify_parent(w: &mut World, shard: &mut Shard, rng: &mut Rng, coords: serde_json::Value) {
    let nest = *rng.pick(&[0usize, 1, 2, 3, 4, 6, 8]);
    let rule = gen_rule(rng, &w.u, nest, WRAP_OWNER_CREATE);
    let steps = vec![(rule.clone(), Ctx::Parent, "explicit-assertion")];
    let nested = rng.chance(2, 5);
    let needs = if rng.chance(13, 20) { needs_for(rng, &steps, &w.u) } else { None };
    let (placement, zone) = gen_placement(rng, &w.u, needs.as_ref(), false);
    let exp = expected(&steps, &zone, &w.u);
    let u = &w.u;
    let nonce = w.ledger.sim.next_transaction_nonce();
    let mut builder = TestTransaction::new_v2_builder(nonce);
    // the asserting child carries decoy signatures of its own (not visible to the check)
    let child_sigs: BTreeSet<usize> = (0..3).filter(|_| rng.chance(1, 2)).collect();
    let child = builder.add_subintent(ManifestBuilder::new_subintent_v2().verify_parent(rule.clone()).yield_to_parent(()).build(), sig_proofs(u, &child_sigs));
    let label = if nested { "intent:verify_parent(nested,explicit-assertion)" } else { "intent:verify_parent(explicit-assertion)" };
    let tx = if nested {
        // root -> mid -> child: the assertion looks at mid only; root holds a (often satisfying) decoy placement
        let mb = ManifestBuilder::new_subintent_v2().use_child("c", child);
        let mb = emit(mb, &placement.pre, u).yield_to_child("c", ());
        let mid_manifest = emit(mb, &placement.post, u).yield_to_parent(()).build();
        let mid = builder.add_subintent(mid_manifest, sig_proofs(u, &placement.sig_keys));
        let root_needs = needs_for(rng, &steps, u);
        let (root_placement, _) = gen_placement(rng, u, root_needs.as_ref(), false);
        let rb = ManifestBuilder::new_v2().use_child("m", mid).lock_fee_from_faucet();
        let root_manifest = emit(rb, &root_placement.pre, u).yield_to_child("m", ()).build();
        let mut root_sigs = root_placement.sig_keys.clone();
        root_sigs.extend(0..3usize);
        builder.finish_with_root_intent(root_manifest, sig_proofs(u, &root_sigs))
    } else {
        let rb = ManifestBuilder::new_v2().use_child("c", child).lock_fee_from_faucet();
        let rb = emit(rb, &placement.pre, u).yield_to_child("c", ());
        let root_manifest = emit(rb, &placement.post, u).build();
        builder.finish_with_root_intent(root_manifest, sig_proofs(u, &placement.sig_keys))
    };
    let executable = match tx.into_executable(w.ledger.sim.transaction_validator()) {
        Ok(x) => x,
        Err(_) => {
            shard.count("c08:not_executed");
            return;
        }
    };
    let description = format!("V2 {label}: rule={rule:?} parent sigs={:?} pre={:?} post={:?}", placement.sig_keys, placement.pre, placement.post);
    let r = w.ledger.exec_executable(shard, label, executable, ExecutionConfig::for_test_transaction(), description, false);
    let Some(receipt) = &r.receipt else {
        shard.count("c08:not_executed");
        return;
    };
    let obs = observe(receipt);
    let info = CaseInfo { vehicle: label, steps: &steps, zone: &zone, placement: &placement, coords, assertion: true, probe: format!("verify_parent nested={nested}") };
    judge(shard, &w.u, &info, &exp, &obs);
}

/// One world: a fresh ledger, the badge universe, `cases` entities each probed several times.
fn run_world(shard: &mut Shard, seed: u64, shard_index: usize, world_no: u64, probes_cap: &mut u64) {
    let Some(mut w) = build_world(shard) else {
        shard.count("c08:world_setup_failed");
        return;
    };
    shard.count("c08:worlds");
    for case in 0..CASES_PER_WORLD {
        if *probes_cap == 0 || shard.time_up() {
            break;
        }
        // every case has its own stream: (seed, shard, world, case) replays it on the same world prefix
        let mut rng = Rng::from_parts(seed, PHASE ^ ((shard_index as u64) << 20) ^ (world_no << 32), case);
        let rng = &mut rng;
        if rng.chance(1, 6) {
            for p in 0..rng.range(2, 6) {
                if *probes_cap == 0 {
                    break;
                }
                *probes_cap -= 1;
                let coords = json!({"shard": shard_index, "world": world_no, "case": case, "probe": p});
                run_verify_parent(&mut w, shard, rng, coords);
            }
            continue;
        }
        let Some(mut e) = create_entity(&mut w, shard, rng) else { continue };
        shard.count("c08:entities");
        shard.count(match e.kind {
            EKind::Fungible => "entity:fungible-resource",
            EKind::NonFungible => "entity:non-fungible-resource",
            EKind::Account => "entity:account",
        });
        for p in 0..rng.range(6, 16) {
            if *probes_cap == 0 {
                break;
            }
            *probes_cap -= 1;
            let coords = json!({"shard": shard_index, "world": world_no, "case": case, "probe": p});
            run_entity_probe(&mut w, shard, rng, &mut e, coords);
        }
    }
    if world_no % 4 == 0 {
        rv_ledger::walkers::walk_all(shard, &w.ledger, "end of C08 world");
    }
}

fn spec(tier: Tier) -> Spec {
    let q = |a: u64, b: u64| tier.pick(a, b);
    let mut s = Spec::new(
        "C08",
        "exploration",
        "random access-rule trees (<= depth 8, <= 64 nodes) installed as owner roles / explicit roles of resources and accounts or asserted by VERIFY_PARENT, probed by protected calls under random and witness-steered proof placements built in the manifest; a case is non-trivial when it was judged (authorization verdict observed and predicted); distinct = distinct (vehicle, verdict, combinator set, depth, #proofs, #signatures, #named proofs)",
    )
    .assume("reference semantics: require(resource) = any proof of it in the caller's auth zone; require(id) = a proof containing the id or that virtual badge; require_amount(n,r) = ONE proof of r with amount >= n (largest single proof, not the sum); count-of(k,list) = at least k list entries satisfied; all-of/any-of over lists and over composite children (empty all = true, empty any = false); missing/None role entry = owner rule; owner update = owner rule iff updater is Owner")
    .assume("visible to a callee: the proofs in the calling intent's auth zone, its signature badges unless dropped, simulated resources, global_caller(TransactionProcessor), package_of_direct_caller(caller package); named proofs and proofs created after the call are not visible")
    .assume("resource-level requirements against virtual badge resources are documented ambiguously: cases whose prediction depends on that reading are counted but not judged")
    .assume("a failure that is not an authorization error (or assertion failure for VERIFY_PARENT) is not judged")
    .floor("c08:judged", q(4000, 150_000))
    .floor("c08:agree_authorized", q(1200, 45_000))
    .floor("c08:agree_unauthorized", q(1200, 45_000))
    .floor("c08:both_verdicts_at_least_30_percent", 1)
    .floor("c08:judged_rules_at_depth_limit", q(30, 1000))
    .floor("c08:judged_rules_with_64_nodes", q(10, 300))
    .floor("c08:cases_with_named_proofs_not_in_zone", q(200, 5000))
    .floor("c08:cases_with_late_proofs_after_call", q(200, 5000))
    .floor("c08:cases_with_dropped_signature_proofs", q(50, 1500))
    .floor("c08:cases_with_simulated_resources", q(50, 1500))
    .floor("source:explicit-role", q(500, 10_000))
    .floor("source:owner-role", q(200, 5000))
    .floor("source:owner-fallback(entry-none)", q(100, 3000))
    .floor("source:owner-fallback(no-entry)", q(50, 1500))
    .floor("source:owner-updater:owner", q(50, 1500))
    .floor("source:explicit-assertion", q(200, 5000))
    .explain("both directions are verdict-bearing: 'satisfied-rule-denied:<vehicle>' and 'unsatisfied-rule-authorized:<vehicle>'");
    for b in [
        "amount-of:largest-proof-equals-the-amount",
        "amount-of:sum-of-proofs-reaches-the-amount-but-no-single-proof",
        "amount-of:proofs-present-but-too-small",
        "count-of:exactly-k-satisfied",
        "count-of:k-minus-one-satisfied",
        "any-of:two-entries-exactly-one-satisfied",
        "all-of:all-but-one-satisfied",
        "composite-any-of:exactly-one-child-satisfied",
        "composite-all-of:all-but-one-child-satisfied",
        "atom-satisfied-only-by-a-later-proof-of-the-zone",
    ] {
        s = s.floor(&format!("boundary:{b}"), q(40, 1200));
    }
    for k in ["require:fungible-resource", "require:non-fungible-resource", "require:non-fungible-id", "require:signature", "require:global-caller", "require:package-of-direct-caller", "amount-of:fungible", "amount-of:non-fungible", "count-of", "all-of", "any-of", "composite-any-of", "composite-all-of", "allow-all", "deny-all"] {
        s = s.floor(&format!("kind:{k}"), q(100, 3000));
    }
    for v in [
        "resource:mint+account-deposit(minter,depositor)",
        "resource:mint+burn(minter,burner)",
        "vault:take+put-via-account(withdrawer,depositor)",
        "resource:mint+vault:put(minter,depositor)",
        "vault:freeze+unfreeze(freezer)",
        "vault:recall+put(recaller,depositor)",
        "nf-resource:mint+vault:put(minter,depositor)",
        "nf-resource:update_data(non_fungible_data_updater)",
        "role-assignment:set_role(updater-role)",
        "role-assignment:set_owner_role(owner-updater)",
        "metadata:set(metadata_setter)",
        "account:withdraw(owner)",
        "account:set_default_deposit_rule(owner)",
        "account:create_proof_of_amount(owner)",
        "account:lock_fee(owner)",
        "account:withdraw+deposit(owner,owner)",
        "intent:verify_parent(explicit-assertion)",
        "intent:verify_parent(nested,explicit-assertion)",
    ] {
        s = s.floor(&format!("vehicle:{v}:authorized"), q(15, 400));
        s = s.floor(&format!("vehicle:{v}:unauthorized"), q(15, 400));
    }
    s
}

pub fn run(args: &Args) -> i32 {
    let mut report = Report::new(args, spec(args.tier));
    if let Some(path) = &args.replay {
        return replay(args, path, report);
    }
    let per_shard = scaled(args, args.tier.pick(12_000, 400_000)) / args.threads as u64 + 1;
    let budget = Duration::from_secs(budget_secs(args.tier, 50, 840));
    let seed = args.seed;
    report.run_shards(PHASE, args.threads, budget, |i, _rng, shard| {
        let mut cap = per_shard;
        let mut world_no = 0;
        while cap > 0 && !shard.time_up() {
            run_world(shard, seed, i, world_no, &mut cap);
            world_no += 1;
        }
    });
    let ea = report.counter("c08:expected_authorized");
    let eu = report.counter("c08:expected_unauthorized");
    let total = (ea + eu).max(1);
    let ok = ea * 100 / total >= 30 && eu * 100 / total >= 30;
    report.counters.insert("c08:both_verdicts_at_least_30_percent".into(), ok as u64);
    report.extra.insert("verdict_split_percent".into(), json!({"expected_authorized": ea * 100 / total, "expected_unauthorized": eu * 100 / total}));
    report.finish()
}

fn replay(args: &Args, path: &std::path::Path, report: Report) -> i32 {
    let doc: serde_json::Value = serde_json::from_str(&std::fs::read_to_string(path).expect("replay file")).expect("json");
    let c = &doc["detail"]["replay"];
    let (Some(shard_index), Some(world_no), Some(case), Some(probe)) = (c["shard"].as_u64(), c["world"].as_u64(), c["case"].as_u64(), c["probe"].as_u64()) else {
        println!("replay file does not carry C08 coordinates: {c}");
        return 2;
    };
    let seed = doc["seed"].as_i64().map(|s| s as u64).unwrap_or(args.seed);
    let mut shard = Shard::new(shard_index as usize, "C08", args.tier, std::time::Instant::now() + Duration::from_secs(600));
    let mut cap = u64::MAX;
    run_world(&mut shard, seed, shard_index as usize, world_no, &mut cap);
    let hits: Vec<&Violation> = shard.violations.iter().filter(|v| v.prop == "C08" && v.detail["replay"]["case"].as_u64() == Some(case) && v.detail["replay"]["probe"].as_u64() == Some(probe)).collect();
    let in_world = shard.violations.iter().filter(|v| v.prop == "C08").count();
    println!("replayed world {world_no} of shard {shard_index} (seed {seed}): {in_world} C08 violation(s) in the world, {} at case {case} probe {probe}", hits.len());
    for v in &hits {
        println!("STILL-VIOLATES {} {}", v.signature, serde_json::to_string_pretty(&v.detail).unwrap());
    }
    drop(report);
    if hits.is_empty() {
        0
    } else {
        1
    }
}

/// calibration helper: which nesting depths survive the manifest channels (prints a table)
pub fn depth_probe(args: &Args) -> i32 {
    let mut shard = Shard::new(0, "C08", args.tier, std::time::Instant::now() + Duration::from_secs(600));
    let mut w = build_world(&mut shard).expect("world");
    let u = &w.u;
    let leafs: Vec<(&str, BasicRequirement)> = vec![
        ("amount-of", BasicRequirement::AmountOf(dec!(1), u.f[0].addr)),
        ("require-resource", BasicRequirement::Require(ResourceOrNonFungible::Resource(u.f[0].addr))),
        ("require-id", BasicRequirement::Require(ResourceOrNonFungible::NonFungible(u.keys[0].clone()))),
        ("count-of-ids", BasicRequirement::CountOf(1, vec![ResourceOrNonFungible::NonFungible(u.keys[0].clone())])),
    ];
    let a0 = u.accounts[0];
    for (name, leaf) in leafs {
        for d in 0..=9usize {
            let mut c = CompositeRequirement::BasicRequirement(leaf.clone());
            for _ in 0..d {
                c = CompositeRequirement::AnyOf(vec![c]);
            }
            let rule = AccessRule::Protected(c);
            let fit: Vec<usize> = (0..14).filter(|wr| fits(&rule, *wr)).collect();
            let max_wrap = fit.last().cloned();
            // actual channels
            let set = rv_common::catch_mut(|| {
                let m = ManifestBuilder::new().lock_fee_from_faucet().set_owner_role(a0, rule.clone()).build();
                w.ledger.exec(&mut shard, "probe", m, vec![]).receipt.map(|r| outcome_class(&r))
            });
            let create_owner = rv_common::catch_mut(|| {
                let m = ManifestBuilder::new().lock_fee_from_faucet().create_fungible_resource(OwnerRole::Fixed(rule.clone()), true, 0, FungibleResourceRoles::default(), metadata!(), None).build();
                w.ledger.exec(&mut shard, "probe", m, vec![]).receipt.map(|r| outcome_class(&r))
            });
            let create_role = rv_common::catch_mut(|| {
                let mut rr = FungibleResourceRoles::default();
                rr.mint_roles = Some(MintRoles { minter: Some(rule.clone()), minter_updater: None });
                let m = ManifestBuilder::new().lock_fee_from_faucet().create_fungible_resource(OwnerRole::None, true, 0, rr, metadata!(), None).build();
                w.ledger.exec(&mut shard, "probe", m, vec![]).receipt.map(|r| outcome_class(&r))
            });
            let acct = rv_common::catch_mut(|| {
                let m = ManifestBuilder::new().lock_fee_from_faucet().new_account_advanced(OwnerRole::Fixed(rule.clone()), None).build();
                w.ledger.exec(&mut shard, "probe", m, vec![]).receipt.map(|r| outcome_class(&r))
            });
            let f = |r: Result<Option<String>, PanicInfo>| match r { Ok(Some(s)) => s, Ok(None) => "not-convertible".into(), Err(p) => format!("builder-panic:{}", p.message.chars().take(40).collect::<String>()) };
            println!("leaf={name} nest={d} max_wrap_that_fits={max_wrap:?} set_owner_role={} create(owner)={} create(role)={} new_account={}", f(set), f(create_owner), f(create_role), f(acct));
        }
    }
    0
}
