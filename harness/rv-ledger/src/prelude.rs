//! One import for everything the ledger monitors need.
pub use radix_engine::system::checkers::*;
pub use radix_engine::system::system_db_reader::*;
pub use radix_engine::system::system_substate_schemas::*;
pub use radix_engine::system::type_info::*;
pub use radix_transactions::manifest::*;
pub use radix_transactions::prelude::*;
pub use scrypto_test::prelude::*;
pub use radix_engine::blueprints::account::*;
