//! Base ledger workload ("W-LEDGER" default mix): a small world of accounts and resources and a
//! seeded stream of mixed transactions (mint / burn / transfer / recall / freeze / NF data
//! updates / failing transactions / fee-lock variants / round and epoch changes) with
//! adversarial amounts. Every transaction goes through `Ledger` and hence all global monitors.
use crate::ledger::*;
use rv_common::*;
use scrypto::prelude::NonFungibleData;
use crate::prelude::*;

#[derive(ScryptoSbor, ManifestSbor, NonFungibleData, Clone, Debug)]
pub struct Nfd {
    #[mutable]
    pub counter: u64,
    pub fixed: String,
    #[mutable]
    pub note: String,
}

#[derive(Clone)]
pub struct Actor {
    pub pk: Secp256k1PublicKey,
    pub account: ComponentAddress,
}
impl Actor {
    pub fn proof(&self) -> NonFungibleGlobalId {
        NonFungibleGlobalId::from_public_key(&self.pk)
    }
}

#[derive(Clone)]
pub struct Fungible {
    pub address: ResourceAddress,
    pub divisibility: u8,
    pub tracks_supply: bool,
}
#[derive(Clone)]
pub struct NonFungible {
    pub address: ResourceAddress,
    pub id_type: NonFungibleIdType,
    /// ids this world has tried to mint so far (successfully or not), used for re-mint attempts
    pub known_ids: Vec<NonFungibleLocalId>,
}

pub struct World {
    pub ledger: Ledger,
    pub actors: Vec<Actor>,
    pub fungibles: Vec<Fungible>,
    pub nfs: Vec<NonFungible>,
    pub next_int_id: u64,
    pub round: u64,
    pub time_ms: i64,
}

pub fn all_allowed_fungible_roles() -> FungibleResourceRoles {
    FungibleResourceRoles {
        mint_roles: mint_roles! { minter => rule!(allow_all); minter_updater => rule!(allow_all); },
        burn_roles: burn_roles! { burner => rule!(allow_all); burner_updater => rule!(allow_all); },
        freeze_roles: freeze_roles! { freezer => rule!(allow_all); freezer_updater => rule!(allow_all); },
        recall_roles: recall_roles! { recaller => rule!(allow_all); recaller_updater => rule!(allow_all); },
        withdraw_roles: withdraw_roles! { withdrawer => rule!(allow_all); withdrawer_updater => rule!(allow_all); },
        deposit_roles: deposit_roles! { depositor => rule!(allow_all); depositor_updater => rule!(allow_all); },
    }
}

pub fn all_allowed_non_fungible_roles() -> NonFungibleResourceRoles {
    NonFungibleResourceRoles {
        mint_roles: mint_roles! { minter => rule!(allow_all); minter_updater => rule!(allow_all); },
        burn_roles: burn_roles! { burner => rule!(allow_all); burner_updater => rule!(allow_all); },
        freeze_roles: freeze_roles! { freezer => rule!(allow_all); freezer_updater => rule!(allow_all); },
        recall_roles: recall_roles! { recaller => rule!(allow_all); recaller_updater => rule!(allow_all); },
        withdraw_roles: withdraw_roles! { withdrawer => rule!(allow_all); withdrawer_updater => rule!(allow_all); },
        deposit_roles: deposit_roles! { depositor => rule!(allow_all); depositor_updater => rule!(allow_all); },
        non_fungible_data_update_roles: non_fungible_data_update_roles! { non_fungible_data_updater => rule!(allow_all); non_fungible_data_updater_updater => rule!(allow_all); },
    }
}

/// Adversarial amount distribution for a resource of the given divisibility.
pub fn amount(rng: &mut Rng, divisibility: u8, around: Option<Decimal>) -> Decimal {
    let unit = Decimal::from_attos(I192::from(10u128.pow(18 - divisibility as u32)));
    match rng.below(12) {
        0 => Decimal::ZERO,
        1 => unit,
        2 => Decimal::ONE_ATTO,
        3 => Decimal::MAX,
        4 => Decimal::from(rng.below(1000)) ,
        5 | 6 => {
            // a multiple of the unit
            unit.checked_mul(Decimal::from(rng.below(100_000))).unwrap_or(unit)
        }
        7 => {
            // violates divisibility (unless divisibility is 18)
            Decimal::from_attos(I192::from(rng.u64() as u128 + 1))
        }
        8 => Decimal::from(-(rng.below(5) as i64) - 1),
        9 | 10 => match around {
            // exactly the balance, or one unit off
            Some(b) => match rng.below(3) {
                0 => b,
                1 => b.checked_add(unit).unwrap_or(b),
                _ => b.checked_sub(unit).unwrap_or(b),
            },
            None => Decimal::from(rng.below(50)),
        },
        _ => Decimal::from(rng.below(20) + 1),
    }
}

impl World {
    pub fn new(shard: &mut Shard, rng: &mut Rng, n_actors: usize) -> World {
        let ledger = Ledger::new();
        Self::from_ledger(shard, rng, ledger, n_actors)
    }

    pub fn from_ledger(shard: &mut Shard, rng: &mut Rng, mut ledger: Ledger, n_actors: usize) -> World {
        let mut actors = vec![];
        for _ in 0..n_actors {
            let (pk, _sk, account) = ledger.sim.new_allocated_account();
            actors.push(Actor { pk, account });
        }
        let clock = crate::decode::consensus_clock(ledger.db());
        let mut w = World {
            ledger,
            actors,
            fungibles: vec![],
            nfs: vec![],
            next_int_id: 1,
            round: clock.as_ref().map(|c| c.round).unwrap_or(0),
            time_ms: clock.as_ref().map(|c| c.milli).unwrap_or(0),
        };
        for (div, track) in [(18u8, true), (0, true), (2, false)] {
            w.create_fungible(shard, rng, div, track);
        }
        for t in [NonFungibleIdType::Integer, NonFungibleIdType::String, NonFungibleIdType::Bytes, NonFungibleIdType::RUID] {
            w.create_non_fungible(shard, rng, t);
        }
        w
    }

    pub fn actor(&self, rng: &mut Rng) -> Actor {
        rng.pick(&self.actors).clone()
    }

    pub fn create_fungible(&mut self, shard: &mut Shard, rng: &mut Rng, divisibility: u8, track: bool) {
        let a = self.actor(rng);
        let supply = if rng.bool() { Some(Decimal::from(rng.below(1_000_000) + 1)) } else { None };
        let m = ManifestBuilder::new()
            .lock_fee_from_faucet()
            .create_fungible_resource(OwnerRole::None, track, divisibility, all_allowed_fungible_roles(), metadata!(), supply)
            .try_deposit_entire_worktop_or_abort(a.account, None)
            .build();
        let r = self.ledger.exec(shard, "create_fungible", m, vec![]);
        if r.is_success() {
            let address = r.receipt().expect_commit(true).new_resource_addresses()[0];
            self.fungibles.push(Fungible { address, divisibility, tracks_supply: track });
        }
    }

    pub fn fresh_id(&mut self, rng: &mut Rng, t: NonFungibleIdType) -> NonFungibleLocalId {
        self.next_int_id += 1;
        match t {
            NonFungibleIdType::Integer => NonFungibleLocalId::integer(if rng.chance(1, 20) { u64::MAX - self.next_int_id } else { self.next_int_id }),
            NonFungibleIdType::String => NonFungibleLocalId::string(format!("id_{}", self.next_int_id)).unwrap(),
            NonFungibleIdType::Bytes => NonFungibleLocalId::bytes(self.next_int_id.to_be_bytes().to_vec()).unwrap(),
            NonFungibleIdType::RUID => {
                let mut b = [0u8; 32];
                rng.fill(&mut b);
                NonFungibleLocalId::ruid(b)
            }
        }
    }

    pub fn create_non_fungible(&mut self, shard: &mut Shard, rng: &mut Rng, id_type: NonFungibleIdType) {
        let a = self.actor(rng);
        let track = rng.bool();
        let mut ids = vec![];
        let m = if id_type == NonFungibleIdType::RUID {
            ManifestBuilder::new()
                .lock_fee_from_faucet()
                .create_ruid_non_fungible_resource(OwnerRole::None, track, metadata!(), all_allowed_non_fungible_roles(), Some(vec![Nfd { counter: 0, fixed: "f".into(), note: "n".into() }, Nfd { counter: 1, fixed: "g".into(), note: "m".into() }]))
                .try_deposit_entire_worktop_or_abort(a.account, None)
                .build()
        } else {
            for _ in 0..rng.range(0, 4) {
                ids.push(self.fresh_id(rng, id_type));
            }
            let entries: Vec<(NonFungibleLocalId, Nfd)> = ids.iter().map(|i| (i.clone(), Nfd { counter: 0, fixed: "f".into(), note: String::new() })).collect();
            ManifestBuilder::new()
                .lock_fee_from_faucet()
                .create_non_fungible_resource(OwnerRole::None, id_type, track, all_allowed_non_fungible_roles(), metadata!(), Some(entries))
                .try_deposit_entire_worktop_or_abort(a.account, None)
                .build()
        };
        let r = self.ledger.exec(shard, "create_non_fungible", m, vec![]);
        if r.is_success() {
            let address = r.receipt().expect_commit(true).new_resource_addresses()[0];
            self.nfs.push(NonFungible { address, id_type, known_ids: ids });
        }
    }

    fn balance(&self, account: ComponentAddress, resource: ResourceAddress) -> Decimal {
        // read through the raw decoders (first vault of that resource under the account)
        let db = self.ledger.db();
        let reader = SystemDatabaseReader::new(db);
        let vault: Option<Own> = reader
            .read_object_collection_entry::<_, VersionedAccountResourceVault>(
                account.as_node_id(),
                ModuleId::Main,
                ObjectCollectionKey::KeyValue(AccountCollection::ResourceVaultKeyValue.collection_index(), &resource),
            )
            .ok()
            .flatten()
            .map(|v| v.fully_update_and_into_latest_version().0);
        vault.and_then(|v| crate::decode::vault_amount(db, v.as_node_id())).unwrap_or(Decimal::ZERO)
    }

    fn held_ids(&self, account: ComponentAddress, resource: ResourceAddress) -> Vec<NonFungibleLocalId> {
        let db = self.ledger.db();
        let reader = SystemDatabaseReader::new(db);
        let vault: Option<Own> = reader
            .read_object_collection_entry::<_, VersionedAccountResourceVault>(
                account.as_node_id(),
                ModuleId::Main,
                ObjectCollectionKey::KeyValue(AccountCollection::ResourceVaultKeyValue.collection_index(), &resource),
            )
            .ok()
            .flatten()
            .map(|v| v.fully_update_and_into_latest_version().0);
        vault.map(|v| crate::decode::non_fungible_vault_ids(db, v.as_node_id())).unwrap_or_default()
    }

    /// Fee-lock prefix variants: faucet, own account, contingent + own, several locks.
    fn fee_prefix(&self, rng: &mut Rng, a: &Actor) -> (ManifestBuilder, Vec<NonFungibleGlobalId>) {
        let b = ManifestBuilder::new();
        match rng.below(6) {
            0 => (b.lock_fee(a.account, dec!(50)), vec![a.proof()]),
            1 => (b.lock_contingent_fee(a.account, dec!(20)).lock_fee_from_faucet(), vec![a.proof()]),
            2 => (b.lock_fee(a.account, dec!(3)).lock_fee_from_faucet(), vec![a.proof()]),
            3 => (b.lock_fee(a.account, Decimal::ONE_ATTO).lock_fee_from_faucet().lock_fee(a.account, dec!(1)), vec![a.proof()]),
            _ => (b.lock_fee_from_faucet(), vec![a.proof()]),
        }
    }

    /// One random transaction of the default mix. Returns the label used.
    pub fn step(&mut self, shard: &mut Shard, rng: &mut Rng) -> &'static str {
        match self.gen_tx(shard, rng) {
            Ok((label, manifest, proofs)) => {
                self.ledger.exec(shard, label, manifest, proofs);
                label
            }
            Err(label) => label,
        }
    }

    /// Generate (without executing) one random user transaction of the default mix; the two
    /// kinds that are not plain user manifests (resource creation bookkeeping, consensus rounds)
    /// are executed right away and reported as `Err(label)`.
    pub fn gen_tx(&mut self, shard: &mut Shard, rng: &mut Rng) -> Result<(&'static str, TransactionManifestV1, Vec<NonFungibleGlobalId>), &'static str> {
        let a = self.actor(rng);
        let b = self.actor(rng);
        let (mb, mut proofs) = self.fee_prefix(rng, &a);
        if rng.chance(1, 3) {
            proofs.push(b.proof());
        }
        let choice = rng.below(29);
        let (label, manifest): (&'static str, TransactionManifestV1) = match choice {
            0 | 1 => {
                let f = rng.pick(&self.fungibles).clone();
                let amt = amount(rng, f.divisibility, None);
                ("mint_fungible", mb.mint_fungible(f.address, amt).deposit_entire_worktop(b.account).build())
            }
            2 | 3 => {
                let f = rng.pick(&self.fungibles).clone();
                let bal = self.balance(a.account, f.address);
                let amt = amount(rng, f.divisibility, Some(bal));
                ("transfer_fungible", mb.withdraw_from_account(a.account, f.address, amt).try_deposit_entire_worktop_or_abort(b.account, None).build())
            }
            4 => {
                let f = rng.pick(&self.fungibles).clone();
                let bal = self.balance(a.account, f.address);
                let amt = amount(rng, f.divisibility, Some(bal));
                ("burn_fungible", mb.withdraw_from_account(a.account, f.address, amt).burn_all_from_worktop(f.address).build())
            }
            5 => {
                let f = rng.pick(&self.fungibles).clone();
                let bal = self.balance(a.account, f.address);
                let amt = amount(rng, f.divisibility, Some(bal));
                ("burn_in_account", mb.burn_in_account(a.account, f.address, amt).build())
            }
            6 | 7 => {
                let i = rng.usize_below(self.nfs.len());
                let t = self.nfs[i].id_type;
                let address = self.nfs[i].address;
                if t == NonFungibleIdType::RUID {
                    let n = rng.range(1, 3);
                    let entries: Vec<Nfd> = (0..n).map(|k| Nfd { counter: k, fixed: "r".into(), note: String::new() }).collect();
                    ("mint_ruid", mb.mint_ruid_non_fungible(address, entries).deposit_entire_worktop(b.account).build())
                } else {
                    let mut entries = vec![];
                    for _ in 0..rng.range(1, 3) {
                        // sometimes try to re-mint an id seen before (possibly burned since)
                        let id = if !self.nfs[i].known_ids.is_empty() && rng.chance(1, 4) { rng.pick(&self.nfs[i].known_ids).clone() } else { self.fresh_id(rng, t) };
                        entries.push((id, Nfd { counter: 7, fixed: "m".into(), note: "x".into() }));
                    }
                    // sometimes an id of the wrong kind
                    if rng.chance(1, 10) {
                        let wrong = self.fresh_id(rng, if t == NonFungibleIdType::Integer { NonFungibleIdType::String } else { NonFungibleIdType::Integer });
                        entries.push((wrong, Nfd { counter: 0, fixed: "w".into(), note: String::new() }));
                    }
                    for (id, _) in &entries {
                        if !self.nfs[i].known_ids.contains(id) {
                            self.nfs[i].known_ids.push(id.clone());
                        }
                    }
                    ("mint_non_fungible", mb.mint_non_fungible(address, entries).deposit_entire_worktop(b.account).build())
                }
            }
            8 | 9 => {
                let nf = rng.pick(&self.nfs).clone();
                let held = self.held_ids(a.account, nf.address);
                let mut ids: IndexSet<NonFungibleLocalId> = IndexSet::new();
                for id in held.iter().take(rng.range(0, 3) as usize) {
                    ids.insert(id.clone());
                }
                if rng.chance(1, 8) && !nf.known_ids.is_empty() {
                    ids.insert(rng.pick(&nf.known_ids).clone());
                }
                ("transfer_non_fungibles", mb.withdraw_non_fungibles_from_account(a.account, nf.address, ids).try_deposit_entire_worktop_or_abort(b.account, None).build())
            }
            10 => {
                let nf = rng.pick(&self.nfs).clone();
                let held = self.held_ids(a.account, nf.address);
                let ids: IndexSet<NonFungibleLocalId> = held.into_iter().take(rng.range(1, 2) as usize).collect();
                ("burn_non_fungibles", mb.burn_non_fungibles_in_account(a.account, nf.address, ids).build())
            }
            11 => {
                let nf = rng.pick(&self.nfs).clone();
                let id = if nf.known_ids.is_empty() { NonFungibleLocalId::integer(1) } else { rng.pick(&nf.known_ids).clone() };
                let field = *rng.pick(&["counter", "note", "fixed", "nonexistent"]);
                let m = if field == "counter" {
                    mb.update_non_fungible_data(nf.address, id, field, rng.u64()).build()
                } else {
                    mb.update_non_fungible_data(nf.address, id, field, format!("v{}", rng.below(100))).build()
                };
                ("update_non_fungible_data", m)
            }
            12 => {
                // recall from someone's vault (direct access) - needs the vault id
                let f = rng.pick(&self.fungibles).clone();
                let vaults = self.ledger.sim.get_component_vaults(b.account, f.address);
                match vaults.first() {
                    Some(v) => {
                        let bal = crate::decode::vault_amount(self.ledger.db(), v).unwrap_or(Decimal::ZERO);
                        let amt = amount(rng, f.divisibility, Some(bal));
                        ("recall", mb.recall(InternalAddress::new_or_panic(v.0), amt).deposit_entire_worktop(a.account).build())
                    }
                    None => ("noop", mb.build()),
                }
            }
            13 => {
                let f = rng.pick(&self.fungibles).clone();
                let vaults = self.ledger.sim.get_component_vaults(b.account, f.address);
                match vaults.first() {
                    Some(v) => {
                        let addr = InternalAddress::new_or_panic(v.0);
                        let m = match rng.below(4) {
                            0 => mb.freeze_withdraw(addr),
                            1 => mb.unfreeze_withdraw(addr),
                            2 => mb.freeze_deposit(addr),
                            _ => mb.unfreeze_deposit(addr),
                        };
                        ("freeze_or_unfreeze", m.build())
                    }
                    None => ("noop", mb.build()),
                }
            }
            14 => {
                // deliberately failing: assertion after moving resources around
                let f = rng.pick(&self.fungibles).clone();
                let amt = amount(rng, f.divisibility, Some(self.balance(a.account, f.address)));
                ("failing_assertion", mb.withdraw_from_account(a.account, f.address, amt).mint_fungible(f.address, dec!(1)).assert_worktop_contains(f.address, Decimal::MAX).deposit_entire_worktop(b.account).build())
            }
            15 => {
                // leaves resources on the worktop
                let f = rng.pick(&self.fungibles).clone();
                ("dangling_worktop", mb.mint_fungible(f.address, dec!(5)).build())
            }
            16 => ("free_xrd", mb.get_free_xrd_from_faucet().try_deposit_entire_worktop_or_abort(b.account, None).build()),
            17 => {
                let amt = amount(rng, 18, Some(self.balance(a.account, XRD)));
                ("transfer_xrd", mb.withdraw_from_account(a.account, XRD, amt).try_deposit_entire_worktop_or_abort(b.account, None).build())
            }
            18 => {
                // metadata set / lock on an account (owner = the account's key)
                let key = format!("k{}", rng.below(4));
                let m = match rng.below(3) {
                    0 => mb.set_metadata(a.account, key, MetadataValue::String(format!("v{}", rng.below(10)))),
                    1 => mb.lock_metadata(a.account, key),
                    _ => mb.set_metadata(a.account, key, MetadataValue::U64(rng.u64())),
                };
                ("metadata", m.build())
            }
            19 => {
                // mixed batch: several resources through one worktop
                let f = rng.pick(&self.fungibles).clone();
                let g = rng.pick(&self.fungibles).clone();
                ("multi_resource_batch", mb.mint_fungible(f.address, amount(rng, f.divisibility, None)).mint_fungible(g.address, amount(rng, g.divisibility, None)).withdraw_from_account(a.account, XRD, dec!(1)).try_deposit_entire_worktop_or_abort(b.account, None).build())
            }
            22 | 23 | 24 => {
                // overlapping proofs of different amounts on one vault (dropped by the auth zone in
                // creation order at the end), with movements on the same vault while they are alive
                let f = rng.pick(&self.fungibles).clone();
                let bal = self.balance(a.account, f.address);
                let unit = Decimal::from_attos(I192::from(10u128.pow(18 - f.divisibility as u32)));
                let p1 = amount(rng, f.divisibility, Some(bal));
                let p2 = match rng.below(3) {
                    0 => p1,
                    1 => p1.checked_add(unit.checked_mul(Decimal::from(rng.below(5) + 1)).unwrap_or(unit)).unwrap_or(p1),
                    _ => amount(rng, f.divisibility, Some(bal)),
                };
                let mut m = mb.create_proof_from_account_of_amount(a.account, f.address, p1).create_proof_from_account_of_amount(a.account, f.address, p2);
                if rng.bool() {
                    m = m.create_proof_from_account_of_amount(a.account, f.address, amount(rng, f.divisibility, Some(bal)));
                }
                m = match rng.below(4) {
                    0 => m.withdraw_from_account(a.account, f.address, amount(rng, f.divisibility, Some(bal))).try_deposit_entire_worktop_or_abort(b.account, None),
                    1 => m.pop_from_auth_zone("p").drop_proof("p"),
                    2 => m.mint_fungible(f.address, dec!(3)).try_deposit_entire_worktop_or_abort(a.account, None),
                    _ => m,
                };
                ("overlapping_proofs", m.build())
            }
            25 => {
                let nf = rng.pick(&self.nfs).clone();
                let held = self.held_ids(a.account, nf.address);
                let ids1: IndexSet<NonFungibleLocalId> = held.iter().take(rng.range(1, 2) as usize).cloned().collect();
                let ids2: IndexSet<NonFungibleLocalId> = held.iter().skip(rng.below(2) as usize).take(rng.range(1, 3) as usize).cloned().collect();
                if ids1.is_empty() || ids2.is_empty() {
                    ("noop", mb.build())
                } else {
                    let m = mb
                        .create_proof_from_account_of_non_fungibles(a.account, nf.address, ids1)
                        .create_proof_from_account_of_non_fungibles(a.account, nf.address, ids2.clone())
                        .withdraw_non_fungibles_from_account(a.account, nf.address, ids2.into_iter().take(1).collect::<IndexSet<_>>())
                        .try_deposit_entire_worktop_or_abort(b.account, None);
                    ("overlapping_nf_proofs", m.build())
                }
            }
            26 | 27 => {
                // fee locks taken late: the XRD vault they lock from has already been changed by this
                // transaction (withdrawn from / deposited into), then usually a failure
                let amt = amount(rng, 18, Some(self.balance(a.account, XRD)));
                let target = if rng.bool() { a.account } else { b.account };
                if target == b.account {
                    proofs.push(b.proof());
                }
                let mut m = mb.withdraw_from_account(a.account, XRD, amt).try_deposit_entire_worktop_or_abort(b.account, None);
                m = if rng.bool() { m.lock_contingent_fee(target, dec!(2)) } else { m.lock_fee(target, dec!(2)) };
                if rng.chance(1, 3) {
                    // ... and on the other side of the transfer as well
                    let other = if target == a.account { b.account } else { a.account };
                    if other == b.account {
                        proofs.push(b.proof());
                    }
                    m = if rng.bool() { m.lock_contingent_fee(other, dec!(1)) } else { m.lock_fee(other, dec!(1)) };
                }
                if rng.chance(2, 3) {
                    m = m.assert_worktop_contains(XRD, Decimal::MAX);
                }
                ("late_fee_lock", m.build())
            }
            28 => {
                // role-assignment calls with edge-case role keys (empty, reserved prefix, very long, unknown)
                let key: String = match rng.below(7) {
                    0 => String::new(),
                    1 => "_".into(),
                    2 => "_owner_".into(),
                    3 => "_self_".into(),
                    4 => "x".repeat(rng.range(1, 300) as usize),
                    5 => "é".into(),
                    _ => (*rng.pick(&["withdrawer", "minter", "depositor", "metadata_setter", "securify"])).to_string(),
                };
                let module = *rng.pick(&[ModuleId::Main, ModuleId::Metadata, ModuleId::RoleAssignment, ModuleId::Royalty]);
                let target: GlobalAddress = if rng.bool() { a.account.into() } else { rng.pick(&self.fungibles).address.into() };
                let m = if rng.bool() { mb.set_role(target, module, RoleKey::new(key), rule!(allow_all)) } else { mb.get_role(target, module, RoleKey::new(key)) };
                ("role_key_edge", m.build())
            }
            20 => {
                let div = *rng.pick(&[0u8, 1, 6, 17, 18]);
                let track = rng.bool();
                self.create_fungible(shard, rng, div, track);
                return Err("create_fungible");
            }
            _ => {
                // consensus: next round, sometimes with a time / round jump
                self.round += if rng.chance(1, 5) { rng.range(2, 6) } else { 1 };
                self.time_ms += match rng.below(4) {
                    0 => 0,
                    1 => 61_000,
                    _ => rng.range(1, 5_000) as i64,
                };
                let (round, t) = (self.round, self.time_ms);
                let gaps = vec![];
                let r = self.ledger.next_round(shard, round, t, gaps, 0);
                if let Some(rc) = &r.receipt {
                    if rc.is_commit_success() {
                        // an epoch change resets the round
                        if let Some(c) = crate::decode::consensus_clock(self.ledger.db()) {
                            self.round = c.round;
                        }
                    }
                }
                return Err("next_round");
            }
        };
        Ok((label, manifest, proofs))
    }
}
