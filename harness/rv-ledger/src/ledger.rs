//! `Ledger`: a LedgerSimulator whose every executed transaction goes through the global
//! monitor pipeline (client-boundary record: pre-state, executable description, receipt,
//! post-state), with panics caught.
use crate::decode::Db;
use crate::monitors::*;
use rv_common::*;
use crate::prelude::*;
use serde_json::json;
use std::cell::RefCell;

pub type Sim = LedgerSimulator<NoExtension, InMemorySubstateDatabase>;

#[derive(Default, Clone, Debug)]
pub struct HookStats {
    pub max_depth: usize,
    pub max_payload: usize,
    pub frames: u64,
    pub lock_events: u64,
}

thread_local! {
    pub static HOOK_STATS: RefCell<HookStats> = RefCell::new(HookStats::default());
}

fn install_hook_sink() {
    radix_engine::verif_hooks::set_sink(Some(Box::new(|e| {
        HOOK_STATS.with(|s| {
            let mut s = s.borrow_mut();
            match e {
                radix_engine::verif_hooks::VerifEvent::FrameEntered { depth, payload_len } => {
                    s.frames += 1;
                    s.max_depth = s.max_depth.max(depth);
                    s.max_payload = s.max_payload.max(payload_len);
                }
                _ => s.lock_events += 1,
            }
        })
    })));
}

pub struct Ledger {
    pub sim: Sim,
    pub hist: History,
    pub limits: LimitParameters,
    /// Every how many committed transactions the whole-database walkers run (0 = never)
    pub walk_every: u64,
    last_walk_at: u64,
}

pub struct Exec {
    pub receipt: Option<TransactionReceipt>,
    pub panic: Option<PanicInfo>,
}

impl Exec {
    pub fn is_success(&self) -> bool {
        self.receipt.as_ref().map(|r| r.is_commit_success()).unwrap_or(false)
    }
    pub fn receipt(&self) -> &TransactionReceipt {
        self.receipt.as_ref().expect("transaction panicked")
    }
}

impl Ledger {
    pub fn new() -> Self {
        Self::from_sim(LedgerSimulatorBuilder::new().build())
    }

    pub fn with_genesis(genesis: BabylonSettings) -> Self {
        Self::from_sim(LedgerSimulatorBuilder::new().with_custom_genesis(genesis).build())
    }

    pub fn from_sim(sim: Sim) -> Self {
        install_hook_sink();
        Ledger { sim, hist: History::default(), limits: LimitParameters::babylon_genesis(), walk_every: 0, last_walk_at: 0 }
    }

    pub fn db(&self) -> &Db {
        self.sim.substate_db()
    }

    /// Execute a V1 test manifest with the given initial proofs under the default test config.
    pub fn exec(&mut self, shard: &mut Shard, label: &str, manifest: TransactionManifestV1, proofs: Vec<NonFungibleGlobalId>) -> Exec {
        self.exec_cfg(shard, label, manifest, proofs, ExecutionConfig::for_test_transaction())
    }

    pub fn exec_cfg(&mut self, shard: &mut Shard, label: &str, manifest: TransactionManifestV1, proofs: Vec<NonFungibleGlobalId>, config: ExecutionConfig) -> Exec {
        let description = describe_manifest(&manifest, &proofs);
        self.exec_any(shard, label, manifest, proofs, config, description, false)
    }

    /// Execute any buildable manifest (V1, V2, system) as a test transaction.
    pub fn exec_any<M: BuildableManifest>(&mut self, shard: &mut Shard, label: &str, manifest: M, proofs: Vec<NonFungibleGlobalId>, config: ExecutionConfig, description: String, is_system: bool) -> Exec {
        let nonce = self.sim.next_transaction_nonce();
        let executable = match manifest.into_executable_with_proofs(nonce, proofs.into_iter().collect(), self.sim.transaction_validator()) {
            Ok(e) => e,
            Err(e) => {
                // statically invalid manifest: a harness-side rejection, nothing was executed
                shard.count("harness:manifest_not_convertible");
                shard.seen("harness:conversion_errors", &format!("{:?}", e).chars().take(80).collect::<String>());
                return Exec { receipt: None, panic: None };
            }
        };
        self.exec_executable(shard, label, executable, config, description, is_system)
    }

    /// Execute any executable (notarized V1/V2, system, test ...).
    pub fn exec_executable(&mut self, shard: &mut Shard, label: &str, executable: ExecutableTransaction, config: ExecutionConfig, description: String, is_system: bool) -> Exec {
        let limits = config
            .system_overrides
            .as_ref()
            .and_then(|o| o.limit_parameters.clone())
            .unwrap_or_else(|| self.limits.clone());
        let limits_disabled = config.system_overrides.as_ref().map(|o| o.disable_limits).unwrap_or(false);
        self.run_observed(shard, label, description, is_system || limits_disabled, limits, move |sim| sim.execute_transaction(executable, config))
    }

    /// Execute a manifest with the scrypto-test error injector: a costing error is raised at the
    /// `error_after_count`-th system-callback step (fault injection for C02).
    pub fn exec_injected(&mut self, shard: &mut Shard, label: &str, manifest: TransactionManifestV1, proofs: Vec<NonFungibleGlobalId>, error_after_count: u64) -> Exec {
        let description = format!("INJECT costing error at step {error_after_count}\n{}", describe_manifest(&manifest, &proofs));
        let limits = self.limits.clone();
        self.run_observed(shard, label, description, false, limits, move |sim| sim.execute_manifest_with_injected_error(manifest, proofs, error_after_count))
    }

    pub fn snapshot(&self) -> (LedgerSimulatorSnapshot, History) {
        (self.sim.create_snapshot(), self.hist.clone())
    }
    pub fn restore(&mut self, snap: &(LedgerSimulatorSnapshot, History)) {
        self.sim.restore_snapshot(snap.0.clone());
        self.hist = snap.1.clone();
    }

    /// Run `f` (which executes and commits exactly one transaction on the simulator) under the
    /// monitor pipeline.
    pub fn run_observed<F: FnOnce(&mut Sim) -> TransactionReceipt>(&mut self, shard: &mut Shard, label: &str, description: String, is_system: bool, limits: LimitParameters, f: F) -> Exec {
        let pre: Db = self.sim.substate_db().clone();
        HOOK_STATS.with(|s| *s.borrow_mut() = HookStats::default());
        clear_swallowed_panic();
        shard.eval();
        let sim = &mut self.sim;
        let result = catch_mut(|| f(sim));
        let hooks = HOOK_STATS.with(|s| s.borrow().clone());
        shard.add("hook:frames_entered", hooks.frames);
        shard.add("hook:lock_events", hooks.lock_events);
        let meta = TxMeta {
            label: label.to_string(),
            is_system,
            description,
            limits,
            max_depth: if hooks.frames > 0 { Some(hooks.max_depth) } else { None },
            max_invoke_payload: if hooks.frames > 0 { Some(hooks.max_payload) } else { None },
        };
        match result {
            Err(p) => {
                // file + message class (digits stripped): stable under line shifts
                let file = p.site().rsplit_once(':').map(|(f, _)| f.to_string()).unwrap_or_else(|| p.site());
                let sig = if p.message.contains("Locked fee does not cover transaction cost") {
                    format!("execute-panic:locked-fee-does-not-cover-cost@{file}")
                } else {
                    let msg: String = p.message.chars().filter(|c| !c.is_ascii_digit()).take(60).collect();
                    format!("execute-panic@{file}:{}", msg.replace(' ', "_"))
                };
                shard.count("tx:panicked");
                shard.violation_for("C11", sig, json!({"tx_label": meta.label, "tx": meta.description, "panic": p.summary()}));
                if file.ends_with("transaction/transaction_reconciler.rs") {
                    // the engine's own resource reconciliation (events vs balance changes) refused
                    // to produce a receipt: a conservation failure seen by the engine itself
                    shard.violation_for("C03", "engine-resource-reconciliation-panicked", json!({"tx_label": meta.label, "tx": meta.description, "panic": p.summary()}));
                }
                Exec { receipt: None, panic: Some(p) }
            }
            Ok(receipt) => {
                {
                    let obs = Obs { pre: &pre, post: self.sim.substate_db(), receipt: &receipt, meta: &meta };
                    observe(shard, &mut self.hist, &obs);
                }
                shard.seen("tx_labels", label);
                if self.walk_every > 0 && self.hist.committed >= self.last_walk_at + self.walk_every {
                    self.last_walk_at = self.hist.committed;
                    crate::walkers::walk_all(shard, self, &format!("after tx {} ({})", self.hist.executed, label));
                }
                Exec { receipt: Some(receipt), panic: None }
            }
        }
    }

    /// Advance consensus by one system round-change transaction (monitored).
    pub fn next_round(&mut self, shard: &mut Shard, round: u64, proposer_timestamp_ms: i64, gap_round_leaders: Vec<ValidatorIndex>, current_leader: ValidatorIndex) -> Exec {
        let manifest = ManifestBuilder::new_system_v1()
            .call_method(
                CONSENSUS_MANAGER,
                CONSENSUS_MANAGER_NEXT_ROUND_IDENT,
                ConsensusManagerNextRoundInput {
                    round: Round::of(round),
                    proposer_timestamp_ms,
                    leader_proposal_history: LeaderProposalHistory { gap_round_leaders: gap_round_leaders.clone(), current_leader, is_fallback: false },
                },
            )
            .build();
        let description = format!("SYSTEM next_round(round={round}, ts_ms={proposer_timestamp_ms}, gaps={gap_round_leaders:?}, leader={current_leader})");
        let cfg = ExecutionConfig::for_system_transaction(NetworkDefinition::simulator());
        self.exec_any(shard, "system:next_round", manifest, vec![system_execution(SystemExecution::Validator)], cfg, description, true)
    }

    pub fn current_epoch(&self) -> u64 {
        crate::decode::consensus_clock(self.db()).map(|c| c.epoch).unwrap_or(0)
    }
}

pub fn describe_manifest(manifest: &TransactionManifestV1, proofs: &[NonFungibleGlobalId]) -> String {
    let text = decompile(manifest, &NetworkDefinition::simulator()).unwrap_or_else(|e| format!("<decompile failed: {e:?}>"));
    let text: String = text.chars().take(6000).collect();
    format!("proofs={:?}\n{}", proofs.iter().map(|p| format!("{:?}", p)).collect::<Vec<_>>(), text)
}
