//! Global post-transaction monitors. Every transaction executed through `Ledger` is observed
//! by all of them; a violation is reported under the id of the property it contradicts.
use crate::decode::*;
use rv_common::*;
use crate::prelude::*;
use serde_json::json;
use std::collections::{BTreeMap, BTreeSet, HashSet};

/// Monitor state that spans a ledger history.
#[derive(Default, Clone)]
pub struct History {
    pub minted_nf: HashSet<(NodeId, NonFungibleLocalId)>,
    pub clock: Option<ConsensusClock>,
    pub committed: u64,
    pub executed: u64,
    pub free_credit_used: bool,
    /// (node, partition, db sort key) of substates seen locked, with the locked bytes
    pub locked: BTreeMap<(NodeId, u8, Vec<u8>), Vec<u8>>,
    pub ops_log: Vec<String>,
}

#[derive(Clone, Debug)]
pub struct TxMeta {
    pub label: String,
    pub is_system: bool,
    /// a free-form description of the transaction for replay files (manifest text / op list)
    pub description: String,
    pub limits: LimitParameters,
    /// deepest call frame entered (hook H4); None if the hook saw nothing
    pub max_depth: Option<usize>,
    pub max_invoke_payload: Option<usize>,
}

pub fn outcome_class(receipt: &TransactionReceipt) -> String {
    match &receipt.result {
        TransactionResult::Commit(c) => match &c.outcome {
            TransactionOutcome::Success(_) => "commit-success".into(),
            TransactionOutcome::Failure(e) => format!("commit-failure:{}", error_class(e)),
        },
        TransactionResult::Reject(r) => format!("reject:{}", short(&format!("{:?}", r.reason))),
        TransactionResult::Abort(a) => format!("abort:{}", short(&format!("{:?}", a.reason))),
    }
}

fn short(s: &str) -> String {
    // keep the leading identifier path of a Debug rendering: variant names without payloads
    let mut out = String::new();
    let mut depth = 0usize;
    for ch in s.chars() {
        if out.len() > 90 {
            break;
        }
        match ch {
            '(' | '{' => {
                depth += 1;
                if depth <= 3 {
                    out.push('/');
                }
            }
            ')' | '}' => depth = depth.saturating_sub(1),
            c if c.is_alphanumeric() || c == '_' => {
                if depth <= 3 {
                    out.push(c)
                }
            }
            _ => {
                if depth <= 3 && !out.ends_with('/') && !out.ends_with(' ') {
                    out.push(' ')
                }
            }
        }
    }
    // strip payload-ish tokens (numbers / hex) to keep classes stable
    out.split(|c| c == '/' || c == ' ')
        .filter(|t| !t.is_empty() && t.chars().next().map(|c| c.is_alphabetic() && c.is_uppercase()).unwrap_or(false))
        .take(4)
        .collect::<Vec<_>>()
        .join("/")
}

pub fn error_class(e: &RuntimeError) -> String {
    short(&format!("{:?}", e))
}

fn detail(meta: &TxMeta, extra: serde_json::Value) -> serde_json::Value {
    json!({"tx_label": meta.label, "tx": meta.description, "observed": extra})
}

fn event_name(id: &EventTypeIdentifier) -> &str {
    id.1.as_str()
}
fn emitter_node(id: &EventTypeIdentifier) -> Option<NodeId> {
    match &id.0 {
        Emitter::Method(n, _) => Some(*n),
        Emitter::Function(_) => None,
    }
}

/// Everything observed about one transaction.
pub struct Obs<'a> {
    pub pre: &'a Db,
    pub post: &'a Db,
    pub receipt: &'a TransactionReceipt,
    pub meta: &'a TxMeta,
}

pub fn observe(shard: &mut Shard, hist: &mut History, obs: &Obs) {
    hist.executed += 1;
    let cls = outcome_class(obs.receipt);
    shard.seen("outcome_classes", &cls);
    shard.count(&format!("tx:{}", cls.split(':').next().unwrap_or("")));
    m_c11_receipt(shard, obs);
    if let TransactionResult::Commit(commit) = &obs.receipt.result {
        hist.committed += 1;
        let free_credit = obs.receipt.transaction_costing_parameters.free_credit_in_xrd;
        if free_credit.is_positive() {
            hist.free_credit_used = true;
        }
        let touched = touched(obs.pre, obs.post, &commit.state_updates);
        {
            // behaviour signature of a committed transaction
            let mut types: BTreeSet<String> = BTreeSet::new();
            for t in &touched {
                if t.old != t.new {
                    types.insert(format!("{:?}/{}", t.node.entity_type(), t.partition.0));
                }
            }
            let events: BTreeSet<&str> = commit.application_events.iter().map(|(id, _)| id.1.as_str()).collect();
            shard.nontrivial(&(&obs.meta.label, &cls, &types, &events));
        }
        m_c03_conservation(shard, obs, commit, &touched, free_credit);
        m_c04_vault_events(shard, obs, commit, &touched);
        m_c06_fees(shard, obs, commit, &touched);
        if matches!(commit.outcome, TransactionOutcome::Failure(_)) {
            m_c02_failure_shape(shard, obs, commit, &touched);
        }
        m_c43_non_fungibles(shard, hist, obs, commit);
        m_c43_data_updates(shard, obs, commit, &touched);
        m_c44_clock(shard, hist, obs);
        m_c49_limits(shard, obs, commit, &touched);
        m_c51_locked(shard, hist, obs, commit, &touched);
    } else {
        // Reject / Abort carry no state updates by construction; the database is untouched
        // because the engine only ever holds a shared reference to it.
        shard.count("c02:reject_or_abort_observed");
    }
}

// ------------------------------------------------------------------------------------------
// C11: native traps / system panics surfacing in receipts
// ------------------------------------------------------------------------------------------
fn m_c11_receipt(shard: &mut Shard, obs: &Obs) {
    let err = match &obs.receipt.result {
        TransactionResult::Commit(c) => match &c.outcome {
            TransactionOutcome::Failure(e) => Some(format!("{:?}", e)),
            _ => None,
        },
        TransactionResult::Reject(r) => Some(format!("{:?}", r.reason)),
        TransactionResult::Abort(a) => Some(format!("{:?}", a.reason)),
    };
    if let Some(e) = err {
        if e.contains("Trap") && e.contains("Native") {
            // NativeRuntimeError::Trap { export_name, input, error }: a panic inside a native blueprint
            // signature = export + source file + message class (digits stripped), stable under line shifts
            let site = take_swallowed_panic()
                .map(|p| {
                    let file = p.site().rsplit_once(':').map(|(f, _)| f.to_string()).unwrap_or_else(|| p.site());
                    let msg: String = p.message.chars().filter(|c| !c.is_ascii_digit()).take(70).collect();
                    format!("{file}:{}", msg.replace(' ', "_"))
                })
                .unwrap_or_else(|| "unknown-site".into());
            let export = e.split("export_name: \"").nth(1).and_then(|s| s.split('"').next()).unwrap_or("?").to_string();
            shard.violation_for("C11", format!("native-trap:{export}@{site}"), detail(obs.meta, json!({"error": e.chars().take(600).collect::<String>()})));
        } else if e.contains("SystemPanic") {
            shard.violation_for("C11", "system-panic-in-receipt", detail(obs.meta, json!({"error": e.chars().take(600).collect::<String>()})));
        }
    }
    clear_swallowed_panic();
}

// ------------------------------------------------------------------------------------------
// C03: per-transaction conservation
// ------------------------------------------------------------------------------------------
#[derive(Default, Debug)]
struct ResFlow {
    vault_delta: num_bigint::BigInt,
    minted: num_bigint::BigInt,
    burned: num_bigint::BigInt,
    ids_in: Vec<NonFungibleLocalId>,
    ids_out: Vec<NonFungibleLocalId>,
    ids_minted: Vec<NonFungibleLocalId>,
    ids_burned: Vec<NonFungibleLocalId>,
    supply_delta: Option<num_bigint::BigInt>,
}

fn vault_resource(obs: &Obs, vault: &NodeId) -> Option<NodeId> {
    outer_object(obs.post, vault).or_else(|| outer_object(obs.pre, vault)).map(|g| g.into_node_id())
}

fn m_c03_conservation(shard: &mut Shard, obs: &Obs, commit: &CommitResult, touched: &[Touched], free_credit: Decimal) {
    use num_bigint::BigInt;
    use num_traits::Zero;
    if free_credit.is_positive() {
        shard.count("c03:skipped_free_credit");
        return;
    }
    let mut flows: BTreeMap<NodeId, ResFlow> = BTreeMap::new();
    let mut vaults: BTreeSet<NodeId> = BTreeSet::new();
    let mut resources: BTreeSet<NodeId> = BTreeSet::new();
    for t in touched {
        if is_vault(&t.node) {
            vaults.insert(t.node);
        }
        if matches!(t.node.entity_type(), Some(EntityType::GlobalFungibleResourceManager) | Some(EntityType::GlobalNonFungibleResourceManager)) {
            resources.insert(t.node);
        }
    }
    for v in &vaults {
        let Some(res) = vault_resource(obs, v) else {
            shard.violation_for("C03", "vault-without-resource", detail(obs.meta, json!({"vault": node_hex(v)})));
            continue;
        };
        let old = vault_amount(obs.pre, v).unwrap_or(Decimal::ZERO);
        let new = vault_amount(obs.post, v).unwrap_or(Decimal::ZERO);
        let f = flows.entry(res).or_default();
        f.vault_delta += dec_to_big(new) - dec_to_big(old);
        if new.is_negative() {
            shard.violation_for("C04", "negative-vault-balance", detail(obs.meta, json!({"vault": node_hex(v), "balance": new.to_string()})));
        }
        if is_non_fungible_vault(v) {
            let before: BTreeSet<_> = non_fungible_vault_ids(obs.pre, v).into_iter().collect();
            let after: BTreeSet<_> = non_fungible_vault_ids(obs.post, v).into_iter().collect();
            f.ids_in.extend(after.difference(&before).cloned());
            f.ids_out.extend(before.difference(&after).cloned());
            if Decimal::from(after.len() as u64) != new {
                shard.violation_for("C04", "nf-vault-count-differs-from-ids-held", detail(obs.meta, json!({"vault": node_hex(v), "amount": new.to_string(), "ids": after.len()})));
            }
        }
    }
    for (id, data) in &commit.application_events {
        let Some(node) = emitter_node(id) else { continue };
        match event_name(id) {
            "MintFungibleResourceEvent" => {
                if let Ok(e) = scrypto_decode::<MintFungibleResourceEvent>(data) {
                    flows.entry(node).or_default().minted += dec_to_big(e.amount);
                }
            }
            "BurnFungibleResourceEvent" => {
                if let Ok(e) = scrypto_decode::<BurnFungibleResourceEvent>(data) {
                    flows.entry(node).or_default().burned += dec_to_big(e.amount);
                }
            }
            "MintNonFungibleResourceEvent" => {
                if let Ok(e) = scrypto_decode::<MintNonFungibleResourceEvent>(data) {
                    let f = flows.entry(node).or_default();
                    f.minted += BigInt::from(e.ids.len()) * dec_to_big(Decimal::ONE);
                    f.ids_minted.extend(e.ids);
                }
            }
            "BurnNonFungibleResourceEvent" => {
                if let Ok(e) = scrypto_decode::<BurnNonFungibleResourceEvent>(data) {
                    let f = flows.entry(node).or_default();
                    f.burned += BigInt::from(e.ids.len()) * dec_to_big(Decimal::ONE);
                    f.ids_burned.extend(e.ids);
                }
            }
            _ => {}
        }
    }
    for r in resources.iter().chain(flows.keys().cloned().collect::<Vec<_>>().iter()) {
        let old = total_supply(obs.pre, r);
        let new = total_supply(obs.post, r);
        if old.is_some() || new.is_some() {
            let d = dec_to_big(new.unwrap_or(Decimal::ZERO)) - dec_to_big(old.unwrap_or(Decimal::ZERO));
            flows.entry(*r).or_default().supply_delta = Some(d);
        }
    }
    for (res, f) in &flows {
        shard.count("c03:resource_flows_checked");
        let net = &f.minted - &f.burned;
        if !f.minted.is_zero() {
            shard.count("c03:flows_with_mint");
        }
        if !f.burned.is_zero() {
            shard.count("c03:flows_with_burn");
        }
        let d = |what: &str| {
            detail(obs.meta, json!({"resource": node_hex(res), "what": what, "vault_delta_subunits": f.vault_delta.to_string(),
                "minted_subunits": f.minted.to_string(), "burned_subunits": f.burned.to_string(),
                "supply_delta_subunits": f.supply_delta.as_ref().map(|x| x.to_string())}))
        };
        if f.vault_delta != net {
            let kind = if *res == XRD.into_node_id() { "xrd" } else { "resource" };
            shard.violation_for("C03", format!("vault-delta-differs-from-mint-minus-burn:{kind}"), d("sum of vault balance changes != minted - burned"));
        }
        if let Some(sd) = &f.supply_delta {
            shard.count("c03:supply_tracking_resources_checked");
            if *sd != net {
                shard.violation_for("C03", "total-supply-delta-differs-from-mint-minus-burn", d("recorded total supply change != minted - burned"));
            }
        }
        // id sets: ids that entered vaults without leaving others must be exactly those minted (and not burned)
        if !f.ids_in.is_empty() || !f.ids_out.is_empty() || !f.ids_minted.is_empty() || !f.ids_burned.is_empty() {
            shard.count("c03:nf_id_flows_checked");
            let mut net_in = multiset(&f.ids_in);
            for id in &f.ids_out {
                *net_in.entry(id.clone()).or_insert(0) -= 1;
            }
            let mut net_mint = multiset(&f.ids_minted);
            for id in &f.ids_burned {
                *net_mint.entry(id.clone()).or_insert(0) -= 1;
            }
            net_in.retain(|_, c| *c != 0);
            net_mint.retain(|_, c| *c != 0);
            if net_in != net_mint {
                shard.violation_for("C03", "non-fungible-id-sets-not-conserved", detail(obs.meta, json!({"resource": node_hex(res),
                    "net_ids_into_vaults": format!("{:?}", net_in), "net_ids_minted": format!("{:?}", net_mint)})));
            }
        }
    }
    shard.count("c03:transactions_checked");
}

fn multiset(ids: &[NonFungibleLocalId]) -> BTreeMap<NonFungibleLocalId, i64> {
    let mut m = BTreeMap::new();
    for i in ids {
        *m.entry(i.clone()).or_insert(0) += 1;
    }
    m
}

// ------------------------------------------------------------------------------------------
// C04 (incremental half): each vault's balance change equals the replay of its own events
// ------------------------------------------------------------------------------------------
fn m_c04_vault_events(shard: &mut Shard, obs: &Obs, commit: &CommitResult, touched: &[Touched]) {
    use num_bigint::BigInt;
    let mut expected: BTreeMap<NodeId, BigInt> = BTreeMap::new();
    let one = dec_to_big(Decimal::ONE);
    for (id, data) in &commit.application_events {
        let Some(node) = emitter_node(id) else { continue };
        if is_fungible_vault(&node) {
            let amt = |d: &[u8]| scrypto_decode::<fungible_vault::DepositEvent>(d).ok().map(|e| dec_to_big(e.amount));
            match event_name(id) {
                "DepositEvent" => *expected.entry(node).or_default() += amt(data).unwrap_or_default(),
                "WithdrawEvent" | "RecallEvent" | "PayFeeEvent" => *expected.entry(node).or_default() -= amt(data).unwrap_or_default(),
                _ => {}
            }
        } else if is_non_fungible_vault(&node) {
            let n = |d: &[u8]| scrypto_decode::<non_fungible_vault::DepositEvent>(d).ok().map(|e| BigInt::from(e.ids.len()) * &one);
            match event_name(id) {
                "DepositEvent" => *expected.entry(node).or_default() += n(data).unwrap_or_default(),
                "WithdrawEvent" | "RecallEvent" => *expected.entry(node).or_default() -= n(data).unwrap_or_default(),
                _ => {}
            }
        }
    }
    let mut vaults: BTreeSet<NodeId> = touched.iter().filter(|t| is_vault(&t.node)).map(|t| t.node).collect();
    vaults.extend(expected.keys().cloned());
    for v in vaults {
        let old = vault_amount(obs.pre, &v).unwrap_or(Decimal::ZERO);
        let new = vault_amount(obs.post, &v).unwrap_or(Decimal::ZERO);
        let delta = dec_to_big(new) - dec_to_big(old);
        let exp = expected.get(&v).cloned().unwrap_or_default();
        shard.count("c04:vault_event_replays_checked");
        if delta != exp {
            shard.violation_for("C04", "vault-balance-change-differs-from-its-events", detail(obs.meta, json!({"vault": node_hex(&v),
                "balance_before": old.to_string(), "balance_after": new.to_string(), "delta_subunits": delta.to_string(), "events_net_subunits": exp.to_string()})));
        }
    }
}

// ------------------------------------------------------------------------------------------
// C06: fees paid in full and distributed exactly
// ------------------------------------------------------------------------------------------
fn m_c06_fees(shard: &mut Shard, obs: &Obs, commit: &CommitResult, _touched: &[Touched]) {
    use num_bigint::BigInt;
    use num_traits::Zero;
    let fs = &obs.receipt.fee_summary;
    let b = dec_to_big;
    let total = b(fs.total_execution_cost_in_xrd) + b(fs.total_finalization_cost_in_xrd) + b(fs.total_tipping_cost_in_xrd) + b(fs.total_storage_cost_in_xrd) + b(fs.total_royalty_cost_in_xrd);
    let paid: BigInt = commit.fee_source.paying_vaults.values().map(|d| b(*d)).sum();
    let free_credit = b(obs.receipt.transaction_costing_parameters.free_credit_in_xrd);
    let royalties: BigInt = commit.fee_destination.to_royalty_recipients.values().map(|d| b(*d)).sum();
    let distributed = b(commit.fee_destination.to_proposer) + b(commit.fee_destination.to_validator_set) + b(commit.fee_destination.to_burn) + &royalties;
    shard.count("c06:commits_checked");
    let d = |what: &str| {
        detail(obs.meta, json!({"what": what, "total_cost_subunits": total.to_string(), "paid_by_vaults_subunits": paid.to_string(), "free_credit_subunits": free_credit.to_string(),
            "distributed_subunits": distributed.to_string(), "fee_summary": format!("{:?}", fs), "fee_source": format!("{:?}", commit.fee_source), "fee_destination": format!("{:?}", commit.fee_destination),
            "costing_parameters": format!("{:?}", obs.receipt.costing_parameters), "tip": format!("{:?}", obs.receipt.transaction_costing_parameters.tip_proportion)}))
    };
    let free_used = &total - &paid;
    if free_used < BigInt::zero() || free_used > free_credit {
        shard.violation_for("C06", "payments-plus-free-credit-differ-from-total-cost", d("sum(paying vaults) + free credit used != total cost"));
    }
    if distributed != total {
        shard.violation_for("C06", "distribution-differs-from-total-cost", d("proposer + validator set + burn + royalties != total cost"));
    }
    if royalties != b(fs.total_royalty_cost_in_xrd) {
        shard.violation_for("C06", "royalty-payments-differ-from-royalty-cost", d("sum(to_royalty_recipients) != total_royalty_cost"));
    }
    for x in [commit.fee_destination.to_proposer, commit.fee_destination.to_validator_set, commit.fee_destination.to_burn] {
        if x.is_negative() {
            shard.violation_for("C06", "negative-fee-destination", d("negative distribution component"));
        }
    }
    let cp = &obs.receipt.costing_parameters;
    // independent recomputation of the cost components from units, prices and the tip proportion
    // (Decimal = 18-decimal fixed point: price x integer units is exact; the tip is the specified
    // proportion of execution + finalization cost, truncated; 2 attos of rounding slack)
    {
        let one = BigInt::from(10u8).pow(18);
        let exec = b(cp.execution_cost_unit_price) * BigInt::from(fs.total_execution_cost_units_consumed);
        let fin = b(cp.finalization_cost_unit_price) * BigInt::from(fs.total_finalization_cost_units_consumed);
        if exec != b(fs.total_execution_cost_in_xrd) {
            shard.violation_for("C06", "execution-cost-differs-from-units-times-price", d("total_execution_cost_in_xrd != execution_cost_unit_price x units"));
        }
        if fin != b(fs.total_finalization_cost_in_xrd) {
            shard.violation_for("C06", "finalization-cost-differs-from-units-times-price", d("total_finalization_cost_in_xrd != finalization_cost_unit_price x units"));
        }
        let p = b(obs.receipt.transaction_costing_parameters.tip_proportion);
        let tip_expected = ((&exec + &fin) * &p) / &one;
        let diff = b(fs.total_tipping_cost_in_xrd) - &tip_expected;
        if diff > BigInt::from(2) || diff < BigInt::from(-2) {
            shard.violation_for("C06", "tipping-cost-differs-from-tip-proportion-of-execution-and-finalization-cost", d("total_tipping_cost_in_xrd != tip_proportion x (execution + finalization cost)"));
        }
        shard.count("c06:cost_components_recomputed");
    }
    if fs.total_execution_cost_units_consumed > cp.execution_cost_unit_limit {
        shard.violation_for("C06", "execution-cost-units-exceed-limit", d("execution cost units > limit"));
    }
    if fs.total_finalization_cost_units_consumed > cp.finalization_cost_unit_limit {
        shard.violation_for("C06", "finalization-cost-units-exceed-limit", d("finalization cost units > limit"));
    }
    // PayFee events per vault equal the recorded payments; royalty vaults receive a deposit of their share
    let mut payfee: BTreeMap<NodeId, BigInt> = BTreeMap::new();
    let mut deposits: BTreeMap<NodeId, Vec<BigInt>> = BTreeMap::new();
    for (id, data) in &commit.application_events {
        let Some(node) = emitter_node(id) else { continue };
        if !is_fungible_vault(&node) {
            continue;
        }
        match event_name(id) {
            "PayFeeEvent" => {
                if let Ok(e) = scrypto_decode::<fungible_vault::PayFeeEvent>(data) {
                    *payfee.entry(node).or_default() += b(e.amount);
                }
            }
            "DepositEvent" => {
                if let Ok(e) = scrypto_decode::<fungible_vault::DepositEvent>(data) {
                    deposits.entry(node).or_default().push(b(e.amount));
                }
            }
            _ => {}
        }
    }
    for (v, amt) in &commit.fee_source.paying_vaults {
        if payfee.get(v).cloned().unwrap_or_default() != b(*amt) {
            shard.violation_for("C06", "pay-fee-events-differ-from-fee-source", d("PayFee events of a vault != its recorded payment"));
        }
        if vault_resource(obs, v) != Some(XRD.into_node_id()) {
            shard.violation_for("C06", "fee-paid-from-non-xrd-vault", d("paying vault is not an XRD vault"));
        }
        if !amt.is_zero() {
            shard.count("c06:paying_vaults_nonzero");
        }
    }
    for (rcp, amt) in &commit.fee_destination.to_royalty_recipients {
        if amt.is_zero() {
            continue;
        }
        shard.count("c06:royalty_payments_checked");
        let v = rcp.vault_id();
        if !deposits.get(&v).map(|ds| ds.contains(&b(*amt))).unwrap_or(false) {
            shard.violation_for("C06", "royalty-not-credited-to-royalty-vault", d("no deposit of the royalty share on the recipient's vault"));
        }
    }
    if !b(fs.total_tipping_cost_in_xrd).is_zero() {
        shard.count("c06:commits_with_tip");
    }
    if commit.fee_source.paying_vaults.len() > 1 {
        shard.count("c06:commits_with_several_paying_vaults");
    }
}

// ------------------------------------------------------------------------------------------
// C02: a committed failure changes only fee vaults, validator rewards and the tracker
// ------------------------------------------------------------------------------------------
fn rewards_vault(db: &Db) -> Option<NodeId> {
    let bytes = raw(db, CONSENSUS_MANAGER.as_node_id(), MAIN_BASE_PARTITION, &ConsensusManagerField::ValidatorRewards.into())?;
    let s: ConsensusManagerValidatorRewardsFieldSubstate = scrypto_decode(&bytes).ok()?;
    Some(s.into_payload().fully_update_and_into_latest_version().rewards_vault.0 .0)
}

fn m_c02_failure_shape(shard: &mut Shard, obs: &Obs, commit: &CommitResult, touched: &[Touched]) {
    shard.count("c02:failures_checked");
    let rewards = rewards_vault(obs.pre);
    let reward_amount = dec_to_big(commit.fee_destination.to_proposer) + dec_to_big(commit.fee_destination.to_validator_set);
    for t in touched {
        if t.old == t.new {
            continue;
        }
        let d = |what: &str| detail(obs.meta, json!({"what": what, "node": node_hex(&t.node), "entity_type": format!("{:?}", t.node.entity_type()), "partition": t.partition.0, "sort_key": hex(&t.sort_key.0),
            "old": t.old.as_ref().map(|x| hex(x)), "new": t.new.as_ref().map(|x| hex(x)), "outcome": outcome_class(obs.receipt)}));
        if t.node == TRANSACTION_TRACKER.into_node_id() {
            shard.count("c02:tracker_updates");
            continue;
        }
        if t.node == CONSENSUS_MANAGER.into_node_id() {
            let is_rewards_field = t.partition == MAIN_BASE_PARTITION && t.sort_key == SpreadPrefixKeyMapper::to_db_sort_key(&ConsensusManagerField::ValidatorRewards.into());
            if !is_rewards_field {
                shard.violation_for("C02", "failed-tx-changed-consensus-manager-state", d("consensus manager substate other than ValidatorRewards changed"));
            }
            continue;
        }
        if is_fungible_vault(&t.node) {
            let is_balance = t.partition == MAIN_BASE_PARTITION && t.sort_key == SpreadPrefixKeyMapper::to_db_sort_key(&FungibleVaultField::Balance.into());
            let old = fungible_vault_balance(obs.pre, &t.node);
            let new = fungible_vault_balance(obs.post, &t.node);
            if Some(t.node) == rewards && is_balance {
                let delta = dec_to_big(new.unwrap_or_default()) - dec_to_big(old.unwrap_or_default());
                if delta != reward_amount {
                    shard.violation_for("C02", "failed-tx-reward-vault-delta-wrong", d("reward vault delta != to_proposer + to_validator_set"));
                }
                continue;
            }
            if let Some(pay) = commit.fee_source.paying_vaults.get(&t.node) {
                if !is_balance || old.is_none() {
                    shard.violation_for("C02", "failed-tx-changed-fee-vault-beyond-balance", d("fee vault changed in a substate other than its balance (or was created)"));
                    continue;
                }
                let delta = dec_to_big(new.unwrap_or_default()) - dec_to_big(old.unwrap_or_default());
                if delta != -dec_to_big(*pay) {
                    shard.violation_for("C02", "failed-tx-fee-vault-delta-differs-from-payment", d("fee vault balance delta != -payment"));
                }
                if vault_resource(obs, &t.node) != Some(XRD.into_node_id()) {
                    shard.violation_for("C02", "failed-tx-fee-vault-not-xrd", d("paying vault is not XRD"));
                }
                continue;
            }
        }
        shard.violation_for("C02", format!("failed-tx-changed-other-state:{:?}", t.node.entity_type().map(|e| format!("{e:?}")).unwrap_or_default()), d("substate outside the fee / reward / replay-protection allow-list changed"));
    }
    for (id, _) in &commit.application_events {
        let name = event_name(id);
        let node = emitter_node(id);
        let ok = match name {
            "LockFeeEvent" | "PayFeeEvent" => node.map(|n| is_fungible_vault(&n)).unwrap_or(false),
            "DepositEvent" => node.is_some() && node == rewards,
            "BurnFungibleResourceEvent" => node == Some(XRD.into_node_id()),
            _ => false,
        };
        if !ok {
            shard.violation_for("C02", format!("failed-tx-emitted-non-fee-event:{name}"), detail(obs.meta, json!({"event": format!("{:?}", id), "outcome": outcome_class(obs.receipt)})));
        }
    }
    let s = &commit.state_update_summary;
    if !s.new_packages.is_empty() || !s.new_components.is_empty() || !s.new_resources.is_empty() || !s.new_vaults.is_empty() {
        shard.violation_for("C02", "failed-tx-created-entities", detail(obs.meta, json!({"new_vaults": s.new_vaults.len(), "new_components": s.new_components.len()})));
    }
}

// ------------------------------------------------------------------------------------------
// C43: non-fungible ids minted at most once, with the resource's id type
// ------------------------------------------------------------------------------------------
fn nf_mutable_field_indices(db: &Db, resource: &NodeId) -> Option<BTreeSet<usize>> {
    let bytes = raw(db, resource, MAIN_BASE_PARTITION, &NonFungibleResourceManagerField::MutableFields.into())?;
    let s: NonFungibleResourceManagerMutableFieldsFieldSubstate = scrypto_decode(&bytes).ok()?;
    Some(s.into_payload().fully_update_and_into_latest_version().mutable_field_index.values().cloned().collect())
}

/// C43 (data half): a change of a stored non-fungible data entry touches only mutable fields.
fn m_c43_data_updates(shard: &mut Shard, obs: &Obs, commit: &CommitResult, touched: &[Touched]) {
    for t in touched {
        if t.node.entity_type() != Some(EntityType::GlobalNonFungibleResourceManager) || t.old == t.new {
            continue;
        }
        let (Some(old), Some(new)) = (&t.old, &t.new) else { continue };
        // only entries of the data key-value collection
        let is_kv_entry = commit
            .system_structure
            .substate_system_structures
            .get(&t.node)
            .and_then(|p| p.get(&t.partition))
            .map(|subs| subs.iter().any(|(k, s)| SpreadPrefixKeyMapper::to_db_sort_key(k) == t.sort_key && matches!(s, SubstateSystemStructure::ObjectKeyValuePartitionEntry(_))))
            .unwrap_or(false);
        if !is_kv_entry {
            continue;
        }
        let (Ok(o), Ok(n)) = (scrypto_decode::<KeyValueEntrySubstate<ScryptoValue>>(old), scrypto_decode::<KeyValueEntrySubstate<ScryptoValue>>(new)) else { continue };
        let (Some(ov), Some(nv)) = (o.into_value(), n.into_value()) else { continue };
        let (ScryptoValue::Tuple { fields: of }, ScryptoValue::Tuple { fields: nf }) = (&ov, &nv) else { continue };
        shard.count("c43:data_entry_updates_examined");
        let mutable = nf_mutable_field_indices(obs.pre, &t.node).unwrap_or_default();
        let mut changed: Vec<usize> = vec![];
        for i in 0..of.len().max(nf.len()) {
            if of.get(i) != nf.get(i) {
                changed.push(i);
            }
        }
        if of.len() != nf.len() || changed.iter().any(|i| !mutable.contains(i)) {
            shard.violation_for("C43", "immutable-non-fungible-field-changed", detail(obs.meta, json!({"resource": node_hex(&t.node), "sort_key": hex(&t.sort_key.0),
                "changed_field_indices": changed, "mutable_field_indices": mutable.iter().collect::<Vec<_>>(), "old": format!("{:?}", ov), "new": format!("{:?}", nv)})));
        }
    }
}

fn m_c43_non_fungibles(shard: &mut Shard, hist: &mut History, obs: &Obs, commit: &CommitResult) {
    for (id, data) in &commit.application_events {
        if event_name(id) != "MintNonFungibleResourceEvent" {
            continue;
        }
        let Some(res) = emitter_node(id) else { continue };
        let Ok(e) = scrypto_decode::<MintNonFungibleResourceEvent>(data) else { continue };
        let id_type = non_fungible_id_type(obs.post, &res);
        for nf in e.ids {
            shard.count("c43:mints_observed");
            if let Some(t) = id_type {
                if nf.id_type() != t {
                    shard.violation_for("C43", "minted-id-of-wrong-type", detail(obs.meta, json!({"resource": node_hex(&res), "id": nf.to_string(), "resource_id_type": format!("{t:?}")})));
                }
            }
            if !hist.minted_nf.insert((res, nf.clone())) {
                shard.violation_for("C43", "non-fungible-id-minted-twice", detail(obs.meta, json!({"resource": node_hex(&res), "id": nf.to_string()})));
            }
        }
    }
}

// ------------------------------------------------------------------------------------------
// C44: clock and rounds only move forward
// ------------------------------------------------------------------------------------------
fn m_c44_clock(shard: &mut Shard, hist: &mut History, obs: &Obs) {
    let Some(now) = consensus_clock(obs.post) else { return };
    let prev = hist.clock.clone().or_else(|| consensus_clock(obs.pre));
    if let Some(p) = prev {
        let d = |what: &str| detail(obs.meta, json!({"what": what, "before": format!("{:?}", p), "after": format!("{:?}", now)}));
        if now.milli < p.milli {
            shard.violation_for("C44", "proposer-timestamp-decreased", d("milli timestamp went backwards"));
        }
        if now.minute < p.minute {
            shard.violation_for("C44", "minute-clock-decreased", d("minute timestamp went backwards"));
        }
        if now.epoch < p.epoch || (now.epoch == p.epoch && now.round < p.round) {
            shard.violation_for("C44", "epoch-or-round-went-backwards", d("(epoch, round) decreased"));
        }
        if now.epoch > p.epoch {
            shard.count("c44:epoch_changes_observed");
            if now.epoch != p.epoch + 1 {
                shard.violation_for("C44", "epoch-advanced-by-more-than-one", d("epoch jumped"));
            }
            if now.round != 0 {
                shard.violation_for("C44", "round-not-reset-at-epoch-change", d("round not reset to zero at epoch change"));
            }
        } else if now.round > p.round {
            shard.count("c44:round_advances_observed");
        }
        if now.milli != p.milli {
            shard.count("c44:time_advances_observed");
        }
    }
    if (now.minute as i64) != now.milli.div_euclid(60_000) {
        shard.violation_for("C44", "minute-clock-not-floor-of-milli-clock", detail(obs.meta, json!({"clock": format!("{:?}", now)})));
    }
    hist.clock = Some(now);
}

// ------------------------------------------------------------------------------------------
// C49 (global half): a committed user transaction is within the configured limits
// ------------------------------------------------------------------------------------------
fn m_c49_limits(shard: &mut Shard, obs: &Obs, commit: &CommitResult, touched: &[Touched]) {
    if obs.meta.is_system {
        return;
    }
    let lim = &obs.meta.limits;
    shard.count("c49:commits_checked");
    let d = |what: String| detail(obs.meta, json!({"what": what, "limits": format!("{:?}", lim)}));
    if commit.application_events.len() > lim.max_number_of_events {
        // events appended by fee finalization (royalty deposits, PayFee, reward deposit, XRD burn) form a suffix
        let tail = commit.application_events.iter().rev().take_while(|(id, _)| matches!(id.1.as_str(), "PayFeeEvent" | "DepositEvent" | "BurnFungibleResourceEvent")).count();
        let sig = if commit.application_events.len() - tail <= lim.max_number_of_events {
            "committed-more-events-than-limit:only-by-fee-finalization-events"
        } else {
            "committed-more-events-than-limit"
        };
        shard.violation_for("C49", sig, d(format!("{} events ({} of them in the fee-finalization tail)", commit.application_events.len(), tail)));
    }
    for (_, data) in &commit.application_events {
        if data.len() > lim.max_event_size {
            shard.violation_for("C49", "committed-event-larger-than-limit", d(format!("event of {} bytes", data.len())));
        }
    }
    if commit.application_logs.len() > lim.max_number_of_logs {
        shard.violation_for("C49", "committed-more-logs-than-limit", d(format!("{} logs", commit.application_logs.len())));
    }
    for (_, msg) in &commit.application_logs {
        if msg.len() > lim.max_log_size {
            shard.violation_for("C49", "committed-log-larger-than-limit", d(format!("log of {} bytes", msg.len())));
        }
    }
    for t in touched {
        if let Some(new) = &t.new {
            if t.old.as_ref() != Some(new) && new.len() > lim.max_substate_value_size {
                shard.violation_for("C49", "committed-substate-value-larger-than-limit", d(format!("value of {} bytes at {}", new.len(), node_hex(&t.node))));
            }
        }
    }
    if let Some(depth) = obs.meta.max_depth {
        shard.max("c49:max_call_depth_seen", depth as u64);
        if depth > lim.max_call_depth {
            shard.violation_for("C49", "committed-call-depth-above-limit", d(format!("entered depth {depth}")));
        }
    }
    if let Some(p) = obs.meta.max_invoke_payload {
        if p > lim.max_invoke_input_size {
            shard.violation_for("C49", "committed-invoke-payload-above-limit", d(format!("invoke payload of {p} bytes")));
        }
    }
}

// ------------------------------------------------------------------------------------------
// C51: locked fields / key-value entries never change again
// ------------------------------------------------------------------------------------------
fn lock_state(structure: Option<&SubstateSystemStructure>, bytes: &[u8]) -> Option<bool> {
    match structure? {
        SubstateSystemStructure::ObjectField(_) | SubstateSystemStructure::SystemField(_) => {
            let v: FieldSubstate<ScryptoValue> = scrypto_decode(bytes).ok()?;
            Some(v.lock_status() == LockStatus::Locked)
        }
        SubstateSystemStructure::KeyValueStoreEntry(_) | SubstateSystemStructure::ObjectKeyValuePartitionEntry(_) => {
            let v: KeyValueEntrySubstate<ScryptoValue> = scrypto_decode(bytes).ok()?;
            Some(v.lock_status() == LockStatus::Locked)
        }
        _ => None,
    }
}

fn m_c51_locked(shard: &mut Shard, hist: &mut History, obs: &Obs, commit: &CommitResult, touched: &[Touched]) {
    // index the receipt's structure by db keys
    let mut structure: BTreeMap<(NodeId, u8, Vec<u8>), &SubstateSystemStructure> = BTreeMap::new();
    for (node, parts) in &commit.system_structure.substate_system_structures {
        for (p, subs) in parts {
            for (k, s) in subs {
                structure.insert((*node, p.0, SpreadPrefixKeyMapper::to_db_sort_key(k).0), s);
            }
        }
    }
    for t in touched {
        let key = (t.node, t.partition.0, t.sort_key.0.clone());
        let st = structure.get(&key).copied();
        // previously locked (remembered from an earlier transaction of this history, or decodable now)
        let was_locked_bytes: Option<Vec<u8>> = hist.locked.get(&key).cloned().or_else(|| {
            let old = t.old.as_ref()?;
            if lock_state(st, old)? {
                Some(old.clone())
            } else {
                None
            }
        });
        if let Some(lb) = was_locked_bytes {
            shard.count("c51:writes_to_locked_substates_examined");
            if t.new.as_ref() != Some(&lb) && !obs.meta.is_system {
                shard.violation_for("C51", "locked-substate-changed", detail(obs.meta, json!({"node": node_hex(&t.node), "entity_type": format!("{:?}", t.node.entity_type()),
                    "partition": t.partition.0, "sort_key": hex(&t.sort_key.0), "locked_value": hex(&lb), "new_value": t.new.as_ref().map(|x| hex(x)), "structure": format!("{:?}", st)})));
            }
        }
        if let Some(new) = &t.new {
            if lock_state(st, new) == Some(true) {
                if hist.locked.len() < 200_000 && hist.locked.insert(key, new.clone()).is_none() {
                    shard.count("c51:substates_becoming_locked");
                }
            }
        }
    }
}
