//! Raw-substate decoding helpers shared by the ledger monitors. These read the stored bytes
//! directly (database key mapping + SBOR decode of the substate types); the monitors' oracles
//! (sums, conservation equations, orderings) are computed from these values.
use crate::prelude::*;

pub type Db = InMemorySubstateDatabase;

pub fn raw(db: &Db, node: &NodeId, partition: PartitionNumber, key: &SubstateKey) -> Option<Vec<u8>> {
    db.get_raw_substate_by_db_key(
        &SpreadPrefixKeyMapper::to_db_partition_key(node, partition),
        &SpreadPrefixKeyMapper::to_db_sort_key(key),
    )
}

pub fn type_info(db: &Db, node: &NodeId) -> Option<TypeInfoSubstate> {
    let bytes = raw(db, node, TYPE_INFO_FIELD_PARTITION, &TypeInfoField::TypeInfo.into())?;
    scrypto_decode(&bytes).ok()
}

pub fn object_info(db: &Db, node: &NodeId) -> Option<ObjectInfo> {
    match type_info(db, node)? {
        TypeInfoSubstate::Object(o) => Some(o),
        _ => None,
    }
}

/// Outer object (e.g. the resource manager of a vault).
pub fn outer_object(db: &Db, node: &NodeId) -> Option<GlobalAddress> {
    match object_info(db, node)?.blueprint_info.outer_obj_info {
        OuterObjectInfo::Some { outer_object } => Some(outer_object),
        OuterObjectInfo::None => None,
    }
}

pub fn is_fungible_vault(node: &NodeId) -> bool {
    node.entity_type() == Some(EntityType::InternalFungibleVault)
}
pub fn is_non_fungible_vault(node: &NodeId) -> bool {
    node.entity_type() == Some(EntityType::InternalNonFungibleVault)
}
pub fn is_vault(node: &NodeId) -> bool {
    is_fungible_vault(node) || is_non_fungible_vault(node)
}

pub fn fungible_vault_balance(db: &Db, vault: &NodeId) -> Option<Decimal> {
    let bytes = raw(db, vault, MAIN_BASE_PARTITION, &FungibleVaultField::Balance.into())?;
    let s: FungibleVaultBalanceFieldSubstate = scrypto_decode(&bytes).ok()?;
    Some(s.into_payload().fully_update_and_into_latest_version().amount())
}

pub fn non_fungible_vault_amount(db: &Db, vault: &NodeId) -> Option<Decimal> {
    let bytes = raw(db, vault, MAIN_BASE_PARTITION, &NonFungibleVaultField::Balance.into())?;
    let s: NonFungibleVaultBalanceFieldSubstate = scrypto_decode(&bytes).ok()?;
    Some(s.into_payload().fully_update_and_into_latest_version().amount)
}

pub fn vault_amount(db: &Db, vault: &NodeId) -> Option<Decimal> {
    if is_fungible_vault(vault) {
        fungible_vault_balance(db, vault)
    } else {
        non_fungible_vault_amount(db, vault)
    }
}

/// Partition holding the ids of a non-fungible vault (its only collection).
pub fn nf_vault_index_partition() -> PartitionNumber {
    MAIN_BASE_PARTITION.at_offset(PartitionOffset(1u8)).unwrap()
}

/// Ids stored in a non-fungible vault (decoded from the index partition's map keys).
pub fn non_fungible_vault_ids(db: &Db, vault: &NodeId) -> Vec<NonFungibleLocalId> {
    let pk = SpreadPrefixKeyMapper::to_db_partition_key(vault, nf_vault_index_partition());
    db.list_raw_values_from_db_key(&pk, None)
        .filter_map(|(sort_key, _)| {
            let key = SpreadPrefixKeyMapper::map_from_db_sort_key(&sort_key);
            scrypto_decode::<NonFungibleLocalId>(&key).ok()
        })
        .collect()
}

pub fn fungible_total_supply(db: &Db, resource: &NodeId) -> Option<Decimal> {
    let bytes = raw(db, resource, MAIN_BASE_PARTITION, &FungibleResourceManagerField::TotalSupply.into())?;
    let s: FungibleResourceManagerTotalSupplyFieldSubstate = scrypto_decode(&bytes).ok()?;
    Some(s.into_payload().fully_update_and_into_latest_version())
}

pub fn non_fungible_total_supply(db: &Db, resource: &NodeId) -> Option<Decimal> {
    let bytes = raw(db, resource, MAIN_BASE_PARTITION, &NonFungibleResourceManagerField::TotalSupply.into())?;
    let s: NonFungibleResourceManagerTotalSupplyFieldSubstate = scrypto_decode(&bytes).ok()?;
    Some(s.into_payload().fully_update_and_into_latest_version())
}

pub fn total_supply(db: &Db, resource: &NodeId) -> Option<Decimal> {
    match resource.entity_type() {
        Some(EntityType::GlobalFungibleResourceManager) => fungible_total_supply(db, resource),
        Some(EntityType::GlobalNonFungibleResourceManager) => non_fungible_total_supply(db, resource),
        _ => None,
    }
}

pub fn divisibility(db: &Db, resource: &NodeId) -> Option<u8> {
    let bytes = raw(db, resource, MAIN_BASE_PARTITION, &FungibleResourceManagerField::Divisibility.into())?;
    let s: FungibleResourceManagerDivisibilityFieldSubstate = scrypto_decode(&bytes).ok()?;
    Some(s.into_payload().fully_update_and_into_latest_version())
}

pub fn non_fungible_id_type(db: &Db, resource: &NodeId) -> Option<NonFungibleIdType> {
    let bytes = raw(db, resource, MAIN_BASE_PARTITION, &NonFungibleResourceManagerField::IdType.into())?;
    let s: NonFungibleResourceManagerIdTypeFieldSubstate = scrypto_decode(&bytes).ok()?;
    Some(s.into_payload().fully_update_and_into_latest_version())
}

#[derive(Debug, Clone, PartialEq, Eq)]
pub struct ConsensusClock {
    pub epoch: u64,
    pub round: u64,
    pub milli: i64,
    pub minute: i32,
}

pub fn consensus_clock(db: &Db) -> Option<ConsensusClock> {
    let node = CONSENSUS_MANAGER.as_node_id();
    let st: ConsensusManagerStateFieldSubstate =
        scrypto_decode(&raw(db, node, MAIN_BASE_PARTITION, &ConsensusManagerField::State.into())?).ok()?;
    let st = st.into_payload().fully_update_and_into_latest_version();
    let ms: ConsensusManagerProposerMilliTimestampFieldSubstate =
        scrypto_decode(&raw(db, node, MAIN_BASE_PARTITION, &ConsensusManagerField::ProposerMilliTimestamp.into())?).ok()?;
    let ms = ms.into_payload().fully_update_and_into_latest_version();
    let mi: ConsensusManagerProposerMinuteTimestampFieldSubstate =
        scrypto_decode(&raw(db, node, MAIN_BASE_PARTITION, &ConsensusManagerField::ProposerMinuteTimestamp.into())?).ok()?;
    let mi = mi.into_payload().fully_update_and_into_latest_version();
    Some(ConsensusClock { epoch: st.epoch.number(), round: st.round.number(), milli: ms.epoch_milli, minute: mi.epoch_minute })
}

/// One substate touched by a commit, at database-key level, with its value before and after.
#[derive(Debug, Clone)]
pub struct Touched {
    pub node: NodeId,
    pub partition: PartitionNumber,
    pub sort_key: DbSortKey,
    pub old: Option<Vec<u8>>,
    pub new: Option<Vec<u8>>,
}

/// All substates named by `updates`, with old values from `pre` and new values from `post`.
pub fn touched(pre: &Db, post: &Db, updates: &StateUpdates) -> Vec<Touched> {
    let mut out = vec![];
    let dbu = updates.create_database_updates();
    for (node_key, nu) in &dbu.node_updates {
        let node = SpreadPrefixKeyMapper::from_db_node_key(node_key);
        for (pnum, pu) in &nu.partition_updates {
            let pk = DbPartitionKey { node_key: node_key.clone(), partition_num: *pnum };
            let mut keys: Vec<DbSortKey> = match pu {
                PartitionDatabaseUpdates::Delta { substate_updates } => substate_updates.keys().cloned().collect(),
                PartitionDatabaseUpdates::Reset { new_substate_values } => {
                    let mut k: Vec<DbSortKey> = pre.list_raw_values_from_db_key(&pk, None).map(|(k, _)| k).collect();
                    k.extend(new_substate_values.keys().cloned());
                    k
                }
            };
            keys.sort();
            keys.dedup();
            for k in keys {
                out.push(Touched {
                    node,
                    partition: PartitionNumber(*pnum),
                    old: pre.get_raw_substate_by_db_key(&pk, &k),
                    new: post.get_raw_substate_by_db_key(&pk, &k),
                    sort_key: k,
                });
            }
        }
    }
    out
}

pub fn dec_to_big(d: Decimal) -> num_bigint::BigInt {
    num_bigint::BigInt::from_signed_bytes_le(&d.to_vec())
}

pub fn node_hex(n: &NodeId) -> String {
    rv_common::hex(n.as_bytes())
}
