//! Shared ledger workload engine + global monitor pipeline (DESIGN §2.3).
pub mod prelude;
pub mod decode;
pub mod ledger;
pub mod monitors;
pub mod walkers;
pub mod actions;

pub use ledger::*;
pub use monitors::{outcome_class, History, TxMeta};
