//! Whole-database walkers (C04 supply/vault invariants + full event replay, C05 well-formedness).
//! Own walkers written from the property text; the repository's own checkers are run as a
//! second opinion (their failure is reported as a violation too).
use crate::decode::*;
use crate::ledger::Ledger;
use num_bigint::BigInt;
use rv_common::*;
use crate::prelude::*;
use serde_json::json;
use std::collections::{BTreeMap, BTreeSet};

pub fn walk_all(shard: &mut Shard, ledger: &Ledger, at: &str) {
    walk_c04(shard, ledger, at);
    walk_c05(shard, ledger, at);
}

fn all_partitions(db: &Db) -> Vec<(NodeId, PartitionNumber)> {
    db.list_partition_keys()
        .map(|pk| (SpreadPrefixKeyMapper::from_db_node_key(&pk.node_key), PartitionNumber(pk.partition_num)))
        .collect()
}

pub fn walk_c04(shard: &mut Shard, ledger: &Ledger, at: &str) {
    let db = ledger.db();
    shard.count("c04:database_walks");
    let parts = all_partitions(db);
    let nodes: BTreeSet<NodeId> = parts.iter().map(|(n, _)| *n).collect();
    let mut by_resource: BTreeMap<NodeId, BigInt> = BTreeMap::new();
    let mut vault_balance: BTreeMap<NodeId, BigInt> = BTreeMap::new();
    for v in nodes.iter().filter(|n| is_vault(n)) {
        let Some(res) = outer_object(db, v) else {
            shard.violation_for("C04", "vault-without-resource", json!({"at": at, "vault": node_hex(v)}));
            continue;
        };
        let amount = vault_amount(db, v).unwrap_or(Decimal::ZERO);
        if amount.is_negative() {
            shard.violation_for("C04", "negative-vault-balance", json!({"at": at, "vault": node_hex(v), "balance": amount.to_string()}));
        }
        if is_non_fungible_vault(v) {
            let ids = non_fungible_vault_ids(db, v).len();
            if Decimal::from(ids as u64) != amount {
                shard.violation_for("C04", "nf-vault-count-differs-from-ids-held", json!({"at": at, "vault": node_hex(v), "amount": amount.to_string(), "ids": ids}));
            }
        }
        *by_resource.entry(res.into_node_id()).or_default() += dec_to_big(amount);
        vault_balance.insert(*v, dec_to_big(amount));
        shard.count("c04:vaults_walked");
    }
    let resources: Vec<NodeId> = nodes
        .iter()
        .filter(|n| matches!(n.entity_type(), Some(EntityType::GlobalFungibleResourceManager) | Some(EntityType::GlobalNonFungibleResourceManager)))
        .cloned()
        .collect();
    let free_credit = ledger.hist.free_credit_used;
    for r in &resources {
        shard.count("c04:resources_walked");
        if let Some(ts) = total_supply(db, r) {
            shard.count("c04:supply_tracking_resources_walked");
            let sum = by_resource.get(r).cloned().unwrap_or_default();
            if dec_to_big(ts) != sum && !(free_credit && *r == XRD.into_node_id()) {
                shard.violation_for("C04", "total-supply-differs-from-sum-of-vaults", json!({"at": at, "resource": node_hex(r), "total_supply_subunits": dec_to_big(ts).to_string(), "sum_of_vaults_subunits": sum.to_string()}));
            }
        }
    }
    // full replay of all events since genesis
    let one = dec_to_big(Decimal::ONE);
    let mut exp_vault: BTreeMap<NodeId, BigInt> = BTreeMap::new();
    let mut exp_supply: BTreeMap<NodeId, BigInt> = BTreeMap::new();
    let mut nevents = 0u64;
    for tx_events in ledger.sim.collected_events() {
        for (id, data) in tx_events {
            let Emitter::Method(node, _) = &id.0 else { continue };
            let name = id.1.as_str();
            nevents += 1;
            if is_fungible_vault(node) {
                let amt = scrypto_decode::<fungible_vault::DepositEvent>(data).ok().map(|e| dec_to_big(e.amount));
                match name {
                    "DepositEvent" => *exp_vault.entry(*node).or_default() += amt.unwrap_or_default(),
                    "WithdrawEvent" | "RecallEvent" | "PayFeeEvent" => *exp_vault.entry(*node).or_default() -= amt.unwrap_or_default(),
                    _ => {}
                }
            } else if is_non_fungible_vault(node) {
                let n = scrypto_decode::<non_fungible_vault::DepositEvent>(data).ok().map(|e| BigInt::from(e.ids.len()) * &one);
                match name {
                    "DepositEvent" => *exp_vault.entry(*node).or_default() += n.unwrap_or_default(),
                    "WithdrawEvent" | "RecallEvent" => *exp_vault.entry(*node).or_default() -= n.unwrap_or_default(),
                    _ => {}
                }
            } else {
                match name {
                    "MintFungibleResourceEvent" => {
                        if let Ok(e) = scrypto_decode::<MintFungibleResourceEvent>(data) {
                            *exp_supply.entry(*node).or_default() += dec_to_big(e.amount)
                        }
                    }
                    "BurnFungibleResourceEvent" => {
                        if let Ok(e) = scrypto_decode::<BurnFungibleResourceEvent>(data) {
                            *exp_supply.entry(*node).or_default() -= dec_to_big(e.amount)
                        }
                    }
                    "MintNonFungibleResourceEvent" => {
                        if let Ok(e) = scrypto_decode::<MintNonFungibleResourceEvent>(data) {
                            *exp_supply.entry(*node).or_default() += BigInt::from(e.ids.len()) * &one
                        }
                    }
                    "BurnNonFungibleResourceEvent" => {
                        if let Ok(e) = scrypto_decode::<BurnNonFungibleResourceEvent>(data) {
                            *exp_supply.entry(*node).or_default() -= BigInt::from(e.ids.len()) * &one
                        }
                    }
                    _ => {}
                }
            }
        }
    }
    shard.add("c04:events_replayed", nevents);
    if !free_credit {
        let mut all_vaults: BTreeSet<NodeId> = vault_balance.keys().cloned().collect();
        all_vaults.extend(exp_vault.keys().cloned());
        for v in all_vaults {
            let stored = vault_balance.get(&v).cloned().unwrap_or_default();
            let replayed = exp_vault.get(&v).cloned().unwrap_or_default();
            if stored != replayed {
                shard.violation_for("C04", "event-replay-differs-from-stored-vault-balance", json!({"at": at, "vault": node_hex(&v), "stored_subunits": stored.to_string(), "replayed_subunits": replayed.to_string()}));
            }
        }
        let mut all_res: BTreeSet<NodeId> = by_resource.keys().cloned().collect();
        all_res.extend(exp_supply.keys().cloned());
        for r in all_res {
            let held = by_resource.get(&r).cloned().unwrap_or_default();
            let replayed = exp_supply.get(&r).cloned().unwrap_or_default();
            if held != replayed {
                shard.violation_for("C04", "event-replay-differs-from-resource-held-in-vaults", json!({"at": at, "resource": node_hex(&r), "held_in_vaults_subunits": held.to_string(), "minted_minus_burned_subunits": replayed.to_string()}));
            }
        }
    }
    // second opinion: the repository's resource checker + reconciler
    let second = catch(std::panic::AssertUnwindSafe(|| -> Result<(), String> {
        let mut checker = SystemDatabaseChecker::<ResourceDatabaseChecker>::default();
        let db_results = checker.check_db(db).map_err(|e| format!("{e:?}"))?;
        let ev = SystemEventChecker::<ResourceEventChecker>::new()
            .check_all_events(db, ledger.sim.collected_events())
            .map_err(|e| format!("{e:?}"))?;
        if !free_credit {
            ResourceReconciler::reconcile(&db_results.1, &ev).map_err(|e| format!("{e:?}"))?;
        }
        Ok(())
    }));
    match second {
        Ok(Ok(())) => shard.count("c04:repo_checker_second_opinions_ok"),
        Ok(Err(e)) => shard.violation_for("C04", "repo-resource-checker-reports-inconsistency", json!({"at": at, "error": e.chars().take(800).collect::<String>()})),
        // The repository's checker is a test helper with `todo!()` arms (e.g. it cannot walk a vault
        // that has a FreezeStatus field): then the second opinion is simply unavailable.
        Err(p) if p.message.contains("not yet implemented") || p.message.contains("not implemented") => shard.count("c04:repo_checker_second_opinion_unavailable"),
        Err(p) => shard.violation_for("C04", format!("repo-resource-checker-panicked@{}", p.site()), json!({"at": at, "panic": p.summary()})),
    }
}

fn expected_blueprint(et: EntityType) -> Option<(PackageAddress, &'static [&'static str])> {
    Some(match et {
        EntityType::GlobalPackage => (PACKAGE_PACKAGE, &["Package"]),
        EntityType::GlobalFungibleResourceManager => (RESOURCE_PACKAGE, &["FungibleResourceManager"]),
        EntityType::GlobalNonFungibleResourceManager => (RESOURCE_PACKAGE, &["NonFungibleResourceManager"]),
        EntityType::InternalFungibleVault => (RESOURCE_PACKAGE, &["FungibleVault"]),
        EntityType::InternalNonFungibleVault => (RESOURCE_PACKAGE, &["NonFungibleVault"]),
        EntityType::GlobalConsensusManager => (CONSENSUS_MANAGER_PACKAGE, &["ConsensusManager"]),
        EntityType::GlobalValidator => (CONSENSUS_MANAGER_PACKAGE, &["Validator"]),
        EntityType::GlobalAccessController => (ACCESS_CONTROLLER_PACKAGE, &["AccessController"]),
        EntityType::GlobalAccount | EntityType::GlobalPreallocatedSecp256k1Account | EntityType::GlobalPreallocatedEd25519Account => (ACCOUNT_PACKAGE, &["Account"]),
        EntityType::GlobalIdentity | EntityType::GlobalPreallocatedSecp256k1Identity | EntityType::GlobalPreallocatedEd25519Identity => (IDENTITY_PACKAGE, &["Identity"]),
        EntityType::GlobalOneResourcePool => (POOL_PACKAGE, &["OneResourcePool"]),
        EntityType::GlobalTwoResourcePool => (POOL_PACKAGE, &["TwoResourcePool"]),
        EntityType::GlobalMultiResourcePool => (POOL_PACKAGE, &["MultiResourcePool"]),
        EntityType::GlobalTransactionTracker => (TRANSACTION_TRACKER_PACKAGE, &["TransactionTracker"]),
        EntityType::GlobalAccountLocker => (LOCKER_PACKAGE, &["AccountLocker"]),
        _ => return None,
    })
}

pub fn walk_c05(shard: &mut Shard, ledger: &Ledger, at: &str) {
    let db = ledger.db();
    shard.count("c05:database_walks");
    let parts = all_partitions(db);
    let mut partition_count: BTreeMap<NodeId, usize> = BTreeMap::new();
    let mut owners: BTreeMap<NodeId, Vec<NodeId>> = BTreeMap::new();
    let mut referenced: BTreeSet<NodeId> = BTreeSet::new();
    let mut substates = 0u64;
    for (node, part) in &parts {
        *partition_count.entry(*node).or_default() += 1;
        let pk = SpreadPrefixKeyMapper::to_db_partition_key(node, *part);
        for (_k, value) in db.list_raw_values_from_db_key(&pk, None) {
            substates += 1;
            match IndexedScryptoValue::from_slice(&value) {
                Err(e) => shard.violation_for("C05", "stored-substate-not-decodable", json!({"at": at, "node": node_hex(node), "partition": part.0, "error": format!("{e:?}")})),
                Ok(v) => {
                    for o in v.owned_nodes() {
                        owners.entry(*o).or_default().push(*node);
                    }
                    for r in v.references() {
                        if !r.is_global() {
                            shard.violation_for("C05", "stored-reference-to-non-global-node", json!({"at": at, "holder": node_hex(node), "partition": part.0, "referenced": node_hex(r)}));
                        }
                        referenced.insert(*r);
                    }
                }
            }
        }
    }
    shard.add("c05:substates_walked", substates);
    for (node, _) in &partition_count {
        shard.count("c05:nodes_walked");
        let n_owners = owners.get(node).map(|v| v.len()).unwrap_or(0);
        if node.is_global() {
            if n_owners != 0 {
                shard.violation_for("C05", "global-node-is-owned", json!({"at": at, "node": node_hex(node)}));
            }
        } else if n_owners != 1 {
            shard.violation_for("C05", format!("internal-node-with-{}-owners", if n_owners == 0 { "zero" } else { "several" }), json!({"at": at, "node": node_hex(node), "entity_type": format!("{:?}", node.entity_type()), "owners": owners.get(node).map(|v| v.iter().map(node_hex).collect::<Vec<_>>())}));
        }
        // entity type vs TypeInfo
        match type_info(db, node) {
            None => shard.violation_for("C05", "entity-without-type-info", json!({"at": at, "node": node_hex(node)})),
            Some(TypeInfoSubstate::Object(info)) => {
                if let Some(et) = node.entity_type() {
                    if let Some((pkg, names)) = expected_blueprint(et) {
                        let bp = &info.blueprint_info.blueprint_id;
                        if bp.package_address != pkg || !names.contains(&bp.blueprint_name.as_str()) {
                            shard.violation_for("C05", "entity-type-does-not-match-blueprint", json!({"at": at, "node": node_hex(node), "entity_type": format!("{et:?}"), "blueprint": format!("{:?}", bp)}));
                        }
                    }
                    if et == EntityType::InternalKeyValueStore {
                        shard.violation_for("C05", "entity-type-does-not-match-blueprint", json!({"at": at, "node": node_hex(node), "entity_type": "InternalKeyValueStore", "type_info": "Object"}));
                    }
                    if info.is_global() != node.is_global() {
                        shard.violation_for("C05", "globalness-of-type-info-differs-from-address", json!({"at": at, "node": node_hex(node)}));
                    }
                }
            }
            Some(TypeInfoSubstate::KeyValueStore(_)) => {
                if node.entity_type() != Some(EntityType::InternalKeyValueStore) {
                    shard.violation_for("C05", "entity-type-does-not-match-blueprint", json!({"at": at, "node": node_hex(node), "entity_type": format!("{:?}", node.entity_type()), "type_info": "KeyValueStore"}));
                }
            }
            Some(_) => {}
        }
    }
    for (o, by) in &owners {
        if !partition_count.contains_key(o) {
            shard.violation_for("C05", "owned-node-has-no-state", json!({"at": at, "node": node_hex(o), "owner": by.first().map(node_hex)}));
        }
    }
    for r in &referenced {
        if !partition_count.contains_key(r) {
            shard.violation_for("C05", "referenced-entity-has-no-state", json!({"at": at, "node": node_hex(r)}));
        }
    }
    // second opinion + schema conformance and role assignment validity: the repository's checkers
    let second = catch(std::panic::AssertUnwindSafe(|| -> Result<usize, String> {
        KernelDatabaseChecker::new().check_db(db).map_err(|e| format!("kernel: {e:?}"))?;
        let mut checker = SystemDatabaseChecker::<RoleAssignmentDatabaseChecker>::default();
        let res = checker.check_db(db).map_err(|e| format!("system: {e:?}"))?;
        if !res.1.is_empty() {
            return Err(format!("role assignment violations: {:?}", res.1));
        }
        Ok(res.0.substate_count)
    }));
    match second {
        Ok(Ok(n)) => {
            shard.count("c05:repo_checker_schema_validations_ok");
            shard.add("c05:substates_schema_validated", n as u64);
        }
        Ok(Err(e)) => {
            let class = e.split(|c: char| !c.is_alphanumeric() && c != ':' && c != ' ').next().unwrap_or("").chars().take(60).collect::<String>();
            shard.violation_for("C05", format!("repo-db-checker-reports:{class}"), json!({"at": at, "error": e.chars().take(1200).collect::<String>()}))
        }
        Err(p) => shard.violation_for("C05", format!("repo-db-checker-panicked@{}", p.site()), json!({"at": at, "panic": p.summary()})),
    }
}
