//! C24: checked +, -, *, /, neg, abs are exact-or-overflow (truncation toward zero), conversions
//! are exact or fail, nothing panics.
use crate::fx::*;
use num_bigint::BigInt;
use num_traits::{Signed, Zero};
use radix_common::math::*;
use rv_common::*;
use serde_json::json;
use std::time::Duration;

#[derive(Clone, Copy, Debug, PartialEq, Eq, Hash)]
pub enum Op {
    Add,
    Sub,
    Mul,
    Div,
    Neg,
    Abs,
}
const OPS: [Op; 6] = [Op::Add, Op::Sub, Op::Mul, Op::Div, Op::Neg, Op::Abs];

/// Exact mathematical result in subunits (None = undefined: division by zero).
pub fn oracle<F: Fx>(op: Op, a: &BigInt, b: &BigInt) -> Option<BigInt> {
    let one = F::one_big();
    Some(match op {
        Op::Add => a + b,
        Op::Sub => a - b,
        Op::Mul => trunc_div(&(a * b), &one),
        Op::Div => {
            if b.is_zero() {
                return None;
            }
            trunc_div(&(a * &one), b)
        }
        Op::Neg => -a,
        Op::Abs => a.abs(),
    })
}

fn apply<F: Fx>(op: Op, a: F, b: F) -> Option<F> {
    match op {
        Op::Add => a.add(b),
        Op::Sub => a.sub(b),
        Op::Mul => a.mul(b),
        Op::Div => a.div(b),
        Op::Neg => a.neg(),
        Op::Abs => a.abs(),
    }
}

/// Operands constructed backwards so that the exact result lands within a few units of a
/// range limit or exactly on a truncation boundary.
fn targeted<F: Fx>(rng: &mut Rng, op: Op) -> Option<(BigInt, BigInt, &'static str)> {
    let one = F::one_big();
    let target = match rng.below(4) {
        0 => F::max_big() + small_delta(rng),
        1 => F::min_big() + small_delta(rng),
        2 => F::max_big() - rand_bits(rng, 20).abs(),
        _ => F::min_big() + rand_bits(rng, 20).abs(),
    };
    match op {
        Op::Mul => {
            let a = clamp::<F>(rand_bits(rng, F::bits() - 1));
            if a.is_zero() {
                return None;
            }
            let b = trunc_div(&(&target * &one), &a) + small_delta(rng);
            if !F::in_range(&b) {
                return None;
            }
            Some((a, b, "targeted_mul"))
        }
        Op::Div => {
            let b = clamp::<F>(rand_bits(rng, F::bits() - 1));
            if b.is_zero() {
                return None;
            }
            let a = trunc_div(&(&target * &b), &one) + small_delta(rng);
            if !F::in_range(&a) {
                return None;
            }
            Some((a, b, "targeted_div"))
        }
        Op::Add => {
            let a = clamp::<F>(rand_bits(rng, F::bits() - 1));
            let b = &target - &a;
            if !F::in_range(&b) {
                return None;
            }
            Some((a, b, "targeted_add"))
        }
        Op::Sub => {
            let a = clamp::<F>(rand_bits(rng, F::bits() - 1));
            let b = &a - &target;
            if !F::in_range(&b) {
                return None;
            }
            Some((a, b, "targeted_sub"))
        }
        _ => None,
    }
}

pub fn check_case<F: Fx>(shard: &mut Shard, op: Op, a: &BigInt, b: &BigInt, class: (&str, &str)) {
    let fa = F::from_big(a).expect("generator keeps operands in range");
    let fb = F::from_big(b).expect("generator keeps operands in range");
    shard.eval();
    let expected = oracle::<F>(op, a, b);
    let got = catch(move || apply(op, fa, fb));
    let opn = format!("{:?}", op).to_lowercase();
    let detail = |got: String| {
        json!({"type": F::NAME, "op": opn, "a_subunits": a.to_string(), "b_subunits": b.to_string(),
               "expected_subunits": expected.as_ref().map(|e| e.to_string()), "got": got,
               "a_class": class.0, "b_class": class.1})
    };
    shard.count(&format!("op:{}:{}", F::NAME, opn));
    match got {
        Err(p) => shard.violation(format!("{}:{}:panic@{}", F::NAME, opn, p.site()), detail(p.summary())),
        Ok(res) => {
            let exp_repr = expected.as_ref().filter(|e| F::in_range(e));
            match (res, exp_repr) {
                (Some(r), Some(e)) => {
                    shard.count("outcome:some");
                    if r.to_big() != *e {
                        shard.violation(format!("{}:{}:wrong-value", F::NAME, opn), detail(r.to_big().to_string()));
                    }
                }
                (None, None) => {
                    shard.count("outcome:none");
                    if expected.is_none() {
                        shard.count("outcome:div-by-zero");
                    }
                }
                (Some(r), None) => {
                    shard.violation(format!("{}:{}:some-but-unrepresentable", F::NAME, opn), detail(r.to_big().to_string()));
                }
                (None, Some(e)) => {
                    let sig = if *e == F::min_big() {
                        format!("{}:{}:result-equals-MIN-rejected", F::NAME, opn)
                    } else {
                        format!("{}:{}:none-but-representable", F::NAME, opn)
                    };
                    shard.violation(sig, detail("None".into()));
                }
            }
            if let Some(e) = &expected {
                // near-limit bookkeeping
                let dist_max = (F::max_big() - e).abs();
                let dist_min = (e - F::min_big()).abs();
                if dist_max <= BigInt::from(4) || dist_min <= BigInt::from(4) {
                    shard.count("result_within_4_units_of_range_limit");
                }
            }
        }
    }
    let trivial = a.is_zero() || b.is_zero() || *a == F::one_big() || *b == F::one_big();
    if !trivial || matches!(op, Op::Neg | Op::Abs) {
        shard.nontrivial(&(F::NAME, op, a.to_string(), if matches!(op, Op::Neg | Op::Abs) { String::new() } else { b.to_string() }));
    }
    shard.sample(|| detail(format!("{:?}", res_str::<F>(op, a, b))));
}

fn res_str<F: Fx>(op: Op, a: &BigInt, b: &BigInt) -> Option<String> {
    let fa = F::from_big(a)?;
    let fb = F::from_big(b)?;
    catch(move || apply(op, fa, fb)).ok().flatten().map(|r| r.to_string())
}

fn one_arith<F: Fx>(rng: &mut Rng, shard: &mut Shard) {
    let op = *rng.pick(&OPS);
    if rng.chance(1, 4) {
        if let Some((a, b, cls)) = targeted::<F>(rng, op) {
            shard.count(&format!("class:{cls}"));
            check_case::<F>(shard, op, &a, &b, (cls, cls));
            return;
        }
    }
    let (a, ca) = gen_value::<F>(rng);
    let (b, cb) = match rng.below(12) {
        0 => (a.clone(), "same_as_a"),
        1 => (clamp::<F>(-&a), "neg_a"),
        2 => (F::one_big(), "one"),
        3 => (-F::one_big(), "minus_one"),
        _ => gen_value::<F>(rng),
    };
    shard.count(&format!("class:{ca}"));
    check_case::<F>(shard, op, &a, &b, (ca, cb));
}

// ------------------------------------------------------------------------------------------
// conversions
// ------------------------------------------------------------------------------------------
fn conv_violation(shard: &mut Shard, sig: &str, detail: serde_json::Value) {
    shard.violation(format!("conv:{sig}"), detail);
}

macro_rules! prim_conv {
    ($shard:ident, $rng:ident, $F:ty, $t:ty) => {{
        // from primitive: exact
        let x: $t = match $rng.below(5) {
            0 => <$t>::MAX,
            1 => <$t>::MIN,
            2 => 0 as $t,
            3 => ($rng.u128() as $t) >> ($rng.below(<$t>::BITS as u64) as u32),
            _ => $rng.u128() as $t,
        };
        $shard.eval();
        $shard.count(concat!("conv:from_", stringify!($t)));
        let got = catch(move || <$F>::from(x));
        let exp = BigInt::from(x) * <$F as Fx>::one_big();
        match got {
            Err(p) => conv_violation($shard, &format!("{}:from_{}:panic@{}", <$F as Fx>::NAME, stringify!($t), p.site()), json!({"x": x.to_string()})),
            Ok(v) => {
                if v.to_big() != exp {
                    conv_violation($shard, &format!("{}:from_{}:wrong-value", <$F as Fx>::NAME, stringify!($t)), json!({"x": x.to_string(), "got": v.to_big().to_string()}));
                }
            }
        }
        $shard.nontrivial(&(<$F as Fx>::NAME, stringify!($t), x.to_string()));
        // to primitive: exact or fail; never panics
        let (d, _) = match $rng.below(3) {
            0 => (clamp::<$F>(BigInt::from(x) * <$F as Fx>::one_big() + BigInt::from($rng.irange(-1, 1)) * BigInt::from($rng.below(2))), "int"),
            _ => gen_value::<$F>($rng),
        };
        let fd = <$F as Fx>::from_big(&d).unwrap();
        $shard.eval();
        $shard.count(concat!("conv:to_", stringify!($t)));
        match catch(move || <$t>::try_from(fd)) {
            Err(p) => conv_violation($shard, &format!("{}:to_{}:panic@{}", <$F as Fx>::NAME, stringify!($t), p.site()), json!({"d_subunits": d.to_string()})),
            Ok(Ok(v)) => {
                $shard.count("conv:to_prim_ok");
                if BigInt::from(v) * <$F as Fx>::one_big() != d {
                    conv_violation($shard, &format!("{}:to_{}:inexact", <$F as Fx>::NAME, stringify!($t)), json!({"d_subunits": d.to_string(), "got": v.to_string()}));
                }
            }
            Ok(Err(_)) => {
                $shard.count("conv:to_prim_err");
                // must fail only if it is not an exactly representable integer of that type
                let one = <$F as Fx>::one_big();
                if (&d % &one).is_zero() {
                    let q = &d / &one;
                    if q >= BigInt::from(<$t>::MIN) && q <= BigInt::from(<$t>::MAX) {
                        conv_violation($shard, &format!("{}:to_{}:failed-but-exact", <$F as Fx>::NAME, stringify!($t)), json!({"d_subunits": d.to_string()}));
                    }
                }
            }
        }
    }};
}

macro_rules! bnum_conv {
    ($shard:ident, $rng:ident, $F:ty, $t:ty, $signed:expr) => {{
        // from big integer types: exact or fail (fail iff x * 10^scale is out of range)
        let nbytes = (<$t>::BITS / 8) as usize;
        let mut raw = match $rng.below(4) {
            0 => $rng.bytes(nbytes),
            1 => {
                // small magnitude
                let mut b = vec![0u8; nbytes];
                let k = $rng.usize_below(nbytes.min(20)) + 1;
                let r = $rng.bytes(k);
                b[..k].copy_from_slice(&r);
                b
            }
            2 => {
                // around the largest accepted integer
                let lim = trunc_div(&<$F as Fx>::max_big(), &<$F as Fx>::one_big()) + BigInt::from($rng.irange(-2, 2));
                let lim = if $signed && $rng.bool() { -lim } else { lim };
                let mut v = lim.to_signed_bytes_le();
                let fill = if lim.is_negative() { 0xFF } else { 0 };
                v.resize(nbytes, fill);
                v
            }
            _ => vec![if $signed && $rng.bool() { 0xFF } else { 0 }; nbytes],
        };
        if !$signed {
            // keep as unsigned value: nothing to do, interpretation below is unsigned
        }
        raw.truncate(nbytes);
        let x = <$t>::try_from(&raw[..]).expect("length ok");
        let xb = if $signed {
            BigInt::from_signed_bytes_le(&raw)
        } else {
            let mut r = raw.clone();
            r.push(0);
            BigInt::from_signed_bytes_le(&r)
        };
        $shard.eval();
        $shard.count(concat!("conv:try_from_", stringify!($t)));
        let exp = &xb * <$F as Fx>::one_big();
        match catch(move || <$F>::try_from(x)) {
            Err(p) => conv_violation($shard, &format!("{}:try_from_{}:panic@{}", <$F as Fx>::NAME, stringify!($t), p.site()), json!({"x": xb.to_string()})),
            Ok(Ok(v)) => {
                $shard.count("conv:bnum_ok");
                if v.to_big() != exp {
                    conv_violation($shard, &format!("{}:try_from_{}:wrong-value", <$F as Fx>::NAME, stringify!($t)), json!({"x": xb.to_string(), "got": v.to_big().to_string()}));
                }
            }
            Ok(Err(_)) => {
                $shard.count("conv:bnum_err");
                if <$F as Fx>::in_range(&exp) {
                    conv_violation($shard, &format!("{}:try_from_{}:failed-but-representable", <$F as Fx>::NAME, stringify!($t)), json!({"x": xb.to_string()}));
                }
            }
        }
        $shard.nontrivial(&(<$F as Fx>::NAME, stringify!($t), xb.to_string()));
    }};
}

fn one_conv(rng: &mut Rng, shard: &mut Shard) {
    match rng.below(6) {
        0 => {
            // Decimal -> PreciseDecimal exact; and back is identity
            let (d, cls) = gen_value::<Decimal>(rng);
            let fd = Decimal::from_big(&d).unwrap();
            shard.eval();
            shard.count("conv:dec_to_pdec");
            match catch(move || PreciseDecimal::from(fd)) {
                Err(p) => conv_violation(shard, &format!("dec->pdec:panic@{}", p.site()), json!({"d": d.to_string()})),
                Ok(pd) => {
                    if pd.to_big() != &d * pow10(18) {
                        conv_violation(shard, "dec->pdec:wrong-value", json!({"d": d.to_string(), "got": pd.to_big().to_string()}));
                    }
                    match catch(move || Decimal::try_from(pd)) {
                        Err(p) => conv_violation(shard, &format!("pdec->dec:panic@{}", p.site()), json!({"d": d.to_string()})),
                        Ok(Ok(back)) => {
                            if back.to_big() != d {
                                conv_violation(shard, "pdec->dec:roundtrip-wrong-value", json!({"d": d.to_string(), "got": back.to_big().to_string()}));
                            }
                        }
                        Ok(Err(_)) => {
                            let sig = if d == Decimal::min_big() { "pdec->dec:result-equals-MIN-rejected" } else { "pdec->dec:failed-but-representable" };
                            conv_violation(shard, sig, json!({"d": d.to_string(), "class": cls}));
                        }
                    }
                }
            }
            shard.nontrivial(&("dec->pdec", d.to_string()));
        }
        1 => {
            // PreciseDecimal -> Decimal truncates toward zero, fails iff out of range
            let (p, cls) = match rng.below(3) {
                0 => {
                    // around the Decimal range limits
                    let lim = if rng.bool() { Decimal::max_big() } else { Decimal::min_big() };
                    (lim * pow10(18) + rand_bits(rng, 70), "near_decimal_limit")
                }
                _ => gen_value::<PreciseDecimal>(rng),
            };
            let p = clamp::<PreciseDecimal>(p);
            let fp = PreciseDecimal::from_big(&p).unwrap();
            let exp = trunc_div(&p, &pow10(18));
            shard.eval();
            shard.count("conv:pdec_to_dec");
            match catch(move || Decimal::try_from(fp)) {
                Err(pn) => conv_violation(shard, &format!("pdec->dec:panic@{}", pn.site()), json!({"p": p.to_string()})),
                Ok(Ok(d)) => {
                    shard.count("conv:pdec_to_dec_ok");
                    if d.to_big() != exp {
                        conv_violation(shard, "pdec->dec:wrong-value", json!({"p": p.to_string(), "got": d.to_big().to_string(), "expected": exp.to_string()}));
                    }
                }
                Ok(Err(_)) => {
                    shard.count("conv:pdec_to_dec_err");
                    if Decimal::in_range(&exp) {
                        let sig = if exp == Decimal::min_big() { "pdec->dec:result-equals-MIN-rejected" } else { "pdec->dec:failed-but-representable" };
                        conv_violation(shard, sig, json!({"p": p.to_string(), "class": cls}));
                    }
                }
            }
            shard.nontrivial(&("pdec->dec", p.to_string()));
        }
        2 => match rng.below(12) {
            0 => prim_conv!(shard, rng, Decimal, i8),
            1 => prim_conv!(shard, rng, Decimal, i16),
            2 => prim_conv!(shard, rng, Decimal, i32),
            3 => prim_conv!(shard, rng, Decimal, i64),
            4 => prim_conv!(shard, rng, Decimal, i128),
            5 => prim_conv!(shard, rng, Decimal, isize),
            6 => prim_conv!(shard, rng, Decimal, u8),
            7 => prim_conv!(shard, rng, Decimal, u16),
            8 => prim_conv!(shard, rng, Decimal, u32),
            9 => prim_conv!(shard, rng, Decimal, u64),
            10 => prim_conv!(shard, rng, Decimal, u128),
            _ => prim_conv!(shard, rng, Decimal, usize),
        },
        3 => match rng.below(12) {
            0 => prim_conv!(shard, rng, PreciseDecimal, i8),
            1 => prim_conv!(shard, rng, PreciseDecimal, i16),
            2 => prim_conv!(shard, rng, PreciseDecimal, i32),
            3 => prim_conv!(shard, rng, PreciseDecimal, i64),
            4 => prim_conv!(shard, rng, PreciseDecimal, i128),
            5 => prim_conv!(shard, rng, PreciseDecimal, isize),
            6 => prim_conv!(shard, rng, PreciseDecimal, u8),
            7 => prim_conv!(shard, rng, PreciseDecimal, u16),
            8 => prim_conv!(shard, rng, PreciseDecimal, u32),
            9 => prim_conv!(shard, rng, PreciseDecimal, u64),
            10 => prim_conv!(shard, rng, PreciseDecimal, u128),
            _ => prim_conv!(shard, rng, PreciseDecimal, usize),
        },
        4 => match rng.below(10) {
            0 => bnum_conv!(shard, rng, Decimal, I192, true),
            1 => bnum_conv!(shard, rng, Decimal, I256, true),
            2 => bnum_conv!(shard, rng, Decimal, I320, true),
            3 => bnum_conv!(shard, rng, Decimal, I448, true),
            4 => bnum_conv!(shard, rng, Decimal, I512, true),
            5 => bnum_conv!(shard, rng, Decimal, U192, false),
            6 => bnum_conv!(shard, rng, Decimal, U256, false),
            7 => bnum_conv!(shard, rng, Decimal, U320, false),
            8 => bnum_conv!(shard, rng, Decimal, U448, false),
            _ => bnum_conv!(shard, rng, Decimal, U512, false),
        },
        _ => match rng.below(12) {
            0 => bnum_conv!(shard, rng, PreciseDecimal, I192, true),
            1 => bnum_conv!(shard, rng, PreciseDecimal, I256, true),
            2 => bnum_conv!(shard, rng, PreciseDecimal, I320, true),
            3 => bnum_conv!(shard, rng, PreciseDecimal, I384, true),
            4 => bnum_conv!(shard, rng, PreciseDecimal, I448, true),
            5 => bnum_conv!(shard, rng, PreciseDecimal, I512, true),
            6 => bnum_conv!(shard, rng, PreciseDecimal, U192, false),
            7 => bnum_conv!(shard, rng, PreciseDecimal, U256, false),
            8 => bnum_conv!(shard, rng, PreciseDecimal, U320, false),
            9 => bnum_conv!(shard, rng, PreciseDecimal, U384, false),
            10 => bnum_conv!(shard, rng, PreciseDecimal, U448, false),
            _ => bnum_conv!(shard, rng, PreciseDecimal, U512, false),
        },
    }
}

/// Mixed-operand operators (`Decimal op i128` ...): Some(r) ⇒ r exact; never panics.
fn one_mixed(rng: &mut Rng, shard: &mut Shard) {
    let (a, _) = gen_value::<Decimal>(rng);
    let fa = Decimal::from_big(&a).unwrap();
    let op = *rng.pick(&[Op::Add, Op::Sub, Op::Mul, Op::Div]);
    let x: i128 = match rng.below(4) {
        0 => rng.irange(-5, 5) as i128,
        1 => i128::MAX,
        2 => i128::MIN,
        _ => (rng.u128() as i128) >> rng.below(127),
    };
    let xb = BigInt::from(x) * Decimal::one_big();
    shard.eval();
    shard.count("mixed:decimal_op_i128");
    let got = catch(move || match op {
        Op::Add => fa.checked_add(x),
        Op::Sub => fa.checked_sub(x),
        Op::Mul => fa.checked_mul(x),
        _ => fa.checked_div(x),
    });
    match got {
        Err(p) => shard.violation(format!("Decimal:mixed-i128:panic@{}", p.site()), json!({"a": a.to_string(), "x": x.to_string(), "op": format!("{op:?}")})),
        Ok(Some(r)) => {
            let e = oracle::<Decimal>(op, &a, &xb);
            if e.as_ref() != Some(&r.to_big()) {
                shard.violation("Decimal:mixed-i128:wrong-value", json!({"a": a.to_string(), "x": x.to_string(), "op": format!("{op:?}"), "got": r.to_big().to_string()}));
            }
        }
        Ok(None) => {}
    }
    shard.nontrivial(&("mixed", a.to_string(), x));
}

pub fn spec() -> Spec {
    Spec::new(
        "C24",
        "exploration",
        "generated (type, op, a, b) instances: operand classes uniform / random bit length / near ±MAX / powers of ten / atto / half-units / sqrt(MAX) and operands constructed backwards so the exact result lands within a few units of a range limit; conversions from/to every integer type and between the two types. A case is non-trivial when no operand is 0 or 1 (unary ops and conversions always); distinct = distinct (type, op, operands).",
    )
    .assume("oracle: num-bigint exact integer arithmetic; a value's little-endian two's complement bytes (to_vec / TryFrom<&[u8]>) are trusted as its representation")
    .floor("outcome:some", 1000)
    .floor("outcome:none", 1000)
    .floor("result_within_4_units_of_range_limit", 100)
    .floor("conv:bnum_ok", 100)
    .floor("conv:bnum_err", 100)
}

pub fn run(args: &Args) -> i32 {
    let mut report = Report::new(args, spec());
    if let Some(path) = &args.replay {
        return replay(args, path, report);
    }
    let per_shard = scaled(args, args.tier.pick(3_000_000, 100_000_000));
    let budget = Duration::from_secs(budget_secs(args.tier, 45, 600));
    report.run_shards(24, args.threads, budget, |_i, rng, shard| {
        let mut n = 0u64;
        while n < per_shard && !shard.time_up() {
            for _ in 0..256 {
                match rng.below(10) {
                    0..=3 => one_arith::<Decimal>(rng, shard),
                    4..=6 => one_arith::<PreciseDecimal>(rng, shard),
                    7 | 8 => one_conv(rng, shard),
                    _ => one_mixed(rng, shard),
                }
            }
            n += 256;
        }
    });
    report.finish()
}

fn replay(_args: &Args, path: &std::path::Path, mut report: Report) -> i32 {
    let doc: serde_json::Value = serde_json::from_str(&std::fs::read_to_string(path).expect("replay file")).expect("json");
    let d = &doc["detail"];
    let (Some(ty), Some(op), Some(a), Some(b)) = (d["type"].as_str(), d["op"].as_str(), d["a_subunits"].as_str(), d["b_subunits"].as_str()) else {
        println!("replay file does not describe an arithmetic case: {}", d);
        return 2;
    };
    let op = match op {
        "add" => Op::Add,
        "sub" => Op::Sub,
        "mul" => Op::Mul,
        "div" => Op::Div,
        "neg" => Op::Neg,
        _ => Op::Abs,
    };
    let a: BigInt = a.parse().unwrap();
    let b: BigInt = b.parse().unwrap();
    let mut shard = Shard::new(0, "C24", report.args.tier, std::time::Instant::now() + Duration::from_secs(60));
    if ty == "Decimal" {
        check_case::<Decimal>(&mut shard, op, &a, &b, ("replay", "replay"));
    } else {
        check_case::<PreciseDecimal>(&mut shard, op, &a, &b, ("replay", "replay"));
    }
    println!("replayed {ty} {op:?} a={a} b={b}: {} violation(s)", shard.violations.len());
    for v in &shard.violations {
        println!("  {} {}", v.signature, v.detail);
    }
    shard.nontrivial(&1);
    shard.nontrivial(&2);
    report.merge(shard);
    report.spec.floors.clear();
    report.finish()
}
