//! Common view of Decimal (192-bit, 18 places) and PreciseDecimal (256-bit, 36 places) plus the
//! operand generators. The only repo code trusted by the oracle side is the little-endian
//! two's-complement byte representation of a value (`to_vec` / `TryFrom<&[u8]>`).
use num_bigint::BigInt;
use num_traits::{One, Signed, Zero};
use radix_common::math::*;
use rv_common::Rng;
use std::fmt::{Debug, Display};
use std::str::FromStr;

pub trait Fx: Copy + PartialEq + Debug + Display + FromStr + Send + Sync + std::panic::UnwindSafe + std::panic::RefUnwindSafe + 'static {
    const NAME: &'static str;
    const SCALE: u32;
    const BYTES: usize;
    fn bytes(&self) -> Vec<u8>;
    fn from_le(b: &[u8]) -> Self;
    fn add(self, o: Self) -> Option<Self>;
    fn sub(self, o: Self) -> Option<Self>;
    fn mul(self, o: Self) -> Option<Self>;
    fn div(self, o: Self) -> Option<Self>;
    fn neg(self) -> Option<Self>;
    fn abs(self) -> Option<Self>;
    fn round(self, dp: i32, mode: RoundingMode) -> Option<Self>;
    fn floor(self) -> Option<Self>;
    fn ceiling(self) -> Option<Self>;
    fn powi(self, e: i64) -> Option<Self>;
    fn sqrt(self) -> Option<Self>;
    fn cbrt(self) -> Option<Self>;
    fn nth_root(self, n: u32) -> Option<Self>;

    fn to_big(&self) -> BigInt {
        BigInt::from_signed_bytes_le(&self.bytes())
    }
    fn bits() -> u32 {
        Self::BYTES as u32 * 8
    }
    fn max_big() -> BigInt {
        (BigInt::one() << (Self::bits() - 1)) - 1
    }
    fn min_big() -> BigInt {
        -(BigInt::one() << (Self::bits() - 1))
    }
    fn in_range(b: &BigInt) -> bool {
        *b >= Self::min_big() && *b <= Self::max_big()
    }
    fn from_big(b: &BigInt) -> Option<Self> {
        if !Self::in_range(b) {
            return None;
        }
        let mut v = b.to_signed_bytes_le();
        let fill = if b.is_negative() { 0xFF } else { 0x00 };
        v.resize(Self::BYTES, fill);
        Some(Self::from_le(&v))
    }
    fn one_big() -> BigInt {
        pow10(Self::SCALE)
    }
}

pub fn pow10(n: u32) -> BigInt {
    BigInt::from(10u8).pow(n)
}

macro_rules! impl_fx {
    ($t:ty, $name:expr, $scale:expr, $bytes:expr) => {
        impl Fx for $t {
            const NAME: &'static str = $name;
            const SCALE: u32 = $scale;
            const BYTES: usize = $bytes;
            fn bytes(&self) -> Vec<u8> {
                self.to_vec()
            }
            fn from_le(b: &[u8]) -> Self {
                <$t>::try_from(b).expect("length is right")
            }
            fn add(self, o: Self) -> Option<Self> {
                self.checked_add(o)
            }
            fn sub(self, o: Self) -> Option<Self> {
                self.checked_sub(o)
            }
            fn mul(self, o: Self) -> Option<Self> {
                self.checked_mul(o)
            }
            fn div(self, o: Self) -> Option<Self> {
                self.checked_div(o)
            }
            fn neg(self) -> Option<Self> {
                self.checked_neg()
            }
            fn abs(self) -> Option<Self> {
                self.checked_abs()
            }
            fn round(self, dp: i32, mode: RoundingMode) -> Option<Self> {
                self.checked_round(dp, mode)
            }
            fn floor(self) -> Option<Self> {
                self.checked_floor()
            }
            fn ceiling(self) -> Option<Self> {
                self.checked_ceiling()
            }
            fn powi(self, e: i64) -> Option<Self> {
                self.checked_powi(e)
            }
            fn sqrt(self) -> Option<Self> {
                self.checked_sqrt()
            }
            fn cbrt(self) -> Option<Self> {
                self.checked_cbrt()
            }
            fn nth_root(self, n: u32) -> Option<Self> {
                self.checked_nth_root(n)
            }
        }
    };
}
impl_fx!(Decimal, "Decimal", 18, 24);
impl_fx!(PreciseDecimal, "PreciseDecimal", 36, 32);

/// Random BigInt with a uniformly chosen bit length ≤ max_bits, random sign.
pub fn rand_bits(rng: &mut Rng, max_bits: u32) -> BigInt {
    let bits = rng.below(max_bits as u64 + 1) as u32;
    if bits == 0 {
        return BigInt::zero();
    }
    let nbytes = ((bits + 7) / 8) as usize;
    let mut b = rng.bytes(nbytes);
    let top = bits % 8;
    if top != 0 {
        b[nbytes - 1] &= (1u16 << top) as u8 - 1;
    }
    b.push(0);
    let v = BigInt::from_signed_bytes_le(&b);
    if rng.bool() {
        -v
    } else {
        v
    }
}

pub fn small_delta(rng: &mut Rng) -> BigInt {
    BigInt::from(rng.irange(-3, 3))
}

/// Clamp into the representable range.
pub fn clamp<F: Fx>(v: BigInt) -> BigInt {
    if v > F::max_big() {
        F::max_big()
    } else if v < F::min_big() {
        F::min_big()
    } else {
        v
    }
}

pub const CLASSES: &[&str] = &[
    "uniform", "bitlen", "small_int", "near_max", "near_min", "pow10", "atto", "zero", "half_units", "sqrt_max", "int_times_one",
];

/// An in-range operand (in subunits) and its class name.
pub fn gen_value<F: Fx>(rng: &mut Rng) -> (BigInt, &'static str) {
    let one = F::one_big();
    match rng.below(13) {
        0 | 1 => {
            let b = rng.bytes(F::BYTES);
            (BigInt::from_signed_bytes_le(&b), "uniform")
        }
        2 | 3 | 4 => (clamp::<F>(rand_bits(rng, F::bits() - 1)), "bitlen"),
        5 => (BigInt::from(rng.irange(-20, 20)) * &one + small_delta(rng), "small_int"),
        6 => (clamp::<F>(F::max_big() - rand_bits(rng, 8).abs()), "near_max"),
        7 => (clamp::<F>(F::min_big() + rand_bits(rng, 8).abs()), "near_min"),
        8 => {
            let k = rng.below((F::bits() as f64 * 0.30103) as u64) as u32;
            let v = pow10(k) + small_delta(rng);
            (clamp::<F>(if rng.bool() { -v } else { v }), "pow10")
        }
        9 => (BigInt::from(rng.irange(-2, 2)), "atto"),
        10 => {
            if rng.bool() {
                (BigInt::zero(), "zero")
            } else {
                // k + 1/2 units at some decimal position
                let dp = rng.below(F::SCALE as u64 + 1) as u32;
                let unit = pow10(F::SCALE - dp);
                let k = rand_bits(rng, 40);
                let v = k * &unit + (&unit / 2) * BigInt::from(rng.irange(-1, 1)) + small_delta(rng);
                (clamp::<F>(v), "half_units")
            }
        }
        11 => {
            // around sqrt(MAX * ONE): squares land near the range limit
            let s = (F::max_big() * &one).sqrt();
            let v = s + rand_bits(rng, 12);
            (clamp::<F>(if rng.bool() { -v } else { v }), "sqrt_max")
        }
        _ => (clamp::<F>(rand_bits(rng, F::bits() - 1 - 60) * &one), "int_times_one"),
    }
}

pub fn trunc_div(a: &BigInt, b: &BigInt) -> BigInt {
    // num-bigint's `/` truncates toward zero, like Rust integers.
    a / b
}

pub fn show<F: Fx>(b: &BigInt) -> String {
    format!("{}:{}", F::NAME, b)
}
