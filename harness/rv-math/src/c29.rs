//! C29: Instant <-> UtcDateTime conversions agree with the proleptic Gregorian calendar, are
//! strictly increasing and invertible; add_* agrees with timestamp arithmetic; ISO-8601 text
//! round-trips for four-digit years; parsing arbitrary text never panics.
use radix_common::time::*;
use rv_common::*;
use serde_json::json;
use std::str::FromStr;
use std::time::Duration;

const MIN_TS: i64 = -62135596800; // 0001-01-01T00:00:00Z
const MAX_TS: i64 = 135536014634284799; // u32::MAX-12-31T23:59:59Z

/// Hinnant's days_from_civil (proleptic Gregorian), i128 to be overflow free.
fn days_from_civil(y: i128, m: i128, d: i128) -> i128 {
    let y = if m <= 2 { y - 1 } else { y };
    let era = y.div_euclid(400);
    let yoe = y - era * 400;
    let mp = if m > 2 { m - 3 } else { m + 9 };
    let doy = (153 * mp + 2) / 5 + d - 1;
    let doe = yoe * 365 + yoe / 4 - yoe / 100 + doy;
    era * 146097 + doe - 719468
}

fn civil_from_days(z: i128) -> (i128, i128, i128) {
    let z = z + 719468;
    let era = z.div_euclid(146097);
    let doe = z - era * 146097;
    let yoe = (doe - doe / 1460 + doe / 36524 - doe / 146096) / 365;
    let y = yoe + era * 400;
    let doy = doe - (365 * yoe + yoe / 4 - yoe / 100);
    let mp = (5 * doy + 2) / 153;
    let d = doy - (153 * mp + 2) / 5 + 1;
    let m = if mp < 10 { mp + 3 } else { mp - 9 };
    (if m <= 2 { y + 1 } else { y }, m, d)
}

fn is_leap(y: i128) -> bool {
    (y % 4 == 0 && y % 100 != 0) || y % 400 == 0
}
fn days_in_month(y: i128, m: i128) -> i128 {
    match m {
        1 | 3 | 5 | 7 | 8 | 10 | 12 => 31,
        4 | 6 | 9 | 11 => 30,
        _ => {
            if is_leap(y) {
                29
            } else {
                28
            }
        }
    }
}

/// (y, m, d, h, mi, s) for a timestamp, by the oracle.
fn civil(ts: i64) -> (i128, i128, i128, i128, i128, i128) {
    let t = ts as i128;
    let days = t.div_euclid(86400);
    let sod = t.rem_euclid(86400);
    let (y, m, d) = civil_from_days(days);
    (y, m, d, sod / 3600, (sod / 60) % 60, sod % 60)
}
fn timestamp(y: i128, m: i128, d: i128, h: i128, mi: i128, s: i128) -> i128 {
    days_from_civil(y, m, d) * 86400 + h * 3600 + mi * 60 + s
}

fn fields(dt: &UtcDateTime) -> (i128, i128, i128, i128, i128, i128) {
    (dt.year() as i128, dt.month() as i128, dt.day_of_month() as i128, dt.hour() as i128, dt.minute() as i128, dt.second() as i128)
}

fn gen_ts(rng: &mut Rng) -> (i64, &'static str) {
    match rng.below(10) {
        0 => (rng.irange(MIN_TS, MAX_TS), "uniform_supported"),
        1 => (MIN_TS + rng.irange(-3, 400), "near_min"),
        2 => (MAX_TS + rng.irange(-400, 3), "near_max"),
        3 => (rng.u64() as i64, "any_i64"),
        4 => (rng.irange(-5_000_000_000, 5_000_000_000), "around_epoch"),
        5 | 6 => {
            // interesting civil boundaries ± a few seconds
            let y = *rng.pick(&[1i128, 4, 100, 399, 400, 401, 1600, 1899, 1900, 1969, 1970, 1999, 2000, 2001, 2024, 2100, 9999, 10000, 4294967295, 4294967292, 4000000000]);
            let y = if rng.chance(1, 3) { y + rng.irange(-3, 3) as i128 } else { y }.clamp(1, 4294967295);
            let (m, d) = *rng.pick(&[(1, 1), (2, 28), (3, 1), (12, 31), (2, 29), (6, 30), (7, 1)]);
            let d = d.min(days_in_month(y, m));
            let t = timestamp(y, m, d, 0, 0, 0) + rng.irange(-2, 2) as i128 + rng.below(2) as i128 * 86399;
            (t.clamp(MIN_TS as i128 - 5, MAX_TS as i128 + 5) as i64, "civil_boundary")
        }
        _ => {
            // day boundaries of years 1..=9999
            let y = rng.range(1, 9999) as i128;
            let doy = rng.below(366) as i128;
            let t = timestamp(y, 1, 1, 0, 0, 0) + doy * 86400 + rng.irange(-1, 1) as i128;
            (t.max(MIN_TS as i128) as i64, "day_boundary_y1_9999")
        }
    }
}

fn check_ts(shard: &mut Shard, ts: i64, cls: &str) {
    shard.eval();
    shard.count(&format!("ts:{cls}"));
    let supported = ts >= MIN_TS && ts <= MAX_TS;
    let detail = |g: String| json!({"kind": "timestamp", "seconds": ts, "class": cls, "got": g, "expected": format!("{:?}", if supported { Some(civil(ts)) } else { None })});
    let r = catch(move || UtcDateTime::from_instant(&Instant::new(ts)));
    match r {
        Err(p) => shard.violation(format!("from_instant:panic@{}", p.site()), detail(p.summary())),
        Ok(Err(e)) => {
            shard.count("from_instant:err");
            if supported {
                shard.violation("from_instant:rejects-supported-timestamp", detail(format!("{e:?}")));
            }
        }
        Ok(Ok(dt)) => {
            shard.count("from_instant:ok");
            if !supported {
                shard.violation("from_instant:accepts-unsupported-timestamp", detail(format!("{dt}")));
                return;
            }
            if fields(&dt) != civil(ts) {
                shard.violation("from_instant:disagrees-with-gregorian-calendar", detail(format!("{:?}", fields(&dt))));
            }
            match catch(move || dt.to_instant()) {
                Err(p) => shard.violation(format!("to_instant:panic@{}", p.site()), detail(p.summary())),
                Ok(i) => {
                    if i.seconds_since_unix_epoch != ts {
                        shard.violation("to_instant:not-inverse-of-from_instant", detail(format!("{}", i.seconds_since_unix_epoch)));
                    }
                }
            }
            // strictly increasing on consecutive seconds
            if ts < MAX_TS {
                if let Ok(Ok(next)) = catch(move || UtcDateTime::from_instant(&Instant::new(ts + 1))) {
                    shard.count("monotone_pairs");
                    if !(dt < next) {
                        shard.violation("from_instant:not-strictly-increasing", detail(format!("{dt} !< {next}")));
                    }
                }
            }
            // print -> parse for four-digit years
            let y = dt.year();
            if (1..=9999).contains(&y) {
                shard.count("print_parse_4digit");
                let s = dt.to_string();
                let (yy, m, d, h, mi, se) = civil(ts);
                let want = format!("{yy:04}-{m:02}-{d:02}T{h:02}:{mi:02}:{se:02}Z");
                if s != want {
                    shard.violation("display:not-iso8601", detail(s.clone()));
                }
                match catch(move || UtcDateTime::from_str(&s)) {
                    Ok(Ok(back)) if back == dt => {}
                    other => shard.violation("print-parse:not-identity", detail(format!("{other:?}"))),
                }
            }
        }
    }
    shard.nontrivial(&("ts", ts));
    shard.sample(|| detail("(checked)".into()));
}

fn check_new(rng: &mut Rng, shard: &mut Shard) {
    let y: u32 = match rng.below(6) {
        0 => 0,
        1 => u32::MAX - rng.below(3) as u32,
        2 => rng.u32(),
        3 => *rng.pick(&[1u32, 4, 100, 400, 1900, 2000, 2023, 2024, 2100, 9999, 10000]),
        _ => rng.range(1, 9999) as u32,
    };
    let m = if rng.chance(1, 8) { rng.u8() } else { rng.range(0, 13) as u8 };
    let d = if rng.chance(1, 8) { rng.u8() } else { rng.range(0, 32) as u8 };
    let h = if rng.chance(1, 8) { rng.u8() } else { rng.range(0, 24) as u8 };
    let mi = if rng.chance(1, 8) { rng.u8() } else { rng.range(0, 60) as u8 };
    let s = if rng.chance(1, 8) { rng.u8() } else { rng.range(0, 60) as u8 };
    let valid = y >= 1 && (1..=12).contains(&m) && d >= 1 && (d as i128) <= days_in_month(y as i128, m as i128) && h < 24 && mi < 60 && s < 60;
    shard.eval();
    shard.count("new");
    let detail = |g: String| json!({"kind": "new", "fields": [y, m, d, h, mi, s], "valid": valid, "got": g});
    match catch(move || UtcDateTime::new(y, m, d, h, mi, s)) {
        Err(p) => shard.violation(format!("new:panic@{}", p.site()), detail(p.summary())),
        Ok(Ok(dt)) => {
            shard.count("new:ok");
            if !valid {
                shard.violation("new:accepts-invalid-date", detail(format!("{dt}")));
                return;
            }
            let want = timestamp(y as i128, m as i128, d as i128, h as i128, mi as i128, s as i128);
            match catch(move || dt.to_instant()) {
                Err(p) => shard.violation(format!("to_instant:panic@{}", p.site()), detail(p.summary())),
                Ok(i) => {
                    if i.seconds_since_unix_epoch as i128 != want {
                        shard.violation("to_instant:disagrees-with-gregorian-calendar", detail(format!("{}", i.seconds_since_unix_epoch)));
                    } else if catch(move || UtcDateTime::from_instant(&i)).ok().and_then(|r| r.ok()) != Some(dt) {
                        shard.violation("from_instant:not-inverse-of-to_instant", detail(format!("{}", i.seconds_since_unix_epoch)));
                    }
                }
            }
        }
        Ok(Err(_)) => {
            shard.count("new:err");
            if valid {
                shard.violation("new:rejects-valid-date", detail("Err".into()));
            }
        }
    }
    shard.nontrivial(&("new", y, m, d, h, mi, s));
}

fn check_add(rng: &mut Rng, shard: &mut Shard) {
    let (ts, _) = gen_ts(rng);
    let ts = ts.clamp(MIN_TS, MAX_TS);
    let which = rng.below(4);
    let unit: i64 = [86400, 3600, 60, 1][which as usize];
    let n: i64 = match rng.below(6) {
        0 => rng.irange(-5, 5),
        1 => rng.u64() as i64,
        2 => (MAX_TS - ts) / unit + rng.irange(-1, 1),
        3 => (MIN_TS - ts) / unit + rng.irange(-1, 1),
        4 => *rng.pick(&[i64::MAX, i64::MIN, i64::MAX / unit, i64::MIN / unit]),
        _ => rng.irange(-400 * 366, 400 * 366),
    };
    let Ok(Ok(dt)) = catch(move || UtcDateTime::from_instant(&Instant::new(ts))) else { return };
    shard.eval();
    shard.count(["add_days", "add_hours", "add_minutes", "add_seconds"][which as usize]);
    let target = ts as i128 + n as i128 * unit as i128;
    let exp = if target >= MIN_TS as i128 && target <= MAX_TS as i128 { Some(civil(target as i64)) } else { None };
    let detail = |g: String| json!({"kind": "add", "seconds": ts, "unit_seconds": unit, "n": n, "expected": format!("{exp:?}"), "got": g});
    let r = catch(move || match which {
        0 => dt.add_days(n),
        1 => dt.add_hours(n),
        2 => dt.add_minutes(n),
        _ => dt.add_seconds(n),
    });
    match r {
        Err(p) => shard.violation(format!("add:panic@{}", p.site()), detail(p.summary())),
        Ok(g) => {
            if g.as_ref().map(fields) != exp {
                shard.violation("add:disagrees-with-timestamp-arithmetic", detail(format!("{:?}", g.as_ref().map(fields))));
            }
            if g.is_some() { shard.count("add:some") } else { shard.count("add:none") }
        }
    }
    // Instant arithmetic itself
    let ri = catch(move || match which {
        0 => Instant::new(ts).add_days(n),
        1 => Instant::new(ts).add_hours(n),
        2 => Instant::new(ts).add_minutes(n),
        _ => Instant::new(ts).add_seconds(n),
    });
    match ri {
        Err(p) => shard.violation(format!("instant-add:panic@{}", p.site()), detail(p.summary())),
        Ok(g) => {
            // Some(r) must be exact; None is allowed exactly when the natural i64 computation
            // (n * unit, then + seconds) overflows - the property does not promise more for Instant.
            let want = n.checked_mul(unit).and_then(|d| ts.checked_add(d));
            match g {
                Some(i) if i.seconds_since_unix_epoch as i128 != target => shard.violation("instant-add:wrong-value", detail(format!("{g:?}"))),
                None if want.is_some() => shard.violation("instant-add:none-without-overflow", detail("None".into())),
                _ => {}
            }
        }
    }
    shard.nontrivial(&("add", ts, which, n));
}

const TEXT_ALPHABET: &[&str] = &["0", "1", "2", "9", "-", ":", "T", "Z", " ", "+", "é", "日", "\u{1F600}", "t", "z", ".", "/", "\u{0}", "٣"];

fn check_text(rng: &mut Rng, shard: &mut Shard) {
    let base = {
        let (ts, _) = gen_ts(rng);
        let (y, m, d, h, mi, s) = civil(ts.clamp(MIN_TS, 253402300799));
        format!("{y:04}-{m:02}-{d:02}T{h:02}:{mi:02}:{s:02}Z")
    };
    let (text, cls) = match rng.below(6) {
        0 => (base, "valid"),
        1 | 2 => {
            // replace one character (by char index) with something from the alphabet (multi-byte included)
            let mut cs: Vec<String> = base.chars().map(|c| c.to_string()).collect();
            for _ in 0..rng.range(1, 2) {
                let p = rng.usize_below(cs.len());
                cs[p] = rng.pick(TEXT_ALPHABET).to_string();
            }
            (cs.concat(), "char_replaced")
        }
        3 => {
            let mut cs: Vec<String> = base.chars().map(|c| c.to_string()).collect();
            let p = rng.usize_below(cs.len() + 1);
            if rng.bool() && p < cs.len() {
                cs.remove(p);
            } else {
                cs.insert(p, rng.pick(TEXT_ALPHABET).to_string());
            }
            (cs.concat(), "length_changed")
        }
        4 => {
            // right separators, arbitrary "digits"
            let mut s = String::new();
            for i in 0..20 {
                s.push_str(match i {
                    4 | 7 => "-",
                    10 => "T",
                    13 | 16 => ":",
                    19 => "Z",
                    _ => *rng.pick(TEXT_ALPHABET),
                });
            }
            (s, "separators_right")
        }
        _ => {
            let n = rng.size(24);
            let mut s = String::new();
            for _ in 0..n {
                s.push_str(*rng.pick(TEXT_ALPHABET));
            }
            (s, "soup")
        }
    };
    shard.eval();
    shard.count(&format!("text:{cls}"));
    let t2 = text.clone();
    let detail = |g: String| json!({"kind": "text", "text": text, "text_hex": hex(text.as_bytes()), "class": cls, "got": g});
    match catch(move || UtcDateTime::from_str(&t2)) {
        Err(p) => {
            let shape = if !text.is_ascii() { "non-ascii-input" } else { "ascii-input" };
            shard.violation(format!("from_str:panic:{shape}"), detail(p.summary()));
        }
        Ok(Ok(dt)) => {
            shard.count("text:accepted");
            // an accepted text denotes a valid date-time whose canonical print parses back to it
            let s = dt.to_string();
            if (1..=9999).contains(&dt.year()) && catch(move || UtcDateTime::from_str(&s)).ok().and_then(|r| r.ok()) != Some(dt) {
                shard.violation("from_str:accepted-value-does-not-roundtrip", detail(format!("{dt}")));
            }
        }
        Ok(Err(_)) => shard.count("text:rejected"),
    }
    shard.nontrivial(&("text", &text));
}

pub fn run(args: &Args) -> i32 {
    let spec = Spec::new(
        "C29",
        "exploration",
        "generated timestamps (uniform over the supported range, near both range ends, any i64, civil boundaries of selected years ± seconds, day boundaries of years 1..9999), field tuples for UtcDateTime::new (valid and invalid), add_* with boundary amounts, and 20-character-ish texts with multi-byte characters at every position; every case non-trivial; distinct = distinct inputs",
    )
    .assume("oracle: Hinnant civil_from_days / days_from_civil in i128")
    .floor("from_instant:ok", 1000)
    .floor("from_instant:err", 100)
    .floor("monotone_pairs", 1000)
    .floor("print_parse_4digit", 1000)
    .floor("new:ok", 500)
    .floor("new:err", 500)
    .floor("text:accepted", 100)
    .floor("text:rejected", 100);
    let mut report = Report::new(args, spec);
    if let Some(path) = &args.replay {
        let doc: serde_json::Value = serde_json::from_str(&std::fs::read_to_string(path).expect("replay")).expect("json");
        let d = &doc["detail"];
        let mut shard = Shard::new(0, "C29", args.tier, std::time::Instant::now() + Duration::from_secs(60));
        match d["kind"].as_str() {
            Some("timestamp") => check_ts(&mut shard, d["seconds"].as_i64().unwrap(), "replay"),
            Some("text") => {
                let text = String::from_utf8(unhex(d["text_hex"].as_str().unwrap())).unwrap();
                let t2 = text.clone();
                match catch(move || UtcDateTime::from_str(&t2)) {
                    Err(p) => shard.violation(format!("from_str:panic:{}", if text.is_ascii() { "ascii-input" } else { "non-ascii-input" }), json!({"text": text, "got": p.summary()})),
                    Ok(r) => println!("from_str({text:?}) = {r:?}"),
                }
            }
            _ => {
                println!("replay of this case kind is not supported; re-run with the recorded seed");
                return 2;
            }
        }
        println!("replayed: {} violation(s)", shard.violations.len());
        shard.nontrivial(&1);
        shard.nontrivial(&2);
        report.merge(shard);
        report.spec.floors.clear();
        return report.finish();
    }
    let per_shard = scaled(args, args.tier.pick(4_000_000, 150_000_000));
    let budget = Duration::from_secs(budget_secs(args.tier, 40, 600));
    let thorough = args.tier == Tier::Thorough;
    report.run_shards(29, args.threads, budget, |i, rng, shard| {
        if thorough {
            // every second of one selected year per shard (leap / non-leap / century years)
            let years = [1i128, 4, 100, 400, 1900, 1970, 2000, 2024, 2100, 9999, 1600, 1999, 2001, 2400, 1582, 3000];
            let y = years[i % years.len()];
            let start = timestamp(y, 1, 1, 0, 0, 0) as i64;
            let end = timestamp(y + 1, 1, 1, 0, 0, 0) as i64;
            let mut prev: Option<UtcDateTime> = None;
            for ts in start..end.min(MAX_TS) {
                if let Ok(Ok(dt)) = catch(move || UtcDateTime::from_instant(&Instant::new(ts))) {
                    shard.evaluations += 1;
                    if fields(&dt) != civil(ts) {
                        shard.violation("from_instant:disagrees-with-gregorian-calendar", json!({"kind": "timestamp", "seconds": ts}));
                    }
                    if let Some(p) = prev {
                        if !(p < dt) {
                            shard.violation("from_instant:not-strictly-increasing", json!({"kind": "timestamp", "seconds": ts}));
                        }
                    }
                    prev = Some(dt);
                } else {
                    shard.violation("from_instant:rejects-supported-timestamp", json!({"kind": "timestamp", "seconds": ts}));
                }
            }
            shard.add("every_second_of_year_sweeps", 1);
        }
        let mut n = 0;
        while n < per_shard && !shard.time_up() {
            for _ in 0..256 {
                match rng.below(10) {
                    0..=3 => {
                        let (ts, c) = gen_ts(rng);
                        check_ts(shard, ts, c)
                    }
                    4 | 5 => check_new(rng, shard),
                    6 | 7 => check_add(rng, shard),
                    _ => check_text(rng, shard),
                }
            }
            n += 256;
        }
    });
    report.finish()
}
