//! C25: rounding to d decimal places with the seven rounding modes.
use crate::fx::*;
use num_bigint::BigInt;
use num_integer::Integer;
use num_traits::{Signed, Zero};
use radix_common::math::*;
use radix_engine_interface::blueprints::resource::{check_fungible_amount, ForWithdrawal, WithdrawStrategy};
use rv_common::*;
use serde_json::json;
use std::time::Duration;

pub const MODES: [RoundingMode; 7] = [
    RoundingMode::ToPositiveInfinity,
    RoundingMode::ToNegativeInfinity,
    RoundingMode::ToZero,
    RoundingMode::AwayFromZero,
    RoundingMode::ToNearestMidpointTowardZero,
    RoundingMode::ToNearestMidpointAwayFromZero,
    RoundingMode::ToNearestMidpointToEven,
];

/// The multiple of `unit` prescribed by `mode` for `v` (all in subunits).
pub fn oracle_round(v: &BigInt, unit: &BigInt, mode: RoundingMode) -> BigInt {
    let (q, r): (BigInt, BigInt) = Integer::div_mod_floor(v, unit); // 0 <= r < unit
    if r.is_zero() {
        return v.clone();
    }
    let down: BigInt = &q * unit;
    let up: BigInt = (&q + BigInt::from(1)) * unit;
    let positive = v.is_positive();
    let toward_zero = if positive { down.clone() } else { up.clone() };
    let away = if positive { up.clone() } else { down.clone() };
    match mode {
        RoundingMode::ToPositiveInfinity => up,
        RoundingMode::ToNegativeInfinity => down,
        RoundingMode::ToZero => toward_zero,
        RoundingMode::AwayFromZero => away,
        _ => {
            let twice: BigInt = &r * BigInt::from(2);
            match twice.cmp(unit) {
                std::cmp::Ordering::Less => down,
                std::cmp::Ordering::Greater => up,
                std::cmp::Ordering::Equal => match mode {
                    RoundingMode::ToNearestMidpointTowardZero => toward_zero,
                    RoundingMode::ToNearestMidpointAwayFromZero => away,
                    _ => {
                        if q.is_even() {
                            down
                        } else {
                            up
                        }
                    }
                },
            }
        }
    }
}

fn gen_round_value<F: Fx>(rng: &mut Rng, dp: u32) -> (BigInt, &'static str) {
    let unit = pow10(F::SCALE - dp);
    match rng.below(8) {
        0 | 1 => {
            // exact ties and ties ± 1 subunit, both signs, incl. odd/even quotients
            let k = match rng.below(3) {
                0 => BigInt::from(rng.irange(-6, 6)),
                _ => rand_bits(rng, (F::bits() - 2).saturating_sub(unit.bits() as u32)),
            };
            let v = k * &unit + &unit / 2 + BigInt::from(rng.irange(-1, 1));
            (clamp::<F>(v), "tie±1")
        }
        2 => {
            // already a multiple of the unit
            let k = rand_bits(rng, (F::bits() - 2).saturating_sub(unit.bits() as u32));
            (clamp_multiple::<F>(k * &unit, &unit), "already_rounded")
        }
        3 => {
            // within one rounding step of +MAX / MIN: overflow behaviour
            let lim = if rng.bool() { F::max_big() } else { F::min_big() };
            let off = rand_bits(rng, unit.bits() as u32 + 1).abs();
            let v = if lim.is_positive() { lim - off } else { lim + off };
            (clamp::<F>(v), "near_limit")
        }
        4 => {
            // just above / below a multiple
            let k = rand_bits(rng, 64);
            let v = k * &unit + BigInt::from(rng.irange(-2, 2));
            (clamp::<F>(v), "multiple±2")
        }
        _ => gen_value::<F>(rng),
    }
}

fn clamp_multiple<F: Fx>(v: BigInt, unit: &BigInt) -> BigInt {
    if F::in_range(&v) {
        v
    } else {
        // largest multiple inside the range with the same sign
        let lim = if v.is_positive() { F::max_big() } else { F::min_big() };
        trunc_div(&lim, unit) * unit
    }
}

fn check_round<F: Fx>(shard: &mut Shard, v: &BigInt, dp: u32, mode: RoundingMode, cls: &str) {
    let unit = pow10(F::SCALE - dp);
    let f = F::from_big(v).unwrap();
    let exp = oracle_round(v, &unit, mode);
    shard.eval();
    shard.count(&format!("mode:{mode:?}"));
    shard.count(&format!("class:{cls}"));
    let is_tie = (v.mod_floor(&unit) * 2) == unit;
    if is_tie {
        shard.count("exact_ties");
    }
    let detail = |got: String| json!({"type": F::NAME, "value_subunits": v.to_string(), "decimal_places": dp, "mode": format!("{mode:?}"), "expected_subunits": exp.to_string(), "expected_representable": F::in_range(&exp), "got": got, "class": cls});
    match catch(move || f.round(dp as i32, mode)) {
        Err(p) => shard.violation(format!("{}:round:panic@{}", F::NAME, p.site()), detail(p.summary())),
        Ok(Some(r)) => {
            shard.count("outcome:some");
            if !F::in_range(&exp) {
                shard.violation(format!("{}:round:some-but-overflow", F::NAME), detail(r.to_big().to_string()));
            } else if r.to_big() != exp {
                let sig = if is_tie { "wrong-value-at-tie" } else { "wrong-value" };
                shard.violation(format!("{}:round:{sig}:{mode:?}", F::NAME), detail(r.to_big().to_string()));
            }
        }
        Ok(None) => {
            shard.count("outcome:overflow");
            if F::in_range(&exp) {
                shard.violation(format!("{}:round:overflow-but-representable", F::NAME), detail("None".into()));
            }
        }
    }
    shard.nontrivial(&(F::NAME, v.to_string(), dp, mode as u8));
    shard.sample(|| detail("(see expected)".into()));
}

fn one<F: Fx>(rng: &mut Rng, shard: &mut Shard) {
    let dp = rng.below(F::SCALE as u64 + 1) as u32;
    let mode = *rng.pick(&MODES);
    let (v, cls) = gen_round_value::<F>(rng, dp);
    check_round::<F>(shard, &v, dp, mode, cls);
}

fn derived(rng: &mut Rng, shard: &mut Shard) {
    match rng.below(4) {
        0 => {
            // floor / ceiling
            let (v, _) = gen_round_value::<Decimal>(rng, 0);
            let f = Decimal::from_big(&v).unwrap();
            let unit = Decimal::one_big();
            shard.eval();
            shard.count("derived:floor_ceiling");
            let ef = oracle_round(&v, &unit, RoundingMode::ToNegativeInfinity);
            let ec = oracle_round(&v, &unit, RoundingMode::ToPositiveInfinity);
            match catch(move || (f.floor(), f.ceiling())) {
                Err(p) => shard.violation(format!("Decimal:floor-ceiling:panic@{}", p.site()), json!({"v": v.to_string()})),
                Ok((fl, ce)) => {
                    let okf = fl.map(|x| x.to_big()) == Some(ef.clone()).filter(Decimal::in_range);
                    let okc = ce.map(|x| x.to_big()) == Some(ec.clone()).filter(Decimal::in_range);
                    if !okf || !okc {
                        shard.violation("Decimal:floor-ceiling:wrong-value", json!({"v": v.to_string(), "floor": fl.map(|x| x.to_string()), "ceiling": ce.map(|x| x.to_string())}));
                    }
                }
            }
            shard.nontrivial(&("floorceil", v.to_string()));
        }
        1 => {
            // PreciseDecimal::checked_truncate(mode) -> Decimal
            let mode = *rng.pick(&MODES);
            let (v, _) = match rng.below(3) {
                0 => {
                    let lim = if rng.bool() { Decimal::max_big() } else { Decimal::min_big() };
                    (clamp::<PreciseDecimal>(lim * pow10(18) + rand_bits(rng, 64)), "near_dec_limit")
                }
                _ => gen_round_value::<PreciseDecimal>(rng, 18),
            };
            let f = PreciseDecimal::from_big(&v).unwrap();
            let exp = oracle_round(&v, &pow10(18), mode) / pow10(18);
            shard.eval();
            shard.count("derived:checked_truncate");
            match catch(move || f.checked_truncate(mode)) {
                Err(p) => shard.violation(format!("PreciseDecimal:checked_truncate:panic@{}", p.site()), json!({"v": v.to_string(), "mode": format!("{mode:?}")})),
                Ok(Some(d)) => {
                    if d.to_big() != exp {
                        shard.violation("PreciseDecimal:checked_truncate:wrong-value", json!({"v": v.to_string(), "mode": format!("{mode:?}"), "got": d.to_big().to_string(), "expected": exp.to_string()}));
                    }
                }
                Ok(None) => {
                    if Decimal::in_range(&exp) {
                        let sig = if exp == Decimal::min_big() { "PreciseDecimal:checked_truncate:result-equals-MIN-rejected" } else { "PreciseDecimal:checked_truncate:overflow-but-representable" };
                        shard.violation(sig, json!({"v": v.to_string(), "mode": format!("{mode:?}"), "expected": exp.to_string()}));
                    }
                }
            }
            shard.nontrivial(&("truncate", v.to_string(), mode as u8));
        }
        2 => {
            // for_withdrawal(divisibility, Rounded(mode)) == round(divisibility, mode); Exact == identity
            let div = rng.below(19) as u32;
            let mode = *rng.pick(&MODES);
            let (v, _) = gen_round_value::<Decimal>(rng, div);
            let f = Decimal::from_big(&v).unwrap();
            let exp = oracle_round(&v, &pow10(18 - div), mode);
            shard.eval();
            shard.count("derived:for_withdrawal");
            match catch(move || (f.for_withdrawal(div as u8, WithdrawStrategy::Rounded(mode)), f.for_withdrawal(div as u8, WithdrawStrategy::Exact))) {
                Err(p) => shard.violation(format!("Decimal:for_withdrawal:panic@{}", p.site()), json!({"v": v.to_string()})),
                Ok((r, e)) => {
                    if r.map(|x| x.to_big()) != Some(exp.clone()).filter(Decimal::in_range) || e.map(|x| x.to_big()) != Some(v.clone()) {
                        shard.violation("Decimal:for_withdrawal:wrong-value", json!({"v": v.to_string(), "divisibility": div, "mode": format!("{mode:?}"), "got": r.map(|x| x.to_string())}));
                    }
                    // a rounded amount respects the divisibility
                    if let Some(x) = r {
                        if !x.is_negative() && !check_fungible_amount(&x, div as u8) {
                            shard.violation("Decimal:for_withdrawal:result-violates-divisibility", json!({"v": v.to_string(), "divisibility": div}));
                        }
                    }
                }
            }
            shard.nontrivial(&("withdraw", v.to_string(), div, mode as u8));
        }
        _ => {
            // check_fungible_amount ⇔ non-negative multiple of 10^(18-div)
            let div = rng.below(19) as u32;
            let (v, _) = gen_round_value::<Decimal>(rng, div);
            let f = Decimal::from_big(&v).unwrap();
            let exp = !v.is_negative() && (&v % pow10(18 - div)).is_zero();
            shard.eval();
            shard.count("derived:check_fungible_amount");
            match catch(move || check_fungible_amount(&f, div as u8)) {
                Err(p) => shard.violation(format!("check_fungible_amount:panic@{}", p.site()), json!({"v": v.to_string(), "divisibility": div})),
                Ok(g) => {
                    if g != exp {
                        shard.violation("check_fungible_amount:wrong-answer", json!({"v": v.to_string(), "divisibility": div, "got": g}));
                    }
                }
            }
            shard.nontrivial(&("cfa", v.to_string(), div));
        }
    }
}

pub fn run(args: &Args) -> i32 {
    let spec = Spec::new(
        "C25",
        "exploration",
        "generated (type, value, decimal places 0..=SCALE, mode) with values at exact ties, tie±1 subunit, already-rounded multiples, within one step of ±MAX, plus floor/ceiling, PreciseDecimal→Decimal truncation with every mode, for_withdrawal and divisibility checks; every case non-trivial; distinct = distinct (type, value, places, mode)",
    )
    .assume("oracle: floor-division in num-bigint and the mode definitions as documented in rounding_mode.rs")
    .floor("exact_ties", 1000)
    .floor("outcome:overflow", 200)
    .floor("class:already_rounded", 1000);
    let mut report = Report::new(args, spec);
    if let Some(path) = &args.replay {
        let doc: serde_json::Value = serde_json::from_str(&std::fs::read_to_string(path).expect("replay")).expect("json");
        let d = &doc["detail"];
        let mut shard = Shard::new(0, "C25", args.tier, std::time::Instant::now() + Duration::from_secs(60));
        if let (Some(ty), Some(v), Some(dp), Some(mode)) = (d["type"].as_str(), d["value_subunits"].as_str(), d["decimal_places"].as_u64(), d["mode"].as_str()) {
            let v: BigInt = v.parse().unwrap();
            let mode = *MODES.iter().find(|m| format!("{m:?}") == mode).unwrap();
            if ty == "Decimal" {
                check_round::<Decimal>(&mut shard, &v, dp as u32, mode, "replay");
            } else {
                check_round::<PreciseDecimal>(&mut shard, &v, dp as u32, mode, "replay");
            }
            println!("replayed: {} violation(s)", shard.violations.len());
        } else {
            println!("replay file is not a rounding case");
            return 2;
        }
        shard.nontrivial(&1);
        shard.nontrivial(&2);
        report.merge(shard);
        report.spec.floors.clear();
        return report.finish();
    }
    let per_shard = scaled(args, args.tier.pick(3_000_000, 100_000_000));
    let budget = Duration::from_secs(budget_secs(args.tier, 45, 600));
    report.run_shards(25, args.threads, budget, |_i, rng, shard| {
        let mut n = 0;
        while n < per_shard && !shard.time_up() {
            for _ in 0..256 {
                match rng.below(10) {
                    0..=3 => one::<Decimal>(rng, shard),
                    4..=7 => one::<PreciseDecimal>(rng, shard),
                    _ => derived(rng, shard),
                }
            }
            n += 256;
        }
    });
    report.finish()
}
