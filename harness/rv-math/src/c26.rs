//! C26: square / cube / n-th roots are the exact root truncated toward zero; integer powers are
//! exact when representable, never larger in magnitude than the exact result otherwise, and
//! fail (not panic) on overflow.
use crate::fx::*;
use num_bigint::BigInt;
use num_traits::{One, Signed, Zero};
use radix_common::math::*;
use rv_common::*;
use serde_json::json;
use std::time::Duration;

const MAX_EXACT_EXP: i64 = 256;

fn check_root<F: Fx>(shard: &mut Shard, x: &BigInt, n: u32, which: &str) {
    let f = F::from_big(x).unwrap();
    shard.eval();
    shard.count(&format!("root:{which}"));
    let w = which.to_string();
    let got = catch(move || match w.as_str() {
        "sqrt" => f.sqrt(),
        "cbrt" => f.cbrt(),
        _ => f.nth_root(n),
    });
    let detail = |g: String| json!({"type": F::NAME, "fn": which, "x_subunits": x.to_string(), "n": n, "got": g});
    let must_fail = n == 0 || (x.is_negative() && n % 2 == 0);
    match got {
        Err(p) => shard.violation(format!("{}:{which}:panic@{}", F::NAME, p.site()), detail(p.summary())),
        Ok(None) => {
            shard.count("root:none");
            if !must_fail {
                shard.violation(format!("{}:{which}:failed-but-defined", F::NAME), detail("None".into()));
            }
        }
        Ok(Some(r)) => {
            shard.count("root:some");
            if must_fail {
                shard.violation(format!("{}:{which}:some-but-undefined", F::NAME), detail(r.to_big().to_string()));
                return;
            }
            // R = trunc(root_n(x)) in subunits  <=>  |R|^n <= |X| * S^(n-1) < (|R|+1)^n, sign(R) = sign(X) or R = 0
            let rb = r.to_big();
            let target = x.abs() * F::one_big().pow(n - 1);
            let ra = rb.abs();
            let lo = ra.pow(n);
            let hi = (&ra + BigInt::one()).pow(n);
            let sign_ok = rb.is_zero() || (rb.is_negative() == x.is_negative());
            if !(lo <= target && target < hi && sign_ok) {
                shard.violation(format!("{}:{which}:not-the-truncated-root", F::NAME), detail(rb.to_string()));
            }
            if lo == target {
                shard.count("root:exact_perfect_power");
            }
        }
    }
    shard.nontrivial(&(F::NAME, which, x.to_string(), n));
    shard.sample(|| detail("(checked)".into()));
}

fn gen_root_operand<F: Fx>(rng: &mut Rng, n: u32) -> BigInt {
    match rng.below(6) {
        0 | 1 if n >= 1 && n <= 64 => {
            // perfect n-th powers ± 1 subunit: r^n / S^(n-1) when it divides exactly, else nearby
            let r = rand_bits(rng, ((F::bits() - 2) / n.max(1)).min(80) + 8);
            let v = trunc_div(&r.abs().pow(n), &F::one_big().pow(n - 1)) + BigInt::from(rng.irange(-1, 1));
            let v = if rng.bool() { -v } else { v };
            clamp::<F>(v)
        }
        _ => gen_value::<F>(rng).0,
    }
}

fn check_pow<F: Fx>(shard: &mut Shard, x: &BigInt, e: i64) {
    let f = F::from_big(x).unwrap();
    shard.eval();
    shard.count(if e < 0 { "pow:negative_exp" } else { "pow:nonnegative_exp" });
    let got = catch(move || f.powi(e));
    let detail = |g: String| json!({"type": F::NAME, "fn": "checked_powi", "x_subunits": x.to_string(), "exp": e, "got": g});
    let got = match got {
        Err(p) => {
            shard.violation(format!("{}:powi:panic@{}", F::NAME, p.site()), detail(p.summary()));
            return;
        }
        Ok(g) => g,
    };
    let one = F::one_big();
    // special bases: exact for every exponent
    let special: Option<Option<BigInt>> = if e == 0 {
        Some(Some(one.clone()))
    } else if x.is_zero() {
        Some(if e > 0 { Some(BigInt::zero()) } else { None })
    } else if *x == one {
        Some(Some(one.clone()))
    } else if *x == -&one {
        Some(Some(if e % 2 == 0 { one.clone() } else { -&one }))
    } else {
        None
    };
    if let Some(exp) = special {
        shard.count("pow:special_base");
        match (&got, &exp) {
            (Some(r), Some(t)) if r.to_big() == *t => {}
            (None, None) => {}
            (None, Some(_)) => {
                let sig = if e == i64::MIN { "powi:exp-i64-min-rejected-for-unit-base" } else { "powi:none-but-representable" };
                shard.violation(format!("{}:{sig}", F::NAME), detail("None".into()));
            }
            (Some(r), _) => shard.violation(format!("{}:powi:wrong-value", F::NAME), detail(r.to_big().to_string())),
        }
        shard.nontrivial(&(F::NAME, "pow", x.to_string(), e));
        return;
    }
    if e.unsigned_abs() > MAX_EXACT_EXP as u64 {
        // only: no panic (checked above) and, for |x| < 1 and e > 0, magnitude does not grow
        shard.count("pow:large_exp_no_panic_only");
        if let Some(r) = got {
            if e > 0 && x.abs() < one && r.to_big().abs() > x.abs() {
                shard.violation(format!("{}:powi:magnitude-grew-for-fraction", F::NAME), detail(r.to_big().to_string()));
            }
        }
        return;
    }
    let k = e.unsigned_abs() as u32;
    // exact value = num / den (den > 0)
    let (num, den) = if e > 0 {
        (x.pow(k), one.pow(k - 1))
    } else {
        let mut n = one.pow(k + 1);
        let mut d = x.pow(k);
        if d.is_negative() {
            d = -d;
            n = -n;
        }
        (n, d)
    };
    let t = trunc_div(&num, &den);
    let exactly = (&num % &den).is_zero();
    let representable = exactly && F::in_range(&t);
    match got {
        Some(r) => {
            shard.count("pow:some");
            let rb = r.to_big();
            if representable {
                shard.count("pow:exactly_representable");
                if rb != t {
                    shard.violation(format!("{}:powi:inexact-but-representable", F::NAME), detail(rb.to_string()));
                }
            } else {
                let sign_ok = rb.is_zero() || rb.is_negative() == num.is_negative();
                if rb.abs() > t.abs() || !sign_ok {
                    shard.violation(format!("{}:powi:exceeds-exact-magnitude", F::NAME), detail(rb.to_string()));
                }
            }
        }
        None => {
            shard.count("pow:none");
            if representable {
                let sig = if t == F::min_big() { "powi:result-equals-MIN-rejected" } else { "powi:none-but-representable" };
                shard.violation(format!("{}:{sig}", F::NAME), detail("None".into()));
            } else if F::in_range(&t) {
                // the property lets a power fail only on overflow
                shard.violation(format!("{}:powi:none-but-in-range", F::NAME), detail(format!("None (truncated exact = {t})")));
            } else {
                shard.count("pow:overflow");
            }
        }
    }
    shard.nontrivial(&(F::NAME, "pow", x.to_string(), e));
    shard.sample(|| detail("(checked)".into()));
}

fn gen_pow_case<F: Fx>(rng: &mut Rng) -> (BigInt, i64) {
    let e: i64 = match rng.below(10) {
        0..=5 => rng.irange(-12, 12),
        6 | 7 => rng.irange(-MAX_EXACT_EXP, MAX_EXACT_EXP),
        8 => *rng.pick(&[i64::MAX, i64::MIN, i64::MIN + 1, i32::MAX as i64, -(i32::MAX as i64), 1 << 40]),
        _ => rng.u64() as i64 >> rng.below(63),
    };
    let one = F::one_big();
    let x = match rng.below(8) {
        0 => BigInt::from(rng.irange(-12, 12)) * &one,
        1 => {
            // k / 10^j: exactly representable powers
            let j = rng.below(F::SCALE as u64 + 1) as u32;
            BigInt::from(rng.irange(-50, 50)) * pow10(F::SCALE - j)
        }
        2 => {
            // base whose |e|-th power lands near the range limit
            let k = e.unsigned_abs().clamp(1, 64) as u32;
            let lim = F::max_big() * one.pow(k - 1);
            let r = lim.nth_root(k) + BigInt::from(rng.irange(-2, 2));
            if rng.bool() {
                -r
            } else {
                r
            }
        }
        3 => one.clone() + BigInt::from(rng.irange(-3, 3)),
        4 => BigInt::from(rng.irange(-3, 3)),
        _ => gen_value::<F>(rng).0,
    };
    (clamp::<F>(x), e)
}

pub fn run(args: &Args) -> i32 {
    let spec = Spec::new(
        "C26",
        "exploration",
        "generated (type, value, degree) for sqrt/cbrt/nth_root with degrees 0..=64 (thorough: up to 512) incl. perfect powers ±1 subunit, and (type, base, exponent) for checked_powi with exponents -256..=256 checked exactly against the rational result and extreme exponents (i64::MIN/MAX …) checked for absence of panics; distinct = distinct (type, fn, operand, degree/exponent)",
    )
    .assume("oracle: num-bigint pow / integer comparison; root degrees above 512 are not executed (cost of the real code grows with the degree; a degree near u32::MAX cannot terminate in practice)")
    .floor("root:some", 1000)
    .floor("root:none", 100)
    .floor("root:exact_perfect_power", 20)
    .floor("pow:exactly_representable", 200)
    .floor("pow:overflow", 200);
    let mut report = Report::new(args, spec);
    if let Some(path) = &args.replay {
        let doc: serde_json::Value = serde_json::from_str(&std::fs::read_to_string(path).expect("replay")).expect("json");
        let d = &doc["detail"];
        let mut shard = Shard::new(0, "C26", args.tier, std::time::Instant::now() + Duration::from_secs(60));
        let ty = d["type"].as_str().unwrap_or("");
        let x: BigInt = d["x_subunits"].as_str().unwrap_or("0").parse().unwrap();
        match d["fn"].as_str() {
            Some("checked_powi") => {
                let e = d["exp"].as_i64().unwrap();
                if ty == "Decimal" { check_pow::<Decimal>(&mut shard, &x, e) } else { check_pow::<PreciseDecimal>(&mut shard, &x, e) }
            }
            Some(w) => {
                let n = d["n"].as_u64().unwrap() as u32;
                if ty == "Decimal" { check_root::<Decimal>(&mut shard, &x, n, w) } else { check_root::<PreciseDecimal>(&mut shard, &x, n, w) }
            }
            None => return 2,
        }
        println!("replayed: {} violation(s)", shard.violations.len());
        shard.nontrivial(&1);
        shard.nontrivial(&2);
        report.merge(shard);
        report.spec.floors.clear();
        return report.finish();
    }
    let per_shard = scaled(args, args.tier.pick(1_000_000, 40_000_000));
    let max_deg = args.tier.pick(64u64, 512u64);
    let budget = Duration::from_secs(budget_secs(args.tier, 45, 600));
    report.run_shards(26, args.threads, budget, |_i, rng, shard| {
        let mut n = 0;
        while n < per_shard && !shard.time_up() {
            for _ in 0..64 {
                let dec = rng.bool();
                match rng.below(10) {
                    0 => {
                        let x = if dec { gen_root_operand::<Decimal>(rng, 2) } else { gen_root_operand::<PreciseDecimal>(rng, 2) };
                        if dec { check_root::<Decimal>(shard, &x, 2, "sqrt") } else { check_root::<PreciseDecimal>(shard, &x, 2, "sqrt") }
                    }
                    1 => {
                        let x = if dec { gen_root_operand::<Decimal>(rng, 3) } else { gen_root_operand::<PreciseDecimal>(rng, 3) };
                        if dec { check_root::<Decimal>(shard, &x, 3, "cbrt") } else { check_root::<PreciseDecimal>(shard, &x, 3, "cbrt") }
                    }
                    2..=4 => {
                        let deg = match rng.below(8) {
                            0 => 0,
                            1 => 1,
                            2 => rng.range(2, max_deg) as u32,
                            _ => rng.range(2, 12) as u32,
                        };
                        let x = if dec { gen_root_operand::<Decimal>(rng, deg) } else { gen_root_operand::<PreciseDecimal>(rng, deg) };
                        if dec { check_root::<Decimal>(shard, &x, deg, "nth_root") } else { check_root::<PreciseDecimal>(shard, &x, deg, "nth_root") }
                    }
                    _ => {
                        if dec {
                            let (x, e) = gen_pow_case::<Decimal>(rng);
                            check_pow::<Decimal>(shard, &x, e)
                        } else {
                            let (x, e) = gen_pow_case::<PreciseDecimal>(rng);
                            check_pow::<PreciseDecimal>(shard, &x, e)
                        }
                    }
                }
            }
            n += 64;
        }
    });
    report.finish()
}
