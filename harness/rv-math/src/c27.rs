//! C27: Display / FromStr of Decimal and PreciseDecimal are exact inverses; the parser accepts
//! exactly `[+-]?[0-9]+(\.[0-9]{1,SCALE})?` numerals that fit in range.
use crate::fx::*;
use num_bigint::BigInt;
use num_traits::Zero;
use radix_common::math::*;
use rv_common::*;
use serde_json::json;
use std::time::Duration;

/// Independent grammar + exact evaluation. Ok(subunits) if `s` is in the grammar (range not yet
/// checked), Err(reason) otherwise.
pub fn grammar<F: Fx>(s: &str) -> Result<BigInt, &'static str> {
    let b = s.as_bytes();
    let mut i = 0;
    let mut neg = false;
    if i < b.len() && (b[i] == b'+' || b[i] == b'-') {
        neg = b[i] == b'-';
        i += 1;
    }
    let int_start = i;
    while i < b.len() && b[i].is_ascii_digit() {
        i += 1;
    }
    if i == int_start {
        return Err("no integer digits");
    }
    let int_part: BigInt = s[int_start..i].parse().unwrap();
    let mut frac = BigInt::zero();
    let mut frac_len = 0u32;
    if i < b.len() {
        if b[i] != b'.' {
            return Err("unexpected character");
        }
        i += 1;
        let fs = i;
        while i < b.len() && b[i].is_ascii_digit() {
            i += 1;
        }
        if i != b.len() {
            return Err("unexpected character in fraction");
        }
        frac_len = (i - fs) as u32;
        if frac_len == 0 {
            return Err("empty fraction");
        }
        if frac_len > F::SCALE {
            return Err("too many fractional digits");
        }
        frac = s[fs..i].parse().unwrap();
    }
    let v = int_part * F::one_big() + frac * pow10(F::SCALE - frac_len);
    Ok(if neg { -v } else { v })
}

fn classify_outside(s: &str) -> &'static str {
    if let Some(pos) = s.find('.') {
        let frac = &s[pos + 1..];
        if frac.starts_with('+') || frac.starts_with('-') {
            return "sign-in-fractional-part";
        }
    }
    if s.contains('_') {
        return "underscore";
    }
    if !s.is_ascii() {
        return "non-ascii";
    }
    "other"
}

pub fn check_parse<F: Fx>(shard: &mut Shard, s: &str, cls: &str)
where
    <F as std::str::FromStr>::Err: std::fmt::Debug,
{
    shard.eval();
    shard.count(&format!("text:{cls}"));
    let owned = s.to_string();
    let got = catch(move || owned.parse::<F>());
    let exp = grammar::<F>(s).ok().filter(F::in_range);
    let detail = |g: String| json!({"type": F::NAME, "text": s, "text_hex": hex(s.as_bytes()), "expected_subunits": exp.as_ref().map(|e| e.to_string()), "got": g, "class": cls});
    match got {
        Err(p) => shard.violation(format!("{}:parse:panic@{}", F::NAME, p.site()), detail(p.summary())),
        Ok(Ok(v)) => {
            shard.count("parse:accepted");
            match &exp {
                None => {
                    let why = match grammar::<F>(s) {
                        Ok(_) => "out-of-range".to_string(),
                        Err(_) => classify_outside(s).to_string(),
                    };
                    shard.violation(format!("{}:parse:accepts-outside-grammar:{why}", F::NAME), detail(v.to_big().to_string()));
                }
                Some(e) => {
                    if v.to_big() != *e {
                        shard.violation(format!("{}:parse:wrong-value", F::NAME), detail(v.to_big().to_string()));
                    }
                }
            }
        }
        Ok(Err(e)) => {
            shard.count("parse:rejected");
            if exp.is_some() {
                shard.violation(format!("{}:parse:rejects-valid-numeral", F::NAME), detail(format!("{e:?}")));
            }
        }
    }
    shard.nontrivial(&(F::NAME, s));
    shard.sample(|| detail("(checked)".into()));
}

fn check_print<F: Fx>(shard: &mut Shard, v: &BigInt)
where
    <F as std::str::FromStr>::Err: std::fmt::Debug,
{
    let f = F::from_big(v).unwrap();
    shard.eval();
    shard.count("print_parse");
    let r = catch(move || {
        let s = f.to_string();
        let back = s.parse::<F>();
        (s, back)
    });
    match r {
        Err(p) => shard.violation(format!("{}:print:panic@{}", F::NAME, p.site()), json!({"subunits": v.to_string()})),
        Ok((s, back)) => {
            match back {
                Ok(b) if b.to_big() == *v => {}
                other => shard.violation(format!("{}:print-parse:not-identity", F::NAME), json!({"subunits": v.to_string(), "printed": s, "parsed_back": format!("{:?}", other.map(|x| x.to_big().to_string()))})),
            }
            // the printed form itself must denote the value under the independent grammar
            if grammar::<F>(&s).ok().as_ref() != Some(v) {
                shard.violation(format!("{}:print:text-does-not-denote-value", F::NAME), json!({"subunits": v.to_string(), "printed": s}));
            }
        }
    }
    shard.nontrivial(&(F::NAME, "print", v.to_string()));
}

const ALPHABET: &[&str] = &["0", "1", "5", "9", "+", "-", ".", "_", " ", "e", "E", "x", ",", "٣", "１", "\u{0}", "\t", "०"];

fn gen_text<F: Fx>(rng: &mut Rng) -> (String, &'static str) {
    match rng.below(10) {
        0 | 1 => {
            // straight from the grammar
            let mut s = String::new();
            match rng.below(4) {
                0 => s.push('-'),
                1 => s.push('+'),
                _ => {}
            }
            let nd = 1 + rng.size(70);
            for i in 0..nd {
                s.push((b'0' + if i == 0 && rng.bool() { 0 } else { rng.below(10) as u8 }) as char);
            }
            if rng.bool() {
                s.push('.');
                let nf = rng.size(F::SCALE as usize + 3);
                for _ in 0..nf {
                    s.push((b'0' + rng.below(10) as u8) as char);
                }
            }
            (s, "grammar")
        }
        2 | 3 | 4 => {
            // printed value with 1-3 character-level mutations
            let (v, _) = gen_value::<F>(rng);
            let mut chars: Vec<String> = F::from_big(&v).unwrap().to_string().chars().map(|c| c.to_string()).collect();
            for _ in 0..rng.range(1, 3) {
                let pos = rng.usize_below(chars.len() + 1);
                match rng.below(3) {
                    0 => chars.insert(pos, rng.pick(ALPHABET).to_string()),
                    1 if pos < chars.len() => {
                        chars.remove(pos);
                    }
                    _ if pos < chars.len() => chars[pos] = rng.pick(ALPHABET).to_string(),
                    _ => chars.push(rng.pick(ALPHABET).to_string()),
                }
            }
            (chars.concat(), "mutated_print")
        }
        5 => {
            // range boundary ± a few units, as text built by the oracle side
            let lim = if rng.bool() { F::max_big() } else { F::min_big() };
            let v = lim + BigInt::from(rng.irange(-3, 3));
            (to_text::<F>(&v, rng.bool()), "range_boundary")
        }
        6 => {
            // signs and dots in odd places
            let pieces = ["1", "0", "5", "-", "+", ".", "", "00", "-0", "+0"];
            let n = rng.range(1, 5);
            let mut s = String::new();
            for _ in 0..n {
                s.push_str(*rng.pick(&pieces));
            }
            (s, "sign_dot_soup")
        }
        7 => {
            // exactly SCALE / SCALE+1 fractional digits
            let nf = F::SCALE as usize + rng.below(2) as usize;
            let mut s = format!("{}.", rng.irange(-3, 3));
            for _ in 0..nf {
                s.push((b'0' + rng.below(10) as u8) as char);
            }
            (s, "fraction_length_boundary")
        }
        8 => {
            let n = rng.size(12);
            let mut s = String::new();
            for _ in 0..n {
                s.push_str(*rng.pick(ALPHABET));
            }
            (s, "alphabet_soup")
        }
        _ => {
            let n = rng.size(10);
            let b = rng.bytes(n);
            (String::from_utf8_lossy(&b).to_string(), "random_utf8")
        }
    }
}

/// Oracle-side printer (used only to build boundary inputs, not as an expectation).
fn to_text<F: Fx>(v: &BigInt, pad: bool) -> String {
    let one = F::one_big();
    let neg = *v < BigInt::zero();
    let a = if neg { -v } else { v.clone() };
    let q = &a / &one;
    let r = &a % &one;
    let mut s = String::new();
    if neg {
        s.push('-');
    }
    s.push_str(&q.to_string());
    if !r.is_zero() || pad {
        let mut fs = format!("{:0>width$}", r.to_string(), width = F::SCALE as usize);
        if !pad {
            while fs.ends_with('0') {
                fs.pop();
            }
        }
        s.push('.');
        s.push_str(&fs);
    }
    s
}

pub fn run(args: &Args) -> i32 {
    let spec = Spec::new(
        "C27",
        "exploration",
        "generated strings: grammar-derived numerals (signs, leading zeros, 0..SCALE+2 fractional digits, up to 70 integer digits), printed values with 1-3 character mutations over an alphabet with signs, dots, underscores, exponents, whitespace and non-ASCII digits, range boundary ±3 units, sign/dot soups, random UTF-8; plus print→parse on generated values. Every case non-trivial; distinct = distinct (type, text).",
    )
    .assume("oracle: independent recogniser for [+-]?[0-9]+(\\.[0-9]{1,SCALE})? with exact num-bigint evaluation and range check")
    .floor("parse:accepted", 1000)
    .floor("parse:rejected", 1000)
    .floor("print_parse", 1000);
    let mut report = Report::new(args, spec);
    if let Some(path) = &args.replay {
        let doc: serde_json::Value = serde_json::from_str(&std::fs::read_to_string(path).expect("replay")).expect("json");
        let d = &doc["detail"];
        let mut shard = Shard::new(0, "C27", args.tier, std::time::Instant::now() + Duration::from_secs(60));
        let Some(t) = d["text_hex"].as_str() else { return 2 };
        let text = String::from_utf8(unhex(t)).unwrap();
        if d["type"].as_str() == Some("Decimal") { check_parse::<Decimal>(&mut shard, &text, "replay") } else { check_parse::<PreciseDecimal>(&mut shard, &text, "replay") }
        println!("replayed {:?}: {} violation(s)", text, shard.violations.len());
        shard.nontrivial(&1);
        shard.nontrivial(&2);
        report.merge(shard);
        report.spec.floors.clear();
        return report.finish();
    }
    let per_shard = scaled(args, args.tier.pick(3_000_000, 100_000_000));
    let budget = Duration::from_secs(budget_secs(args.tier, 45, 600));
    report.run_shards(27, args.threads, budget, |_i, rng, shard| {
        let mut n = 0;
        while n < per_shard && !shard.time_up() {
            for _ in 0..256 {
                let dec = rng.bool();
                if rng.chance(1, 4) {
                    if dec {
                        let (v, _) = gen_value::<Decimal>(rng);
                        check_print::<Decimal>(shard, &v)
                    } else {
                        let (v, _) = gen_value::<PreciseDecimal>(rng);
                        check_print::<PreciseDecimal>(shard, &v)
                    }
                } else if dec {
                    let (s, c) = gen_text::<Decimal>(rng);
                    check_parse::<Decimal>(shard, &s, c)
                } else {
                    let (s, c) = gen_text::<PreciseDecimal>(rng);
                    check_parse::<PreciseDecimal>(shard, &s, c)
                }
            }
            n += 256;
        }
    });
    report.finish()
}
