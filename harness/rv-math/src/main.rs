//! C24-C27 (Decimal / PreciseDecimal arithmetic, rounding, roots & powers, text) and C29
//! (calendar time). Oracles use num-bigint exact arithmetic written from the property text.
mod fx;
mod c24;
mod c25;
mod c26;
mod c27;
mod c29;

fn main() {
    let args = rv_common::parse_args();
    let code = match args.prop.as_str() {
        "C24" => c24::run(&args),
        "C25" => c25::run(&args),
        "C26" => c26::run(&args),
        "C27" => c27::run(&args),
        "C29" => c29::run(&args),
        other => {
            eprintln!("rv-math: no check named {other}");
            2
        }
    };
    std::process::exit(code);
}
