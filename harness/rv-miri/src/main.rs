//! Miri shard: drives the `unsafe` paths of the SBOR array / byte-vector codecs and of the
//! `radix_rust::unicode` string escaper with hostile inputs under the undefined-behaviour
//! interpreter. Any UB (out-of-bounds, invalid value, use of uninitialised memory, misaligned or
//! dangling pointer use) aborts the run with Miri's report and a non-zero exit status.
//! usage: rv-miri <seed> <iterations>
use radix_rust::unicode::*;
use sbor::*;
use std::fmt::Write;

struct Rng(u64);
impl Rng {
    fn next(&mut self) -> u64 {
        self.0 = self.0.wrapping_add(0x9E3779B97F4A7C15);
        let mut z = self.0;
        z = (z ^ (z >> 30)).wrapping_mul(0xBF58476D1CE4E5B9);
        z = (z ^ (z >> 27)).wrapping_mul(0x94D049BB133111EB);
        z ^ (z >> 31)
    }
    fn below(&mut self, n: u64) -> u64 {
        self.next() % n
    }
}

struct Esc;
impl CustomCharEscaper for Esc {
    fn resolve_escape_behaviour(c: char) -> EscapeBehaviour {
        match c {
            '"' => EscapeBehaviour::Replace("\\\""),
            '\\' => EscapeBehaviour::Replace("\\\\"),
            '\n' => EscapeBehaviour::Replace("\\n"),
            c if rust_1_81_should_unicode_escape_in_debug_str(c) => EscapeBehaviour::UnicodeEscape,
            _ => EscapeBehaviour::None,
        }
    }
    fn format_string_start(f: &mut impl Write) -> std::fmt::Result {
        f.write_char('"')
    }
    fn format_string_end(f: &mut impl Write) -> std::fmt::Result {
        f.write_char('"')
    }
    fn format_unicode_escaped_char(f: &mut impl Write, c: char) -> std::fmt::Result {
        format_json_utf16_escaped_char(f, c)
    }
}

fn hostile_payload(rng: &mut Rng, kind: u8) -> Vec<u8> {
    // [prefix 0x5b basic][Array 0x20][elem kind][size LEB128][body...] with lies about the size
    let n = rng.below(12) as usize;
    let claimed = match rng.below(10) {
        0..=4 => n,
        5 => n + 1,
        6 => n.saturating_sub(1),
        7 => 0x0fff_ffff,
        8 => 0,
        _ => rng.below(300) as usize,
    };
    let mut p = vec![0x5b, 0x20, kind];
    let mut s = claimed;
    loop {
        let b = (s & 0x7f) as u8;
        s >>= 7;
        if s == 0 {
            p.push(b);
            break;
        }
        p.push(b | 0x80);
    }
    let elem = match kind {
        0x07 | 0x02 => 1,
        0x08 | 0x03 => 2,
        0x09 | 0x04 => 4,
        _ => 8,
    };
    for _ in 0..n * elem {
        p.push(rng.next() as u8);
    }
    if rng.below(8) == 0 {
        let cut = rng.below(p.len() as u64 + 1) as usize;
        p.truncate(cut);
    }
    p
}

fn rand_string(rng: &mut Rng) -> String {
    let n = rng.below(24);
    let mut s = String::new();
    for _ in 0..n {
        let c = match rng.below(8) {
            0 => '"',
            1 => '\\',
            2 => char::from_u32(rng.below(0x20) as u32).unwrap(),
            3 => char::from_u32(0x7f + rng.below(0x40) as u32).unwrap_or('x'),
            4 => char::from_u32(0x1F600 + rng.below(80) as u32).unwrap_or('x'),
            5 => char::from_u32(0x300 + rng.below(0x70) as u32).unwrap_or('x'),
            6 => char::from_u32(rng.below(0x10FFFF) as u32).unwrap_or('\u{FFFD}'),
            _ => (b'a' + rng.below(26) as u8) as char,
        };
        s.push(c);
    }
    s
}

fn main() {
    let args: Vec<String> = std::env::args().collect();
    let seed: u64 = args.get(1).and_then(|s| s.parse().ok()).unwrap_or(1);
    let iters: u64 = args.get(2).and_then(|s| s.parse().ok()).unwrap_or(200);
    let mut rng = Rng(seed);
    let (mut dec_ok, mut dec_err, mut esc) = (0u64, 0u64, 0u64);
    for _ in 0..iters {
        // byte vectors / arrays through the unsafe fast paths and MaybeUninit array decode
        let p = hostile_payload(&mut rng, 0x07);
        match basic_decode::<Vec<u8>>(&p) {
            Ok(v) => {
                dec_ok += 1;
                let back = basic_encode(&v).unwrap();
                assert_eq!(basic_decode::<Vec<u8>>(&back).unwrap(), v);
            }
            Err(_) => dec_err += 1,
        }
        let _ = basic_decode::<[u8; 8]>(&p).map(|a| basic_encode(&a).unwrap());
        let _ = basic_decode::<Vec<Box<u8>>>(&p).map(|v| basic_encode(&v).unwrap());
        let p = hostile_payload(&mut rng, 0x02);
        let _ = basic_decode::<Vec<i8>>(&p).map(|v| basic_encode(&v).unwrap());
        let _ = basic_decode::<[i8; 3]>(&p);
        let p = hostile_payload(&mut rng, 0x08);
        let _ = basic_decode::<[u16; 4]>(&p).map(|a| basic_encode(&a).unwrap());
        let _ = basic_decode::<Vec<u16>>(&p);
        let p = hostile_payload(&mut rng, 0x0a);
        let _ = basic_decode::<[u64; 2]>(&p);
        // arrays of heap values: partially decoded arrays must not be dropped as initialised
        let strings: Vec<String> = (0..3).map(|_| rand_string(&mut rng)).collect();
        let mut enc = basic_encode(&strings).unwrap();
        let _ = basic_decode::<[String; 3]>(&enc).map(|a| assert_eq!(a.to_vec(), strings));
        if !enc.is_empty() {
            let i = rng.below(enc.len() as u64) as usize;
            enc[i] ^= 1 << rng.below(8);
            let _ = basic_decode::<[String; 3]>(&enc);
            let _ = basic_decode::<[String; 2]>(&enc);
            let _ = basic_decode::<BasicValue>(&enc);
        }
        // the string escaper
        let s = rand_string(&mut rng);
        let mut out = String::new();
        format_custom_escaped::<Esc>(&mut out, &s).unwrap();
        assert!(out.starts_with('"') && out.ends_with('"'));
        esc += 1;
    }
    println!("MIRI-SHARD seed={seed} iterations={iters} decode_ok={dec_ok} decode_err={dec_err} escaped={esc}");
}
