//! The probe world: two probe packages (same code, different package addresses), per package a
//! runner component and a never-called victim component (funded vault in a field; key-value store,
//! empty vault, plain object and data entry in its collection), a victim account, a fungible resource.
use crate::pledger::*;
use crate::probe::*;
use rv_common::*;
use rv_ledger::decode::{self, Db};
use rv_ledger::prelude::*;
use std::collections::{BTreeMap, BTreeSet};

pub struct PWorld {
    pub ledger: PLedger,
    pub pkg: [PackageAddress; 2],
    /// runner components: g[p] of package p; g_b = second instance of package 0
    pub g: [GlobalAddress; 2],
    pub g_b: GlobalAddress,
    pub victim: [GlobalAddress; 2],
    pub res: ResourceAddress,
    pub src: ComponentAddress,
    pub src_pk: Secp256k1PublicKey,
    pub sink: ComponentAddress,
    pub victim_account: ComponentAddress,
    /// nodes nobody may touch: victims and the victim account with everything they own
    pub protected: BTreeSet<NodeId>,
    /// internal protected nodes by role: (label, node)
    pub forge: Vec<(String, NodeId)>,
}

pub fn subtree(db: &Db, root: NodeId) -> BTreeSet<NodeId> {
    let mut parts: BTreeMap<NodeId, Vec<DbPartitionKey>> = BTreeMap::new();
    for pk in db.list_partition_keys() {
        parts.entry(SpreadPrefixKeyMapper::from_db_node_key(&pk.node_key)).or_default().push(pk);
    }
    let mut seen = BTreeSet::new();
    let mut stack = vec![root];
    while let Some(n) = stack.pop() {
        if !seen.insert(n) {
            continue;
        }
        for pk in parts.get(&n).into_iter().flatten() {
            for (_k, v) in db.list_raw_values_from_db_key(pk, None) {
                if let Ok(iv) = IndexedScryptoValue::from_slice(&v) {
                    for o in iv.owned_nodes() {
                        stack.push(*o);
                    }
                }
            }
        }
    }
    seen
}

pub enum Callee {
    Method(GlobalAddress),
    Function(PackageAddress),
}

pub struct Launch {
    pub callee: Callee,
    pub script: Vec<Op>,
    /// amounts of `res` withdrawn from src and passed as buckets
    pub buckets: Vec<Decimal>,
    pub proofs: usize,
    pub reservations: Vec<(PackageAddress, String)>,
    pub refs: Vec<GlobalAddress>,
}

impl PWorld {
    pub fn new(shard: &mut Shard) -> Self {
        let mut ledger = PLedger::new();
        let (src_pk, _sk, src) = ledger.sim.new_allocated_account();
        let (_pk2, _sk2, sink) = ledger.sim.new_allocated_account();
        let (_pk3, _sk3, victim_account) = ledger.sim.new_allocated_account();
        let res = ledger.sim.create_fungible_resource(dec!(1000000), 18, src);
        let p0 = ledger.sim.publish_native_package(CODE_ID, package_definition());
        let p1 = ledger.sim.publish_native_package(CODE_ID, package_definition());
        let proofs = vec![NonFungibleGlobalId::from_public_key(&src_pk)];
        let m = ManifestBuilder::new().lock_fee_from_faucet().withdraw_from_account(src, res, dec!(500)).try_deposit_entire_worktop_or_abort(victim_account, None).build();
        ledger.exec(shard, "setup:fund_victim_account", m, proofs.clone(), false).exec.receipt().expect_commit_success();
        let mut new_global = |ledger: &mut PLedger, shard: &mut Shard, p: PackageAddress, royalty: bool| -> GlobalAddress {
            let m = ManifestBuilder::new().lock_fee_from_faucet().call_function(p, BP, "new_global", manifest_args!(b"init".to_vec(), royalty)).build();
            let r = ledger.exec(shard, "setup:new_global", m, vec![], false);
            r.exec.receipt().expect_commit_success().new_component_addresses()[0].into()
        };
        let g0 = new_global(&mut ledger, shard, p0, true);
        let g1 = new_global(&mut ledger, shard, p1, true);
        let g_b = new_global(&mut ledger, shard, p0, false);
        let mut protected = BTreeSet::new();
        let mut forge = vec![];
        let mut victims = vec![];
        for (i, p) in [p0, p1].into_iter().enumerate() {
            let m = ManifestBuilder::new()
                .lock_fee_from_faucet()
                .withdraw_from_account(src, res, dec!(1000))
                .take_all_from_worktop(res, "b")
                .call_function_with_name_lookup(p, BP, "make_victim", |l| (l.bucket("b"), res))
                .build();
            let r = ledger.exec(shard, "setup:make_victim", m, proofs.clone(), false);
            let v: GlobalAddress = r.exec.receipt().expect_commit_success().new_component_addresses()[0].into();
            victims.push(v);
            let tree = subtree(ledger.db(), v.into_node_id());
            for n in &tree {
                if *n == v.into_node_id() {
                    continue;
                }
                let label = match decode::type_info(ledger.db(), n) {
                    Some(TypeInfoSubstate::Object(o)) => format!("victim{i}:{}", o.blueprint_info.blueprint_id.blueprint_name),
                    Some(TypeInfoSubstate::KeyValueStore(_)) => format!("victim{i}:KeyValueStore"),
                    _ => format!("victim{i}:other"),
                };
                forge.push((label, *n));
            }
            protected.extend(tree);
        }
        let tree = subtree(ledger.db(), victim_account.into_node_id());
        for n in &tree {
            if decode::is_vault(n) {
                forge.push(("account:vault".to_string(), *n));
            }
        }
        protected.extend(tree);
        PWorld { ledger, pkg: [p0, p1], g: [g0, g1], g_b, victim: [victims[0], victims[1]], res, src, src_pk, sink, victim_account, protected, forge }
    }

    pub fn manifest(&self, l: &Launch) -> TransactionManifestV1 {
        let mut b = ManifestBuilder::new().lock_fee_from_faucet();
        let total: Decimal = l.buckets.iter().fold(Decimal::ZERO, |a, x| a + *x) + Decimal::from(l.proofs as u32);
        if total.is_positive() {
            b = b.withdraw_from_account(self.src, self.res, total);
        }
        for (i, a) in l.buckets.iter().enumerate() {
            b = b.take_from_worktop(self.res, *a, format!("b{i}"));
        }
        for i in 0..l.proofs {
            b = b.take_from_worktop(self.res, dec!(1), format!("pb{i}"));
            b = b.create_proof_from_bucket_of_all(format!("pb{i}"), format!("p{i}"));
        }
        for (i, (p, bp)) in l.reservations.iter().enumerate() {
            b = b.allocate_global_address(*p, bp.clone(), format!("r{i}"), format!("a{i}"));
        }
        let script = scrypto_encode(&l.script).unwrap();
        let (nb, np, nr) = (l.buckets.len(), l.proofs, l.reservations.len());
        let refs = l.refs.clone();
        let args = move |lk: &ManifestNameLookup| {
            (
                script,
                (0..nb).map(|i| lk.bucket(format!("b{i}"))).collect::<Vec<ManifestBucket>>(),
                (0..np).map(|i| lk.proof(format!("p{i}"))).collect::<Vec<ManifestProof>>(),
                (0..nr).map(|i| lk.address_reservation(format!("r{i}"))).collect::<Vec<ManifestAddressReservation>>(),
                refs,
            )
        };
        b = match &l.callee {
            Callee::Method(a) => b.call_method_with_name_lookup(*a, "run", args),
            Callee::Function(p) => b.call_function_with_name_lookup(*p, BP, "run_fn", args),
        };
        for i in 0..l.proofs {
            b = b.return_to_worktop(format!("pb{i}"));
        }
        b.try_deposit_entire_worktop_or_abort(self.sink, None).build()
    }

    pub fn launch(&mut self, shard: &mut Shard, label: &str, l: &Launch, cfg: Option<ExecutionConfig>) -> PExec {
        let m = self.manifest(l);
        let proofs = vec![NonFungibleGlobalId::from_public_key(&self.src_pk)];
        match cfg {
            Some(c) => self.ledger.exec_cfg(shard, label, m, proofs, c, true),
            None => self.ledger.exec(shard, label, m, proofs, true),
        }
    }
}
