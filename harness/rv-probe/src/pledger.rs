//! A monitored ledger whose simulator carries the SysProbe native-VM extension. This is a thin
//! copy of `rv_ledger::Ledger::run_observed` (rv-ledger's `Ledger` is not generic over the
//! extension type); every transaction goes through `rv_ledger::monitors::observe`, and the
//! whole-database walkers are run through a NoExtension `Ledger` rebuilt from a snapshot.
use crate::probe::*;
use radix_engine::vm::OverridePackageCode;
use rv_common::*;
use rv_ledger::decode::Db;
use rv_ledger::monitors::{observe, History, Obs, TxMeta};
use rv_ledger::prelude::*;
use rv_ledger::{Exec, HookStats, Ledger, HOOK_STATS};
use serde_json::json;

pub type PSim = LedgerSimulator<OverridePackageCode<ProbeInvoke>, InMemorySubstateDatabase>;

pub struct PLedger {
    pub sim: PSim,
    pub hist: History,
    pub limits: LimitParameters,
    pub last_hooks: HookStats,
}

pub struct PExec {
    pub exec: Exec,
    pub trace: Vec<TraceEv>,
    pub pre: Option<Db>,
}

impl PLedger {
    pub fn new() -> Self {
        let sim = LedgerSimulatorBuilder::new().without_receipt_substate_check().with_custom_extension(OverridePackageCode::new(CODE_ID, ProbeInvoke)).build();
        // Ledger::from_sim installs the per-thread verif-hook sink (it is private to rv-ledger).
        let bridge = Ledger::from_sim(LedgerSimulatorBuilder::new().build_from_snapshot(sim.create_snapshot()));
        drop(bridge);
        PLedger { sim, hist: History::default(), limits: LimitParameters::babylon_genesis(), last_hooks: HookStats::default() }
    }

    pub fn db(&self) -> &Db {
        self.sim.substate_db()
    }

    /// Run the C04/C05 whole-database walkers over the current state.
    pub fn walk(&self, shard: &mut Shard, at: &str) {
        let mut bridge = Ledger::from_sim(LedgerSimulatorBuilder::new().build_from_snapshot(self.sim.create_snapshot()));
        bridge.hist = self.hist.clone();
        rv_ledger::walkers::walk_all(shard, &bridge, at);
    }

    pub fn exec(&mut self, shard: &mut Shard, label: &str, manifest: TransactionManifestV1, proofs: Vec<NonFungibleGlobalId>, keep_pre: bool) -> PExec {
        self.exec_cfg(shard, label, manifest, proofs, ExecutionConfig::for_test_transaction(), keep_pre)
    }

    pub fn exec_cfg(&mut self, shard: &mut Shard, label: &str, manifest: TransactionManifestV1, proofs: Vec<NonFungibleGlobalId>, config: ExecutionConfig, keep_pre: bool) -> PExec {
        let description = rv_ledger::describe_manifest(&manifest, &proofs);
        let nonce = self.sim.next_transaction_nonce();
        let executable = match manifest.into_executable_with_proofs(nonce, proofs.into_iter().collect(), self.sim.transaction_validator()) {
            Ok(e) => e,
            Err(e) => {
                shard.count("harness:manifest_not_convertible");
                shard.seen("harness:conversion_errors", &format!("{:?}", e).chars().take(80).collect::<String>());
                return PExec { exec: Exec { receipt: None, panic: None }, trace: vec![], pre: None };
            }
        };
        let limits = config.system_overrides.as_ref().and_then(|o| o.limit_parameters.clone()).unwrap_or_else(|| self.limits.clone());
        let limits_disabled = config.system_overrides.as_ref().map(|o| o.disable_limits).unwrap_or(false);
        let pre: Db = self.sim.substate_db().clone();
        HOOK_STATS.with(|s| *s.borrow_mut() = HookStats::default());
        clear_swallowed_panic();
        trace_reset();
        shard.eval();
        let sim = &mut self.sim;
        let result = catch_mut(|| sim.execute_transaction(executable, config));
        let trace = trace_take();
        let hooks = HOOK_STATS.with(|s| s.borrow().clone());
        shard.add("hook:frames_entered", hooks.frames);
        shard.add("hook:lock_events", hooks.lock_events);
        self.last_hooks = hooks.clone();
        let meta = TxMeta {
            label: label.to_string(),
            is_system: limits_disabled,
            description,
            limits,
            max_depth: if hooks.frames > 0 { Some(hooks.max_depth) } else { None },
            max_invoke_payload: if hooks.frames > 0 { Some(hooks.max_payload) } else { None },
        };
        match result {
            Err(p) => {
                let file = p.site().rsplit_once(':').map(|(f, _)| f.to_string()).unwrap_or_else(|| p.site());
                let msg: String = p.message.chars().filter(|c| !c.is_ascii_digit()).take(60).collect();
                let sig = format!("execute-panic@{file}:{}", msg.replace(' ', "_"));
                shard.count("tx:panicked");
                shard.violation_for("C11", sig, json!({"tx_label": meta.label, "tx": meta.description, "panic": p.summary()}));
                PExec { exec: Exec { receipt: None, panic: Some(p) }, trace, pre: None }
            }
            Ok(receipt) => {
                {
                    let obs = Obs { pre: &pre, post: self.sim.substate_db(), receipt: &receipt, meta: &meta };
                    observe(shard, &mut self.hist, &obs);
                }
                shard.seen("tx_labels", label);
                PExec { exec: Exec { receipt: Some(receipt), panic: None }, trace, pre: if keep_pre { Some(pre) } else { None } }
            }
        }
    }
}
