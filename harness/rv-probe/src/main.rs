//! SysProbe checks: C50 (blueprint encapsulation), C49 (limit boundaries), C51 (component locks).
use rv_common::*;

mod c05;
mod c49;
mod c50;
mod c51;
mod pledger;
mod probe;
mod world;

fn main() {
    let args = parse_args();
    let code = match args.prop.as_str() {
        "C50" => c50::run(&args),
        "C49" => c49::run(&args),
        "C05" => c05::run(&args),
        "C51" => c51::run(&args),
        "smoke" => c50::smoke(&args),
        other => {
            eprintln!("rv-probe: no check named {other}");
            2
        }
    };
    std::process::exit(code);
}
