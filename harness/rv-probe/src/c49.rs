use rv_common::*;
pub fn run(_args: &Args) -> i32 { 2 }
