//! C49 (boundary half): execution limits are enforced exactly.
//!
//! For random `LimitParameters` overrides and every limited quantity, SysProbe programs that
//! produce exactly L and L+1 of the quantity are executed from the same ledger snapshot: the
//! L-program must commit successfully, the (L+1)-program must fail with the matching
//! `TransactionLimitsError` variant. Quantities whose size the harness can compute itself
//! (event/log counts and sizes, encoded key size, stored value size) are built to hit L exactly;
//! for invoke payload and call depth the quantity is measured objectively by the kernel hook
//! (bytes of the largest invocation argument, deepest frame entered); for heap and track bytes the
//! threshold T of a program is found by bisection over the limit and exactness is checked as:
//! program+1 byte fails at T with the matching variant reporting actual == T+1 and succeeds at T+1,
//! program fails at T-1 reporting actual == T.
use crate::pledger::PExec;
use crate::probe::*;
use crate::world::*;
use radix_engine::errors::{RuntimeError, SystemModuleError};
use radix_engine::system::system_modules::limits::TransactionLimitsError;
use radix_engine::system::system_substates::KeyValueEntrySubstate;
use radix_engine_interface::api::ACTOR_STATE_SELF;
use rv_common::*;
use rv_ledger::monitors::History;
use rv_ledger::prelude::*;
use serde_json::json;
use std::time::Duration;

#[derive(Debug, Clone, PartialEq)]
enum Outcome {
    Success,
    Limit(String, Option<(usize, usize)>),
    Other(String),
}

fn classify(r: &PExec) -> Outcome {
    let Some(receipt) = &r.exec.receipt else { return Outcome::Other("panic-or-no-receipt".into()) };
    match &receipt.result {
        TransactionResult::Commit(c) => match &c.outcome {
            TransactionOutcome::Success(_) => Outcome::Success,
            TransactionOutcome::Failure(RuntimeError::SystemModuleError(SystemModuleError::TransactionLimitsError(e))) => {
                let name: String = format!("{:?}", e).chars().take_while(|c| c.is_alphanumeric()).collect();
                let am = match e {
                    TransactionLimitsError::TrackSubstateSizeExceeded { actual, max }
                    | TransactionLimitsError::HeapSubstateSizeExceeded { actual, max }
                    | TransactionLimitsError::LogSizeTooLarge { actual, max }
                    | TransactionLimitsError::EventSizeTooLarge { actual, max } => Some((*actual, *max)),
                    _ => None,
                };
                Outcome::Limit(name, am)
            }
            TransactionOutcome::Failure(e) => Outcome::Other(format!("commit-failure:{}", rv_ledger::monitors::error_class(e))),
        },
        TransactionResult::Reject(r) => {
            // a limit hit before the fee loan is repaid rejects the transaction
            let s = format!("{:?}", r.reason);
            match parse_limit_error(&s) {
                Some(o) => o,
                None => Outcome::Other(rv_ledger::outcome_class(receipt)),
            }
        }
        _ => Outcome::Other(rv_ledger::outcome_class(receipt)),
    }
}

/// Parse `TransactionLimitsError(Variant { actual: a, max: m })` out of a Debug rendering.
fn parse_limit_error(e: &str) -> Option<Outcome> {
    let pos = e.find("TransactionLimitsError(")?;
    let rest = &e[pos + "TransactionLimitsError(".len()..];
    let name: String = rest.chars().take_while(|c| c.is_alphanumeric()).collect();
    let num = |tag: &str| -> Option<usize> {
        let p = rest.find(tag)?;
        let digits: String = rest[p + tag.len()..].chars().take_while(|c| c.is_ascii_digit()).collect();
        digits.parse().ok()
    };
    let am = match (num("actual: "), num("max: ")) {
        (Some(a), Some(m)) if rest.find("actual: ").unwrap() < 80 => Some((a, m)),
        _ => None,
    };
    Some(Outcome::Limit(name, am))
}

struct Bench {
    world: PWorld,
    snap: LedgerSimulatorSnapshot,
    hist: History,
}

impl Bench {
    fn run(&mut self, shard: &mut Shard, label: &str, script: Vec<Op>, limits: Option<LimitParameters>) -> (Outcome, PExec) {
        self.world.ledger.sim.restore_snapshot(self.snap.clone());
        self.world.ledger.hist = self.hist.clone();
        let launch = Launch { callee: Callee::Method(self.world.g[0]), script, buckets: vec![], proofs: 0, reservations: vec![], refs: vec![self.world.g[0], self.world.g[1], self.world.g_b, self.world.pkg[0].into(), self.world.pkg[1].into(), self.world.res.into()] };
        let cfg = limits.map(|l| ExecutionConfig::for_test_transaction().update_system_overrides(|o| SystemOverrides { limit_parameters: Some(l), ..o }));
        let r = self.world.launch(shard, label, &launch, cfg);
        (classify(&r), r)
    }
}

fn random_limits(rng: &mut Rng) -> LimitParameters {
    LimitParameters {
        max_call_depth: rng.range(6, 16) as usize,
        max_heap_substate_total_bytes: rng.range(8 << 20, 64 << 20) as usize,
        max_track_substate_total_bytes: rng.range(8 << 20, 64 << 20) as usize,
        max_substate_key_size: rng.range(200, 2048) as usize,
        max_substate_value_size: rng.range(64 << 10, 2 << 20) as usize,
        max_invoke_input_size: rng.range(64 << 10, 1 << 20) as usize,
        max_event_size: rng.range(64, 64 << 10) as usize,
        max_log_size: rng.range(64, 64 << 10) as usize,
        max_panic_message_size: LimitParameters::babylon_genesis().max_panic_message_size,
        max_number_of_logs: rng.range(4, 300) as usize,
        max_number_of_events: rng.range(8, 300) as usize,
    }
}

const QUANTITIES: [&str; 10] = ["events_count", "logs_count", "event_size", "log_size", "key_size", "value_size", "invoke_payload", "call_depth", "heap_bytes", "track_bytes"];

fn expected_variant(q: &str) -> &'static str {
    match q {
        "events_count" => "TooManyEvents",
        "logs_count" => "TooManyLogs",
        "event_size" => "EventSizeTooLarge",
        "log_size" => "LogSizeTooLarge",
        "key_size" => "MaxSubstateKeySizeExceeded",
        "value_size" => "MaxSubstateSizeExceeded",
        "invoke_payload" => "MaxInvokePayloadSizeExceeded",
        "call_depth" => "MaxCallDepthLimitReached",
        "heap_bytes" => "HeapSubstateSizeExceeded",
        _ => "TrackSubstateSizeExceeded",
    }
}

fn limits_fields(l: &LimitParameters) -> Vec<usize> {
    vec![l.max_call_depth, l.max_heap_substate_total_bytes, l.max_track_substate_total_bytes, l.max_substate_key_size, l.max_substate_value_size, l.max_invoke_input_size, l.max_event_size, l.max_log_size, l.max_panic_message_size, l.max_number_of_logs, l.max_number_of_events]
}

fn limits_from_fields(f: &[usize]) -> LimitParameters {
    LimitParameters {
        max_call_depth: f[0],
        max_heap_substate_total_bytes: f[1],
        max_track_substate_total_bytes: f[2],
        max_substate_key_size: f[3],
        max_substate_value_size: f[4],
        max_invoke_input_size: f[5],
        max_event_size: f[6],
        max_log_size: f[7],
        max_panic_message_size: f[8],
        max_number_of_logs: f[9],
        max_number_of_events: f[10],
    }
}

fn detail(q: &str, limits: &LimitParameters, l: usize, program: &str, got: &Outcome) -> serde_json::Value {
    json!({"quantity": q, "limit_L": l, "limits": format!("{:?}", limits), "limits_fields": limits_fields(limits), "program": program, "observed": format!("{:?}", got)})
}

/// Judge the pair (at-L run, at-L+1 run).
fn judge_pair(shard: &mut Shard, q: &str, limits: &LimitParameters, l: usize, prog_l: &str, at_l: &Outcome, prog_l1: &str, at_l1: &Outcome) {
    shard.count(&format!("c49:{q}:pairs"));
    shard.nontrivial(&(q, l, format!("{:?}", at_l).chars().take(30).collect::<String>(), format!("{:?}", at_l1).chars().take(40).collect::<String>()));
    match at_l {
        Outcome::Success => shard.count(&format!("c49:{q}:success_at_L")),
        Outcome::Limit(v, _) => {
            shard.violation(format!("{q}:failed-at-exactly-the-limit"), detail(q, limits, l, prog_l, at_l));
            shard.count(&format!("c49:{q}:failure_at_L:{v}"));
        }
        Outcome::Other(o) => {
            shard.count(&format!("c49:{q}:other_at_L:{o}"));
            shard.seen("c49:unexpected_outcomes", &format!("{q}@L:{o}"));
        }
    }
    match at_l1 {
        Outcome::Success => shard.violation(format!("{q}:succeeded-above-the-limit"), detail(q, limits, l, prog_l1, at_l1)),
        Outcome::Limit(v, am) => {
            shard.count(&format!("c49:{q}:failure_at_L_plus_1:{v}"));
            if v != expected_variant(q) {
                shard.violation(format!("{q}:wrong-limit-error-variant"), detail(q, limits, l, prog_l1, at_l1));
            }
            if let Some((actual, max)) = am {
                if *actual <= *max || *max != l {
                    shard.violation(format!("{q}:limit-error-reports-actual-not-above-max"), detail(q, limits, l, prog_l1, at_l1));
                }
                if *actual != l + 1 {
                    shard.violation(format!("{q}:limit-error-reports-wrong-actual"), detail(q, limits, l, prog_l1, at_l1));
                }
            }
        }
        Outcome::Other(o) => {
            shard.count(&format!("c49:{q}:other_at_L_plus_1:{o}"));
            shard.seen("c49:unexpected_outcomes", &format!("{q}@L+1:{o}"));
        }
    }
}

fn key_of_encoded_len(target: usize) -> Option<Vec<u8>> {
    for n in target.saturating_sub(8)..=target {
        let k = vec![0x6bu8; n];
        if scrypto_encode(&k).unwrap().len() == target {
            return Some(k);
        }
    }
    None
}

fn kv_entry_len(payload: &Vec<u8>) -> usize {
    let v: ScryptoValue = scrypto_decode(&scrypto_encode(payload).unwrap()).unwrap();
    scrypto_encode(&KeyValueEntrySubstate::unlocked_entry(v)).unwrap().len()
}

fn payload_for_entry_len(target: usize) -> Option<Vec<u8>> {
    for n in target.saturating_sub(24)..=target {
        let p = vec![0x76u8; n];
        if kv_entry_len(&p) == target {
            return Some(p);
        }
    }
    None
}

fn one_quantity(shard: &mut Shard, b: &mut Bench, rng: &mut Rng, q: &str, base: &LimitParameters) {
    let mut limits = *base;
    match q {
        "events_count" => {
            // runtime events of the empty program = events before the first finalization event (PayFeeEvent)
            let (o0, r0) = b.run(shard, "c49:events:baseline", vec![], None);
            if o0 != Outcome::Success {
                shard.count("c49:baseline_failed");
                return;
            }
            let ev = &r0.exec.receipt().expect_commit(true).application_events;
            let base_rt = ev.iter().position(|(id, _)| id.1 == "PayFeeEvent").unwrap_or(ev.len());
            let l = limits.max_number_of_events;
            let n = (l - base_rt) as u32;
            let (a, _) = b.run(shard, "c49:events:L", vec![Op::EmitEvent { count: n, size: 16 }], Some(limits));
            let (c, _) = b.run(shard, "c49:events:L+1", vec![Op::EmitEvent { count: n + 1, size: 16 }], Some(limits));
            judge_pair(shard, q, &limits, l, &format!("{base_rt} runtime events of the envelope + {n} probe events"), &a, &format!("{base_rt} + {} probe events", n + 1), &c);
        }
        "logs_count" => {
            let l = limits.max_number_of_logs;
            let (a, _) = b.run(shard, "c49:logs:L", vec![Op::EmitLog { count: l as u32, size: 8 }], Some(limits));
            let (c, _) = b.run(shard, "c49:logs:L+1", vec![Op::EmitLog { count: l as u32 + 1, size: 8 }], Some(limits));
            judge_pair(shard, q, &limits, l, &format!("{l} logs"), &a, &format!("{} logs", l + 1), &c);
        }
        "event_size" => {
            let l = limits.max_event_size;
            if event_payload_of_size(l).is_none() || event_payload_of_size(l + 1).is_none() {
                shard.count("c49:unreachable_size_skipped");
                return;
            }
            let (a, _) = b.run(shard, "c49:event_size:L", vec![Op::EmitEvent { count: 1, size: l as u32 }], Some(limits));
            let (c, _) = b.run(shard, "c49:event_size:L+1", vec![Op::EmitEvent { count: 1, size: l as u32 + 1 }], Some(limits));
            judge_pair(shard, q, &limits, l, &format!("event of {l} bytes"), &a, &format!("event of {} bytes", l + 1), &c);
        }
        "log_size" => {
            let l = limits.max_log_size;
            let (a, _) = b.run(shard, "c49:log_size:L", vec![Op::EmitLog { count: 1, size: l as u32 }], Some(limits));
            let (c, _) = b.run(shard, "c49:log_size:L+1", vec![Op::EmitLog { count: 1, size: l as u32 + 1 }], Some(limits));
            judge_pair(shard, q, &limits, l, &format!("log of {l} bytes"), &a, &format!("log of {} bytes", l + 1), &c);
        }
        "key_size" => {
            let l = limits.max_substate_key_size;
            let (Some(k0), Some(k1)) = (key_of_encoded_len_raw(l), key_of_encoded_len_raw(l + 1)) else {
                shard.count("c49:unreachable_size_skipped");
                return;
            };
            let mode = *rng.pick(&[0u8, 1]);
            let route = rng.below(2);
            let prog = |k: Vec<u8>| -> Vec<Op> {
                if route == 0 {
                    vec![Op::NewKvStore { dst: 20 }, Op::KvStoreOp { t: Tgt::Slot(20), key: k, mode, payload: vec![1, 2, 3] }]
                } else {
                    vec![Op::KvActorOp { handle: ACTOR_STATE_SELF, collection: 0, key: k, mode, payload: vec![1, 2, 3] }]
                }
            };
            let (a, ra) = b.run(shard, "c49:key_size:L", prog(k0), Some(limits));
            let a = step_level(&ra, a);
            let (c, rc) = b.run(shard, "c49:key_size:L+1", prog(k1), Some(limits));
            let c = step_level(&rc, c);
            judge_pair(shard, q, &limits, l, &format!("map key of {l} encoded bytes (route {route}, mode {mode})"), &a, &format!("map key of {} encoded bytes", l + 1), &c);
        }
        "value_size" => {
            let l = limits.max_substate_value_size.min(400_000);
            limits.max_substate_value_size = l;
            limits.max_invoke_input_size = limits.max_invoke_input_size.max(l + 100_000);
            let (Some(p0), Some(p1)) = (payload_for_entry_len(l), payload_for_entry_len(l + 1)) else {
                shard.count("c49:unreachable_size_skipped");
                return;
            };
            let prog = |p: Vec<u8>| vec![Op::KvActorOp { handle: ACTOR_STATE_SELF, collection: 0, key: b"v".to_vec(), mode: 1, payload: p }];
            let (a, ra) = b.run(shard, "c49:value_size:L", prog(p0), Some(limits));
            let a = step_level(&ra, a);
            let (c, rc) = b.run(shard, "c49:value_size:L+1", prog(p1), Some(limits));
            let c = step_level(&rc, c);
            judge_pair(shard, q, &limits, l, &format!("key-value entry substate of {l} bytes"), &a, &format!("entry substate of {} bytes", l + 1), &c);
        }
        "invoke_payload" => {
            // objective size of the largest invocation argument = kernel hook (bytes of the args value)
            let l = limits.max_invoke_input_size.min(300_000);
            limits.max_invoke_input_size = l;
            // size of an invocation = bytes identifying the callee + bytes of the argument value (KernelInvocation::len);
            // the largest one is the manifest's CALL_METHOD <component> "run" carrying the script (the transaction
            // processor itself is not entered through an invocation): callee = node id + method name
            let root_actor = NodeId::LENGTH + "run".len();
            let prog = |p: usize| vec![Op::FieldOp { handle: ACTOR_STATE_SELF, index: 0, mode: 0, payload: vec![7u8; p] }];
            let mut p = l.saturating_sub(600);
            let mut found = None;
            for _ in 0..6 {
                let (o, _) = b.run(shard, "c49:invoke_payload:measure", prog(p), None);
                if o != Outcome::Success {
                    break;
                }
                let m = b.world.ledger.last_hooks.max_payload + root_actor;
                if m == l {
                    found = Some(p);
                    break;
                }
                p = (p as i64 + l as i64 - m as i64).max(0) as usize;
            }
            let Some(p) = found else {
                shard.count("c49:unreachable_size_skipped");
                return;
            };
            let (o1, _) = b.run(shard, "c49:invoke_payload:measure+1", prog(p + 1), None);
            let m1 = b.world.ledger.last_hooks.max_payload + root_actor;
            if o1 != Outcome::Success || m1 != l + 1 {
                shard.count("c49:unreachable_size_skipped");
                return;
            }
            let (a, _) = b.run(shard, "c49:invoke_payload:L", prog(p), Some(limits));
            let (c, _) = b.run(shard, "c49:invoke_payload:L+1", prog(p + 1), Some(limits));
            judge_pair(shard, q, &limits, l, &format!("largest invocation argument {l} bytes"), &a, &format!("largest invocation argument {} bytes", l + 1), &c);
        }
        "call_depth" => {
            let l = limits.max_call_depth;
            let pkg = b.world.pkg[rng.usize_below(2)];
            let mut generous = limits;
            generous.max_call_depth = 64;
            let (o0, _) = b.run(shard, "c49:call_depth:measure", vec![Op::Recurse { package: pkg, depth: 1 }], Some(generous));
            let d1 = b.world.ledger.last_hooks.max_depth;
            if o0 != Outcome::Success || d1 > l {
                shard.count("c49:baseline_failed");
                return;
            }
            let d = (1 + l - d1) as u32;
            let (om, _) = b.run(shard, "c49:call_depth:measure", vec![Op::Recurse { package: pkg, depth: d }], Some(generous));
            let dm = b.world.ledger.last_hooks.max_depth;
            if om != Outcome::Success || dm != l {
                // harness assumption (one frame per recursion level) does not hold: nothing to judge
                shard.count("c49:call_depth:recursion_depth_not_additive");
                shard.seen("c49:unexpected_outcomes", &format!("call_depth: recursion {d} entered depth {dm}, expected {l}, {:?}", om));
                return;
            }
            let (a, _) = b.run(shard, "c49:call_depth:L", vec![Op::Recurse { package: pkg, depth: d }], Some(limits));
            let (c, _) = b.run(shard, "c49:call_depth:L+1", vec![Op::Recurse { package: pkg, depth: d + 1 }], Some(limits));
            judge_pair(shard, q, &limits, l, &format!("recursion entering frame depth {l}"), &a, &format!("recursion entering frame depth {}", l + 1), &c);
        }
        "heap_bytes" | "track_bytes" => {
            let heap = q == "heap_bytes";
            let n = rng.range(300, 12_000) as usize;
            let prog = |n: usize| -> Vec<Op> {
                if heap {
                    vec![Op::NewObject { dst: 20, blueprint: BP_INNER.to_string(), nfields: 1, payload: vec![9u8; n] }]
                } else {
                    vec![Op::KvActorOp { handle: ACTOR_STATE_SELF, collection: 0, key: b"t".to_vec(), mode: 1, payload: vec![9u8; n] }]
                }
            };
            let with = |limits: &LimitParameters, v: usize| -> LimitParameters {
                let mut l = *limits;
                if heap {
                    l.max_heap_substate_total_bytes = v
                } else {
                    l.max_track_substate_total_bytes = v
                }
                l
            };
            // bisection for the smallest limit under which prog(n) commits
            let mut hi = (if heap { limits.max_heap_substate_total_bytes } else { limits.max_track_substate_total_bytes }).min(2 * n + 400_000);
            let mut lo = 0usize;
            let (oh, rh) = b.run(shard, "c49:bytes:search", prog(n), Some(with(&limits, hi)));
            let oh = step_level(&rh, oh);
            if oh != Outcome::Success {
                shard.count("c49:baseline_failed");
                return;
            }
            while hi - lo > 1 {
                let mid = lo + (hi - lo) / 2;
                let (o, ro) = b.run(shard, "c49:bytes:search", prog(n), Some(with(&limits, mid)));
                let o = step_level(&ro, o);
                match o {
                    Outcome::Success => hi = mid,
                    Outcome::Limit(ref v, _) if v == expected_variant(q) => lo = mid,
                    other => {
                        shard.seen("c49:unexpected_outcomes", &format!("{q}@search:{:?}", other).chars().take(80).collect::<String>());
                        shard.count("c49:search_aborted");
                        return;
                    }
                }
            }
            let t = hi;
            shard.count(&format!("c49:{q}:thresholds_found"));
            shard.max(&format!("c49:{q}:threshold"), t as u64);
            // program below its own threshold: must report actual == T
            let (below, rb) = b.run(shard, "c49:bytes:T-1", prog(n), Some(with(&limits, t - 1)));
            let below = step_level(&rb, below);
            match &below {
                Outcome::Limit(v, Some((actual, max))) if v == expected_variant(q) && *actual == t && *max == t - 1 => shard.count(&format!("c49:{q}:self_report_consistent")),
                other => shard.violation(format!("{q}:limit-error-reports-actual-not-above-max"), detail(q, &limits, t - 1, &format!("program with threshold {t}"), other)),
            }
            // L = T: program needing T succeeds, program needing T+1 fails, and succeeds at T+1
            let lim_t = with(&limits, t);
            let (a, ra) = b.run(shard, "c49:bytes:L", prog(n), Some(lim_t));
            let a = step_level(&ra, a);
            let (c, rc) = b.run(shard, "c49:bytes:L+1", prog(n + 1), Some(lim_t));
            let c = step_level(&rc, c);
            judge_pair(shard, q, &lim_t, t, &format!("program using {t} bytes (payload {n})"), &a, &format!("same program with one more payload byte"), &c);
            let (e, re) = b.run(shard, "c49:bytes:L+1@T+1", prog(n + 1), Some(with(&limits, t + 1)));
            let e = step_level(&re, e);
            if e != Outcome::Success {
                shard.violation(format!("{q}:failed-at-exactly-the-limit"), detail(q, &limits, t + 1, "program with one more payload byte than the T-program", &e));
            } else {
                shard.count(&format!("c49:{q}:shifted_threshold_exact"));
            }
        }
        _ => unreachable!(),
    }
}

fn key_of_encoded_len_raw(target: usize) -> Option<Vec<u8>> {
    // the probe encodes the raw key with SBOR (Vec<u8>): find the raw key whose encoding has `target` bytes
    key_of_encoded_len(target)
}

/// The probe continues after a failed non-invoking step: take the limit error from the step result
/// when the transaction as a whole still committed.
fn step_level(r: &PExec, tx: Outcome) -> Outcome {
    if matches!(tx, Outcome::Limit(..)) {
        return tx;
    }
    for ev in &r.trace {
        if let TraceEv::Step(s) = ev {
            if let Err(e) = &s.result {
                if let Some(o) = parse_limit_error(e) {
                    return o;
                }
                if tx == Outcome::Success {
                    return Outcome::Other(format!("step-error:{}", crate::c50::err_class(e)));
                }
            }
        }
    }
    tx
}

pub fn run(args: &Args) -> i32 {
    let mut spec = Spec::new(
        "C49",
        "exploration",
        "boundary probes: for random LimitParameters overrides and each of 10 limited quantities (event count, log count, event size, log size, substate key size, substate value size, invoke payload size, call depth, heap substate bytes, track substate bytes) a SysProbe program producing exactly L and one producing L+1 run from the same ledger snapshot; heap/track thresholds by bisection (≈25 runs each); distinct = distinct (quantity, L, outcome pair)",
    )
    .assume("event count = events emitted during execution (the receipt's events before the first finalization PayFeeEvent); fee-finalization events are appended after the limit check")
    .assume("invoke payload size = bytes identifying the callee (node id / package address, blueprint and function names) + bytes of the argument value, as the kernel defines it; the argument bytes and the depth of entered frames are measured by the kernel hook; heap/track byte accounting is the engine's own (the check is exactness of the threshold: +1 byte <=> +1 limit, and the self-reported actual == max+1)")
    .assume("limit configurations keep max_event_size >= 64 (the system's own LockFeeEvent must fit) and key/value/payload limits above the sizes of the system's own substates and invocations");
    for q in QUANTITIES {
        spec = spec.floor(&format!("c49:{q}:success_at_L"), args.tier.pick(60, 600)).floor(&format!("c49:{q}:failure_at_L_plus_1:{}", expected_variant(q)), args.tier.pick(60, 600));
    }
    let mut report = Report::new(args, spec);
    if let Some(path) = &args.replay {
        let doc: serde_json::Value = serde_json::from_str(&std::fs::read_to_string(path).expect("replay file")).expect("json");
        let d = doc.get("detail").cloned().unwrap_or_default();
        let fields: Vec<usize> = d.get("limits_fields").and_then(|f| f.as_array()).map(|a| a.iter().filter_map(|x| x.as_u64().map(|v| v as usize)).collect()).unwrap_or_default();
        let q = d.get("quantity").and_then(|q| q.as_str()).unwrap_or("").to_string();
        if fields.len() != 11 || !QUANTITIES.contains(&q.as_str()) {
            println!("replay file does not describe a C49 boundary case (a violation raised by a global monitor carries the manifest in its detail): {}", d);
            return 2;
        }
        let deadline = std::time::Instant::now() + Duration::from_secs(600);
        let mut shard = Shard::new(0, "C49", args.tier, deadline);
        let world = PWorld::new(&mut shard);
        let snap = world.ledger.sim.create_snapshot();
        let hist = world.ledger.hist.clone();
        let mut b = Bench { world, snap, hist };
        let mut rng = Rng::new(args.seed);
        let qq = QUANTITIES.iter().find(|x| **x == q).unwrap();
        one_quantity(&mut shard, &mut b, &mut rng, qq, &limits_from_fields(&fields));
        println!("replayed quantity {q} under the recorded limits: {} violation(s): {:?}", shard.violations.len(), shard.violations.iter().map(|v| (v.prop.clone(), v.signature.clone())).collect::<Vec<_>>());
        return if shard.violations.is_empty() { 0 } else { 1 };
    }
    let configs = scaled(args, args.tier.pick(200, 20_000));
    let per_shard = (configs / args.threads as u64).max(1);
    let budget = Duration::from_secs(budget_secs(args.tier, 90, 840));
    report.run_shards(49, args.threads, budget, |_i, rng, shard| {
        let world = PWorld::new(shard);
        let snap = world.ledger.sim.create_snapshot();
        let hist = world.ledger.hist.clone();
        let mut b = Bench { world, snap, hist };
        let mut n = 0;
        while n < per_shard && !shard.time_up() {
            n += 1;
            let base = random_limits(rng);
            shard.count("c49:limit_configurations");
            for q in QUANTITIES {
                if shard.time_up() {
                    break;
                }
                one_quantity(shard, &mut b, rng, q, &base);
            }
            if n == 1 {
                shard.sample(|| json!({"limits": format!("{:?}", base)}));
            }
        }
    });
    report.finish()
}
