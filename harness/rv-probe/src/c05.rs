//! C05 (single-owner clause, hostile half): a SysProbe component creates a node (object, inner
//! object, vault, key-value store) and writes a value that lists the same `Own` twice into one of
//! its own collection entries or into an entry of a key-value store it holds - as a first write
//! or as a re-write of an entry it has just written and still holds open. No manifest and no native
//! blueprint ever produces such a value, so this is the only workload that reaches the
//! duplicate-own rule of the kernel's substate diff. The write step must fail; if it returns Ok the
//! step itself is reported, and after every committed transaction whose script contained such a
//! step the whole-database walkers (ownership tree: exactly one owner per internal node; the
//! repository's KernelDatabaseChecker as second opinion) run on the resulting state.
use crate::probe::*;
use crate::world::*;
use rv_common::*;
use serde_json::json;
use std::time::Duration;

pub fn run(args: &Args) -> i32 {
    let spec = Spec::new(
        "C05",
        "exploration",
        "scripts run by SysProbe components that write a value listing one Own twice (tuple, array, separated by data, re-write of an open entry) into an own collection entry or an entry of a held key-value store, or creating a new object whose field lists it twice, for freshly created objects, inner objects, vaults and key-value stores, alone or after ordinary stores in the same frame; non-trivial = a duplicated-own write step that reached the system API; distinct = distinct (node kind, value shape, destination, step outcome class, transaction outcome)",
    )
    .assume("the duplicated-own write goes through SystemApi::key_value_entry_set of a native blueprint (the same kernel path a WASM component reaches through its key-value store API)")
    .floor("c05p:dup_write_steps", args.tier.pick(400, 8000))
    .floor("c05p:dup_write_steps:own_collection", args.tier.pick(100, 2000))
    .floor("c05p:dup_write_steps:kv_store", args.tier.pick(100, 2000))
    .floor("c05p:dup_write_steps:rewrite_of_open_entry", args.tier.pick(50, 1000))
    .floor("c05p:dup_write_steps:new_object_field", args.tier.pick(50, 1000));
    let mut report = Report::new(args, spec);
    if args.replay.is_some() {
        println!("C05 probe: re-run with the recorded seed (VERIF_SEED) and tier; the detail lists the script");
        return 2;
    }
    let txs = scaled(args, args.tier.pick(1_600, 60_000));
    let per_shard = (txs / args.threads as u64).max(1);
    let budget = Duration::from_secs(budget_secs(args.tier, 40, 600));
    report.run_shards(5, args.threads, budget, |i, rng, shard| {
        let mut world = PWorld::new(shard);
        let refs = vec![world.g[0], world.g[1], world.g_b, world.pkg[0].into(), world.pkg[1].into(), world.res.into()];
        let callers = [world.g[0], world.g[1], world.g_b];
        let mut n = 0u64;
        let mut walks = 0u64;
        while n < per_shard && !shard.time_up() {
            n += 1;
            let mut script: Vec<Op> = vec![];
            // ordinary stores first, sometimes
            if rng.chance(1, 3) {
                script.push(Op::NewKvStore { dst: 30 });
                script.push(Op::StoreInKv { slot: 30, key: [b"pre".as_slice(), &rng.bytes(4)].concat() });
            }
            let kind = rng.below(4);
            let kind_name = match kind {
                0 => {
                    script.push(Op::NewObject { dst: 10, blueprint: BP.to_string(), nfields: 2, payload: rng.bytes(3) });
                    "object"
                }
                1 => {
                    script.push(Op::NewObject { dst: 10, blueprint: BP_INNER.to_string(), nfields: 1, payload: rng.bytes(3) });
                    "inner_object"
                }
                2 => {
                    script.push(Op::CreateVault { dst: 10, resource: world.res });
                    "vault"
                }
                _ => {
                    script.push(Op::NewKvStore { dst: 10 });
                    "kv_store"
                }
            };
            let into_store = rng.bool();
            if into_store {
                script.push(Op::NewKvStore { dst: 11 });
            }
            let shape = rng.below(5) as u8;
            let key = [b"dup".as_slice(), &rng.bytes(5)].concat();
            let dup_idx = script.len();
            script.push(Op::StoreDup { slot: 10, store: if into_store { Some(11) } else { None }, key, shape });
            let launch = Launch { callee: Callee::Method(*rng.pick(&callers)), script: script.clone(), buckets: vec![], proofs: 0, reservations: vec![], refs: refs.clone() };
            let r = world.launch(shard, "c05p:script", &launch, None);
            shard.count("c05p:transactions");
            let Some(receipt) = &r.exec.receipt else { continue };
            let txo = rv_ledger::outcome_class(receipt);
            let mut reached = false;
            for ev in &r.trace {
                let TraceEv::Step(s) = ev else { continue };
                if s.frame != 1 || s.idx != dup_idx || !matches!(s.op, Op::StoreDup { .. }) {
                    continue;
                }
                // the step reached the system API iff it has a target node
                if s.target.is_none() {
                    shard.count("c05p:dup_step_without_node");
                    continue;
                }
                reached = true;
                let outcome = match &s.result {
                    Ok(_) => "ok".to_string(),
                    Err(e) => format!("err:{}", crate::c50::err_class(e)),
                };
                shard.count("c05p:dup_write_steps");
                if shape != 4 {
                    shard.count(if into_store { "c05p:dup_write_steps:kv_store" } else { "c05p:dup_write_steps:own_collection" });
                }
                if shape == 3 {
                    shard.count("c05p:dup_write_steps:rewrite_of_open_entry");
                }
                if shape == 4 {
                    shard.count("c05p:dup_write_steps:new_object_field");
                }
                shard.seen("c05p:dup_write_outcomes", &outcome);
                shard.nontrivial(&(kind_name, shape, into_store, &outcome, &txo));
                if s.result.is_ok() {
                    shard.violation(
                        "duplicated-own-write-accepted",
                        json!({"shard": i, "tx_number": n, "node_kind": kind_name, "shape": shape, "into_kv_store": into_store, "tx_outcome": txo, "script": script.iter().map(|o| format!("{:?}", o)).collect::<Vec<_>>()}),
                    );
                }
            }
            // the stored state after a commit that contained such a step must still be a tree
            if reached && receipt.is_commit_success() {
                shard.count("c05p:commits_after_dup_step");
                world.ledger.walk(shard, &format!("C05 probe shard {i} tx {n} (committed after duplicated-own step)"));
                walks += 1;
            } else if n % 500 == 0 {
                world.ledger.walk(shard, &format!("C05 probe shard {i} after {n}"));
                walks += 1;
            }
        }
        world.ledger.walk(shard, &format!("end of C05 probe shard {i}"));
        shard.sample(|| json!({"shard": i, "transactions": n, "walks": walks + 1}));
    });
    report.finish()
}
