//! C50: objects are encapsulated by their blueprint.
//!
//! Oracle (from the property text, independent of the engine's own checks): the harness keeps a
//! ground-truth table node -> (class, blueprint, outer object) built *by construction* from the
//! script steps that created each node (and from stored TypeInfo for persisted nodes) and an actor
//! (package, blueprint, instance context) per probe frame derived from who was called. For every
//! step it computes the relation actor/target and demands:
//!   * create/drop/globalize/state-open aimed at an object of a FOREIGN PACKAGE's blueprint -> Err;
//!   * any access (drop, globalize, kv-store entry open, method call by forged id) to a node inside
//!     a never-called victim component / victim account -> Err, and the victims' substates are
//!     byte-identical after every committed transaction;
//!   * own-blueprint drops/globalizes and proof drops are never refused with an *access* error;
//!   * an object created by `new_object` has the actor's package, the requested blueprint and, for
//!     an inner blueprint, the actor's instance context as outer object (checked through the system
//!     API inside the transaction and through stored TypeInfo after commit).
//! Same-package-other-blueprint and inner->outer state access are by-design grey zones: counted,
//! never verdict-bearing.
use crate::pledger::PExec;
use crate::probe::*;
use crate::world::*;
use radix_engine_interface::api::{ACTOR_REF_AUTH_ZONE, ACTOR_REF_GLOBAL, ACTOR_REF_OUTER, ACTOR_REF_SELF, ACTOR_STATE_OUTER_OBJECT, ACTOR_STATE_SELF};
use rv_common::*;
use rv_ledger::decode::{self, Db};
use rv_ledger::prelude::*;
use serde_json::{json, Value};
use std::collections::{BTreeMap, BTreeSet, HashMap};
use std::time::Duration;

// ---------------------------------------------------------------------------------------------
// Ground-truth model
// ---------------------------------------------------------------------------------------------
#[derive(Clone, Debug, PartialEq, Eq)]
pub enum Class {
    Object,
    KvStore,
    Reservation,
}

#[derive(Clone, Debug)]
pub struct Kind {
    pub class: Class,
    /// blueprint of the object / blueprint an address reservation was made for
    pub bp: Option<(PackageAddress, String)>,
    pub outer: Option<GlobalAddress>,
    pub global: bool,
}

impl Kind {
    fn object(p: PackageAddress, name: &str, outer: Option<GlobalAddress>) -> Kind {
        Kind { class: Class::Object, bp: Some((p, name.to_string())), outer, global: false }
    }
    fn is_proof(&self) -> bool {
        matches!(&self.bp, Some((p, n)) if *p == RESOURCE_PACKAGE && (n == FUNGIBLE_PROOF_BLUEPRINT || n == NON_FUNGIBLE_PROOF_BLUEPRINT)) && self.class == Class::Object
    }
    fn describe(&self) -> String {
        format!("{:?}:{}{}{}", self.class, self.bp.as_ref().map(|(p, n)| format!("{}:{}", hex::encode(&p.as_node_id().0[..4]), n)).unwrap_or_default(), if self.outer.is_some() { "(inner)" } else { "" }, if self.global { "(global)" } else { "" })
    }
}

#[derive(Clone, Debug)]
pub struct Actor {
    pub pkg: PackageAddress,
    pub bp: String,
    pub ctx: Option<GlobalAddress>,
    pub is_method: bool,
    pub node: Option<NodeId>,
}

#[derive(Clone, Copy, Debug, PartialEq, Eq)]
pub enum Rel {
    Own,
    OwnInner,
    SamePackage,
    Foreign,
    Proof,
    KvStore,
    Unknown,
}

impl Rel {
    fn name(&self) -> &'static str {
        match self {
            Rel::Own => "own-blueprint",
            Rel::OwnInner => "inner-of-own-outer",
            Rel::SamePackage => "same-package-other-blueprint-or-instance",
            Rel::Foreign => "foreign-package",
            Rel::Proof => "proof",
            Rel::KvStore => "kv-store",
            Rel::Unknown => "unknown",
        }
    }
}

pub fn relation(a: &Actor, k: &Kind) -> Rel {
    match k.class {
        Class::KvStore => Rel::KvStore,
        Class::Object | Class::Reservation => {
            if k.is_proof() {
                return Rel::Proof;
            }
            let Some((p, n)) = &k.bp else { return Rel::Unknown };
            if *p != a.pkg {
                return Rel::Foreign;
            }
            if k.class == Class::Object {
                if let Some(o) = k.outer {
                    return if a.ctx == Some(o) { Rel::OwnInner } else { Rel::SamePackage };
                }
            }
            if *n == a.bp {
                Rel::Own
            } else {
                Rel::SamePackage
            }
        }
    }
}

/// Finer label for the evidence tables (the verdict only depends on `relation`).
pub fn rel_label(a: &Actor, k: &Kind) -> String {
    let r = relation(a, k);
    let base = r.name();
    match (r, &k.bp) {
        (Rel::Foreign, Some((p, n))) => {
            let probe_pkg = *p != RESOURCE_PACKAGE && *p != METADATA_MODULE_PACKAGE && *p != ROLE_ASSIGNMENT_MODULE_PACKAGE && *p != ROYALTY_MODULE_PACKAGE && *p != ACCOUNT_PACKAGE;
            if probe_pkg && (*n == a.bp || n == BP || n == BP_INNER) {
                format!("{base}:same-blueprint-name-other-package{}", if k.outer.is_some() { "(inner-of-other-outer)" } else { "" })
            } else {
                format!("{base}:native{}", if k.outer.is_some() { "(inner-of-other-outer)" } else { "" })
            }
        }
        (Rel::SamePackage, Some((_, n))) => {
            if k.outer.is_some() {
                "same-package:inner-of-other-outer".to_string()
            } else if *n != a.bp {
                "same-package:other-blueprint".to_string()
            } else {
                base.to_string()
            }
        }
        _ => base.to_string(),
    }
}

pub fn kind_from_db(db: &Db, n: &NodeId) -> Option<Kind> {
    match decode::type_info(db, n)? {
        TypeInfoSubstate::Object(o) => {
            let outer = match o.blueprint_info.outer_obj_info {
                OuterObjectInfo::Some { outer_object } => Some(outer_object),
                OuterObjectInfo::None => None,
            };
            Some(Kind { class: Class::Object, bp: Some((o.blueprint_info.blueprint_id.package_address, o.blueprint_info.blueprint_id.blueprint_name.clone())), outer, global: o.is_global() })
        }
        TypeInfoSubstate::KeyValueStore(_) => Some(Kind { class: Class::KvStore, bp: None, outer: None, global: false }),
        _ => None,
    }
}

pub fn err_class(e: &str) -> String {
    // leading identifier path of the Debug rendering, e.g. SystemError/InvalidDropAccess
    let mut parts: Vec<String> = vec![];
    let mut cur = String::new();
    for ch in e.chars() {
        if ch.is_alphanumeric() || ch == '_' {
            cur.push(ch);
        } else if ch == '(' {
            if !cur.is_empty() && parts.last() != Some(&cur) {
                parts.push(std::mem::take(&mut cur));
            }
            cur.clear();
            if parts.len() >= 3 {
                break;
            }
        } else {
            if !cur.is_empty() && parts.last() != Some(&cur) {
                parts.push(std::mem::take(&mut cur));
            }
            break;
        }
    }
    if parts.is_empty() && !cur.is_empty() {
        parts.push(cur);
    }
    parts.join("/")
}

fn is_access_error(e: &str) -> bool {
    e.contains("InvalidDropAccess") || e.contains("InvalidGlobalizeAccess")
}

// ---------------------------------------------------------------------------------------------
// Judge: walks the trace of one transaction
// ---------------------------------------------------------------------------------------------
pub struct Judge<'a> {
    pub world: &'a PWorld,
    pub pre: &'a Db,
    pub launch: &'a Launch,
    pub kinds: HashMap<NodeId, Kind>,
    pub new_objects: Vec<(NodeId, Kind)>,
    pub borrowed: BTreeSet<(u32, NodeId)>,
    pub violations: usize,
}

fn launch_json(l: &Launch) -> Value {
    json!({
        "callee": match &l.callee { Callee::Method(a) => format!("method:{}", hex::encode(a.as_node_id().0)), Callee::Function(p) => format!("function:{}", hex::encode(p.as_node_id().0)) },
        "script_hex": hex::encode(scrypto_encode(&l.script).unwrap()),
        "script": l.script.iter().map(|o| short_op(o)).collect::<Vec<_>>(),
        "buckets": l.buckets.iter().map(|d| d.to_string()).collect::<Vec<_>>(),
        "proofs": l.proofs,
        "reservations": l.reservations.iter().map(|(p, n)| format!("{}:{}", hex::encode(p.as_node_id().0), n)).collect::<Vec<_>>(),
        "refs": l.refs.iter().map(|a| hex::encode(a.as_node_id().0)).collect::<Vec<_>>(),
    })
}

pub fn launch_from_json(v: &Value) -> Option<Launch> {
    let callee = v.get("callee")?.as_str()?;
    let (k, h) = callee.split_once(':')?;
    let node = NodeId(hex::decode(h).ok()?.try_into().ok()?);
    let callee = if k == "method" { Callee::Method(GlobalAddress::new_or_panic(node.0)) } else { Callee::Function(PackageAddress::new_or_panic(node.0)) };
    let script: Vec<Op> = scrypto_decode(&hex::decode(v.get("script_hex")?.as_str()?).ok()?).ok()?;
    let buckets = v.get("buckets")?.as_array()?.iter().filter_map(|x| Decimal::try_from(x.as_str()?).ok()).collect();
    let proofs = v.get("proofs")?.as_u64()? as usize;
    let reservations = v
        .get("reservations")?
        .as_array()?
        .iter()
        .filter_map(|x| {
            let (p, n) = x.as_str()?.split_once(':')?;
            Some((PackageAddress::new_or_panic(hex::decode(p).ok()?.try_into().ok()?), n.to_string()))
        })
        .collect();
    let refs = v.get("refs")?.as_array()?.iter().filter_map(|x| Some(GlobalAddress::new_or_panic(hex::decode(x.as_str()?).ok()?.try_into().ok()?))).collect();
    Some(Launch { callee, script, buckets, proofs, reservations, refs })
}

fn short_op(o: &Op) -> String {
    let s = format!("{:?}", o);
    if s.len() > 300 {
        format!("{}..", &s[..300])
    } else {
        s
    }
}

impl<'a> Judge<'a> {
    pub fn new(world: &'a PWorld, pre: &'a Db, launch: &'a Launch) -> Self {
        Judge { world, pre, launch, kinds: HashMap::new(), new_objects: vec![], borrowed: BTreeSet::new(), violations: 0 }
    }

    fn kind_of(&mut self, n: &NodeId) -> Option<Kind> {
        if let Some(k) = self.kinds.get(n) {
            return Some(k.clone());
        }
        let k = kind_from_db(self.pre, n)?;
        self.kinds.insert(*n, k.clone());
        Some(k)
    }

    fn actor_of_global(&mut self, a: GlobalAddress) -> Option<Actor> {
        let k = self.kind_of(a.as_node_id())?;
        let (p, n) = k.bp?;
        Some(Actor { pkg: p, bp: n, ctx: Some(a), is_method: true, node: Some(a.into_node_id()) })
    }

    fn violate(&mut self, shard: &mut Shard, sig: &str, actor: &Actor, st: &Step, target: Option<&Kind>, extra: Value) {
        self.violations += 1;
        shard.violation(
            sig,
            json!({
                "launch": launch_json(self.launch),
                "step": {"frame": st.frame, "idx": st.idx, "op": short_op(&st.op), "target": st.target.map(|n| decode::node_hex(&n)), "result": format!("{:?}", st.result)},
                "actor": format!("{:?}", actor),
                "target_kind": target.map(|k| k.describe()),
                "extra": extra,
            }),
        );
    }

    pub fn run(&mut self, shard: &mut Shard, trace: &[TraceEv]) {
        // pre-pass: calling step of every nested frame
        let mut caller_step: HashMap<u32, usize> = HashMap::new();
        {
            let mut stack: Vec<u32> = vec![];
            let mut pending: HashMap<u32, Vec<u32>> = HashMap::new();
            for (i, ev) in trace.iter().enumerate() {
                match ev {
                    TraceEv::Enter { frame, .. } => stack.push(*frame),
                    TraceEv::Exit { frame, .. } => {
                        stack.retain(|f| f != frame);
                        if let Some(parent) = stack.last() {
                            pending.entry(*parent).or_default().push(*frame);
                        }
                    }
                    TraceEv::Step(s) => {
                        if let Some(children) = pending.remove(&s.frame) {
                            for c in children {
                                caller_step.insert(c, i);
                            }
                        }
                    }
                }
            }
        }
        let mut actors: HashMap<u32, Actor> = HashMap::new();
        let mut first = true;
        for ev in trace.iter() {
            match ev {
                TraceEv::Enter { frame, self_node, blueprint, slots, .. } => {
                    let actor: Option<Actor> = if first {
                        first = false;
                        // top-level: kinds of the manifest-provided nodes
                        let (nb, np) = (self.launch.buckets.len(), self.launch.proofs);
                        for (i, (_s, n, _owned)) in slots.iter().enumerate() {
                            let k = if i < nb {
                                Kind::object(RESOURCE_PACKAGE, FUNGIBLE_BUCKET_BLUEPRINT, Some(self.world.res.into()))
                            } else if i < nb + np {
                                Kind::object(RESOURCE_PACKAGE, FUNGIBLE_PROOF_BLUEPRINT, Some(self.world.res.into()))
                            } else if i < nb + np + self.launch.reservations.len() {
                                let (p, b) = self.launch.reservations[i - nb - np].clone();
                                Kind { class: Class::Reservation, bp: Some((p, b)), outer: None, global: false }
                            } else {
                                continue;
                            };
                            self.kinds.insert(*n, k);
                        }
                        match &self.launch.callee {
                            Callee::Method(a) => self.actor_of_global(*a),
                            Callee::Function(p) => Some(Actor { pkg: *p, bp: BP.to_string(), ctx: None, is_method: false, node: None }),
                        }
                    } else {
                        match caller_step.get(frame).and_then(|i| if let TraceEv::Step(s) = &trace[*i] { Some(s.clone()) } else { None }) {
                            Some(ps) => match &ps.op {
                                Op::CallPeer { peer, .. } => self.actor_of_global(*peer),
                                Op::CallFn { package, .. } | Op::Recurse { package, .. } => Some(Actor { pkg: *package, bp: BP.to_string(), ctx: None, is_method: false, node: None }),
                                Op::CallSlot { .. } | Op::CallMethod { .. } => ps.target.and_then(|n| {
                                    let k = self.kind_of(&n)?;
                                    let (p, b) = k.bp.clone()?;
                                    let ctx = if k.global { Some(GlobalAddress::new_or_panic(n.0)) } else { k.outer };
                                    Some(Actor { pkg: p, bp: b, ctx, is_method: true, node: Some(n) })
                                }),
                                _ => None,
                            },
                            None => None,
                        }
                    };
                    for (_s, n, owned) in slots {
                        if !owned {
                            self.borrowed.insert((*frame, *n));
                        }
                    }
                    match actor {
                        Some(a) => {
                            // cross-check the harness model against what the engine told the probe
                            if let Some(bp) = blueprint {
                                if bp.package_address != a.pkg || bp.blueprint_name != a.bp || (a.is_method && *self_node != a.node) {
                                    panic!("harness actor model mismatch: model {:?} engine {:?} {:?}", a, bp, self_node);
                                }
                            }
                            actors.insert(*frame, a);
                        }
                        None => {
                            shard.count("c50:frames_with_unknown_actor");
                        }
                    }
                }
                TraceEv::Exit { .. } => {}
                TraceEv::Step(st) => {
                    let Some(actor) = actors.get(&st.frame).cloned() else {
                        shard.count("c50:steps_skipped_unknown_actor");
                        continue;
                    };
                    self.judge_step(shard, &actor, st);
                }
            }
        }
    }

    fn record(&self, shard: &mut Shard, actor: &Actor, st: &Step, rel: &str, expect: &str) {
        let outcome = match &st.result {
            Ok(_) => "ok".to_string(),
            Err(e) => format!("err:{}", err_class(e)),
        };
        let actor_kind = if !actor.is_method { "function" } else if actor.bp == BP_INNER { "inner-method" } else { "method" };
        let phase = if st.idx >= 1000 { "cleanup:" } else { "" };
        shard.count(&format!("c50:step|{phase}{}|{rel}|{expect}|{outcome}", st.op.kind()));
        shard.seen("c50:op_kinds", st.op.kind());
        shard.seen("c50:error_classes", &outcome);
        shard.nontrivial(&(st.op.kind(), rel, expect, &outcome, actor_kind, actor.pkg == self.world.pkg[0]));
        shard.count(&format!("c50:steps_{expect}"));
    }

    fn tgt_label(&self, st: &Step, t: &Tgt) -> &'static str {
        match t {
            Tgt::Raw(_) => "+forged",
            Tgt::Slot(_) => {
                if st.target.map(|n| self.borrowed.contains(&(st.frame, n))).unwrap_or(false) {
                    "+borrowed"
                } else {
                    ""
                }
            }
        }
    }

    fn judge_step(&mut self, shard: &mut Shard, actor: &Actor, st: &Step) {
        let ok = st.result.is_ok();
        if let Err(e) = &st.result {
            if e.contains("probe: no such slot") {
                shard.count("c50:steps_without_node");
                return;
            }
        }
        shard.count("c50:steps_judged");
        let errs = st.result.as_ref().err().cloned().unwrap_or_default();
        let protected = |n: &Option<NodeId>| n.map(|n| self.world.protected.contains(&n)).unwrap_or(false);
        match &st.op {
            Op::NewObject { blueprint, .. } => {
                let valid = blueprint == BP || blueprint == BP_INNER;
                if valid {
                    self.record(shard, actor, st, "own-package-blueprint", "allowed");
                    if ok {
                        let k = Kind::object(actor.pkg, blueprint, if blueprint == BP_INNER { actor.ctx } else { None });
                        if blueprint == BP_INNER && actor.ctx.is_none() {
                            self.violate(shard, "new_object:inner-object-created-without-outer-context", actor, st, Some(&k), json!({}));
                        }
                        self.kinds.insert(st.created[0], k.clone());
                        self.new_objects.push((st.created[0], k));
                    }
                } else {
                    self.record(shard, actor, st, "foreign-or-unknown-blueprint-name", "must-fail");
                    if ok {
                        self.violate(shard, "new_object:object-of-foreign-blueprint-created", actor, st, None, json!({}));
                    }
                }
            }
            Op::NewKvStore { .. } => {
                self.record(shard, actor, st, "own-kv-store", "allowed");
                if ok {
                    self.kinds.insert(st.created[0], Kind { class: Class::KvStore, bp: None, outer: None, global: false });
                }
            }
            Op::AllocAddress { package, blueprint, .. } => {
                let k = Kind { class: Class::Reservation, bp: Some((*package, blueprint.clone())), outer: None, global: false };
                let rel = relation(actor, &k);
                self.record(shard, actor, st, rel.name(), "log");
                if ok {
                    self.kinds.insert(st.created[0], k);
                }
            }
            Op::CreateVault { resource, .. } | Op::CreateBucket { resource, .. } => {
                self.record(shard, actor, st, "public-call", "log");
                if ok && !st.created.is_empty() {
                    let name = if matches!(st.op, Op::CreateVault { .. }) { FUNGIBLE_VAULT_BLUEPRINT } else { FUNGIBLE_BUCKET_BLUEPRINT };
                    self.kinds.insert(st.created[0], Kind::object(RESOURCE_PACKAGE, name, Some((*resource).into())));
                }
            }
            Op::CreateProof { .. } => {
                self.record(shard, actor, st, "public-call", "log");
                if ok && !st.created.is_empty() {
                    let outer = st.target.and_then(|n| self.kind_of(&n)).and_then(|k| k.outer);
                    self.kinds.insert(st.created[0], Kind::object(RESOURCE_PACKAGE, FUNGIBLE_PROOF_BLUEPRINT, outer));
                }
            }
            Op::CreateModule { which, .. } => {
                self.record(shard, actor, st, "public-call", "log");
                if ok && !st.created.is_empty() {
                    let k = match which {
                        0 => Kind::object(METADATA_MODULE_PACKAGE, METADATA_BLUEPRINT, None),
                        1 => Kind::object(ROLE_ASSIGNMENT_MODULE_PACKAGE, ROLE_ASSIGNMENT_BLUEPRINT, None),
                        _ => Kind::object(ROYALTY_MODULE_PACKAGE, COMPONENT_ROYALTY_BLUEPRINT, None),
                    };
                    self.kinds.insert(st.created[0], k);
                }
            }
            Op::ActorRef { which, .. } => {
                self.record(shard, actor, st, "actor-ref", "log");
                if ok {
                    let n = st.created[0];
                    self.borrowed.insert((st.frame, n));
                    if *which == ACTOR_REF_AUTH_ZONE {
                        self.kinds.insert(n, Kind::object(RESOURCE_PACKAGE, "AuthZone", None));
                    } else if self.kind_of(&n).is_none() {
                        // a heap object acting as receiver is already in the table; nothing to add
                    }
                }
            }
            Op::Take { from, .. } => {
                let forged_internal = matches!(from, Tgt::Raw(_)) && protected(&st.target);
                if forged_internal {
                    self.record(shard, actor, st, "protected-victim-node+forged", "must-fail");
                    if ok {
                        let k = st.target.and_then(|n| self.kind_of(&n));
                        self.violate(shard, "protected-node-accessed:method-call-through-forged-id", actor, st, k.as_ref(), json!({}));
                    }
                } else {
                    self.record(shard, actor, st, "public-call", "log");
                }
                if ok && !st.created.is_empty() {
                    let outer = st.target.and_then(|n| self.kind_of(&n)).and_then(|k| k.outer);
                    self.kinds.insert(st.created[0], Kind::object(RESOURCE_PACKAGE, FUNGIBLE_BUCKET_BLUEPRINT, outer));
                }
            }
            Op::Drop { t } => {
                let kind = st.target.and_then(|n| self.kind_of(&n));
                let label = self.tgt_label(st, t);
                let prot = protected(&st.target);
                match &kind {
                    None => {
                        self.record(shard, actor, st, &format!("unknown{label}"), "log");
                        if prot && ok {
                            self.violate(shard, "protected-node-accessed:drop", actor, st, None, json!({}));
                        }
                    }
                    Some(k) => {
                        let rel = relation(actor, k);
                        let relname = format!("{}{}{}", if k.class == Class::Reservation { "reservation-for-" } else { "" }, rel_label(actor, k), label);
                        // dropping is blueprint-granular in the property ("only code of an object's own
                        // blueprint ... can drop that object") and in the engine, unlike globalize: an
                        // outer-less object of another blueprint of the actor's own package must not be droppable
                        let other_bp_same_pkg = rel == Rel::SamePackage && k.class == Class::Object && k.outer.is_none() && k.bp.as_ref().map(|(_, n)| *n != actor.bp).unwrap_or(false);
                        let must_fail = prot || rel == Rel::Foreign || other_bp_same_pkg || (k.class == Class::KvStore && matches!(t, Tgt::Raw(_)));
                        if must_fail {
                            self.record(shard, actor, st, &relname, "must-fail");
                            if ok {
                                let sig = if prot { "protected-node-accessed:drop".to_string() } else if other_bp_same_pkg { "drop_object:object-dropped-by-other-blueprint-of-same-package".to_string() } else { format!("drop_object:{}-dropped-by-other-package", if k.class == Class::Reservation { "address-reservation" } else { "object" }) };
                                self.violate(shard, &sig, actor, st, Some(k), json!({}));
                            }
                        } else if matches!(rel, Rel::Own | Rel::OwnInner) && k.class == Class::Object {
                            self.record(shard, actor, st, &relname, "allowed");
                            if !ok && is_access_error(&errs) {
                                self.violate(shard, "drop_object:own-object-drop-refused-with-access-error", actor, st, Some(k), json!({}));
                            }
                        } else {
                            self.record(shard, actor, st, &relname, "log");
                        }
                    }
                }
            }
            Op::DropProof { .. } => {
                let kind = st.target.and_then(|n| self.kind_of(&n));
                let borrowed = st.target.map(|n| self.borrowed.contains(&(st.frame, n))).unwrap_or(false);
                if kind.as_ref().map(|k| k.is_proof()).unwrap_or(false) && !borrowed {
                    self.record(shard, actor, st, "proof-held-by-actor", "allowed");
                    if !ok && (is_access_error(&errs) || errs.contains("Unauthorized")) {
                        self.violate(shard, "proof_drop:holder-refused-with-access-error", actor, st, kind.as_ref(), json!({}));
                    }
                } else {
                    self.record(shard, actor, st, "not-a-held-proof", "log");
                }
            }
            Op::Globalize { t, reservation, .. } => {
                let kind = st.target.and_then(|n| self.kind_of(&n));
                let rkind = st.aux.and_then(|n| self.kind_of(&n));
                let label = self.tgt_label(st, t);
                let prot = protected(&st.target);
                let rel = kind.as_ref().map(|k| relation(actor, k)).unwrap_or(Rel::Unknown);
                let rrel = rkind.as_ref().map(|k| relation(actor, k));
                let relname = format!("{}{}|reservation:{}", kind.as_ref().map(|k| rel_label(actor, k)).unwrap_or_else(|| "unknown".to_string()), label, match (reservation, rrel) { (None, _) => "none", (Some(_), Some(r)) => r.name(), (Some(_), None) => "unknown" });
                let must_fail = prot || rel == Rel::Foreign || rrel == Some(Rel::Foreign) || kind.as_ref().map(|k| k.class != Class::Object).unwrap_or(false);
                if must_fail {
                    self.record(shard, actor, st, &relname, "must-fail");
                    if ok {
                        let sig = if prot {
                            "protected-node-accessed:globalize"
                        } else if rel == Rel::Foreign {
                            "globalize:object-globalized-by-other-package"
                        } else if rrel == Some(Rel::Foreign) {
                            "globalize:address-reservation-of-other-package-consumed"
                        } else {
                            "globalize:non-object-globalized"
                        };
                        self.violate(shard, sig, actor, st, kind.as_ref(), json!({"reservation_kind": rkind.as_ref().map(|k| k.describe())}));
                    }
                } else if rel == Rel::Own && matches!(rrel, None | Some(Rel::Own)) {
                    self.record(shard, actor, st, &relname, "allowed");
                    if !ok && is_access_error(&errs) {
                        self.violate(shard, "globalize:own-object-globalize-refused-with-access-error", actor, st, kind.as_ref(), json!({}));
                    }
                } else {
                    self.record(shard, actor, st, &relname, "log");
                }
                if ok {
                    if let (Some(k), Some(g)) = (kind, st.created.first()) {
                        let gk = Kind { global: true, ..k };
                        self.kinds.insert(*g, gk.clone());
                        self.new_objects.push((*g, gk));
                    }
                }
            }
            Op::GetInfo { t } => {
                let kind = st.target.and_then(|n| self.kind_of(&n));
                let label = self.tgt_label(st, t);
                self.record(shard, actor, st, &format!("introspection{label}"), "log");
                if let (Some(k), Ok(s)) = (&kind, &st.result) {
                    // only nodes whose kind the harness fixed by construction in this transaction
                    if st.target.map(|n| self.new_objects.iter().any(|(m, _)| *m == n)).unwrap_or(false) {
                        let parts: Vec<&str> = s.split('|').collect();
                        if parts.first() == Some(&"object") && parts.len() >= 4 {
                            let (p, n) = k.bp.clone().unwrap();
                            let want_outer = k.outer.map(|o| hex::encode(o.as_node_id().0)).unwrap_or_default();
                            shard.count("c50:new_object_identity_checked_in_tx");
                            if parts[1] != hex::encode(p.as_node_id().0) || parts[2] != n || (!k.global && parts[3] != want_outer) {
                                self.violate(shard, "new_object:created-object-has-wrong-blueprint-or-outer", actor, st, Some(k), json!({"engine_reports": s}));
                            }
                        }
                    }
                }
            }
            Op::FieldOp { handle, mode, .. } => {
                let h = if *handle == ACTOR_STATE_SELF { "actor-self" } else if *handle == ACTOR_STATE_OUTER_OBJECT { "actor-outer-object(by-design)" } else { "invalid-handle" };
                self.record(shard, actor, st, &format!("{h}|{}", if *mode == 0 { "read" } else { "write" }), "log");
                if *handle > 1 && ok {
                    self.violate(shard, "actor_field:invalid-actor-handle-resolved", actor, st, None, json!({}));
                }
                if *handle == ACTOR_STATE_OUTER_OBJECT && ok && actor.bp != BP_INNER {
                    self.violate(shard, "actor_field:outer-handle-resolved-for-non-inner-actor", actor, st, None, json!({}));
                }
            }
            Op::KvActorOp { handle, mode, .. } => {
                let h = if *handle == ACTOR_STATE_SELF { "actor-self" } else if *handle == ACTOR_STATE_OUTER_OBJECT { "actor-outer-object(by-design)" } else { "invalid-handle" };
                self.record(shard, actor, st, &format!("{h}|{}", if *mode == 0 { "read" } else { "write" }), "log");
                if *handle > 1 && ok {
                    self.violate(shard, "actor_kv_entry:invalid-actor-handle-resolved", actor, st, None, json!({}));
                }
                if *handle == ACTOR_STATE_OUTER_OBJECT && ok && actor.bp != BP_INNER {
                    self.violate(shard, "actor_kv_entry:outer-handle-resolved-for-non-inner-actor", actor, st, None, json!({}));
                }
            }
            Op::KvStoreOp { t, mode, .. } => {
                let kind = st.target.and_then(|n| self.kind_of(&n));
                let label = self.tgt_label(st, t);
                let prot = protected(&st.target);
                let m = if *mode == 0 { "read" } else { "write" };
                if prot {
                    self.record(shard, actor, st, &format!("protected-victim-node{label}|{m}"), "must-fail");
                    if ok {
                        self.violate(shard, "protected-node-accessed:kv-store-entry-open", actor, st, kind.as_ref(), json!({}));
                    }
                } else {
                    let what = match &kind {
                        Some(k) if k.class == Class::KvStore => "kv-store",
                        Some(_) => "not-a-kv-store",
                        None => "unknown",
                    };
                    self.record(shard, actor, st, &format!("{what}{label}|{m}"), "log");
                    if what == "not-a-kv-store" && ok {
                        self.violate(shard, "kv_store_entry:object-state-opened-as-kv-store", actor, st, kind.as_ref(), json!({}));
                    }
                }
            }
            Op::CallMethod { t, .. } | Op::Amount { t } | Op::VaultPut { vault: t, .. } => {
                let label = self.tgt_label(st, t);
                let internal_protected = protected(&st.target) && st.target.map(|n| !n.is_global()).unwrap_or(false);
                if internal_protected {
                    self.record(shard, actor, st, &format!("protected-victim-node{label}"), "must-fail");
                    if ok {
                        let k = st.target.and_then(|n| self.kind_of(&n));
                        self.violate(shard, "protected-node-accessed:method-call-through-forged-id", actor, st, k.as_ref(), json!({}));
                    }
                } else {
                    self.record(shard, actor, st, &format!("public-call{label}"), "log");
                }
            }
            Op::StoreDup { .. } => {
                self.record(shard, actor, st, "own-state-duplicated-own", "must-fail");
                if ok {
                    shard.violation_for("C05", "duplicated-own-write-accepted".to_string(), json!({"launch": launch_json(self.launch), "step": format!("{:?}", st.op)}));
                }
            }
            Op::StoreInKv { .. } | Op::StoreInStore { .. } | Op::HoldKv { .. } | Op::ReleaseKv => {
                self.record(shard, actor, st, "own-state", "log");
            }
            Op::CallPeer { .. } | Op::CallFn { .. } | Op::CallSlot { .. } | Op::Recurse { .. } => {
                self.record(shard, actor, st, "invoke", "log");
            }
            Op::EmitEvent { .. } | Op::EmitLog { .. } | Op::RoyaltyOp { .. } | Op::Return { .. } => {
                self.record(shard, actor, st, "other", "log");
            }
        }
    }

    /// After the transaction: victims untouched; stored identity of created objects.
    pub fn post(&mut self, shard: &mut Shard, receipt: &TransactionReceipt, post: &Db) {
        let TransactionResult::Commit(c) = &receipt.result else { return };
        shard.count("c50:commits_checked_for_victim_integrity");
        for (node, upd) in &c.state_updates.by_node {
            if self.world.protected.contains(node) {
                self.violations += 1;
                shard.violation(
                    "protected-node-state-changed",
                    json!({"launch": launch_json(self.launch), "node": decode::node_hex(node), "kind": kind_from_db(self.pre, node).map(|k| k.describe()), "update": format!("{:?}", upd).chars().take(600).collect::<String>()}),
                );
            }
        }
        if c.outcome.is_success() {
            for (n, k) in &self.new_objects {
                if let Some(stored) = kind_from_db(post, n) {
                    shard.count("c50:new_object_identity_checked_in_db");
                    if stored.bp != k.bp || stored.outer != k.outer || stored.class != k.class {
                        self.violations += 1;
                        shard.violation(
                            "new_object:stored-object-has-wrong-blueprint-or-outer",
                            json!({"launch": launch_json(self.launch), "node": decode::node_hex(n), "model": k.describe(), "stored": stored.describe(), "stored_outer": format!("{:?}", stored.outer), "model_outer": format!("{:?}", k.outer)}),
                        );
                    }
                }
            }
        }
    }
}

pub fn judge_tx(shard: &mut Shard, world: &PWorld, launch: &Launch, r: &PExec) -> usize {
    let Some(pre) = &r.pre else { return 0 };
    let Some(receipt) = &r.exec.receipt else { return 0 };
    let mut j = Judge::new(world, pre, launch);
    j.run(shard, &r.trace);
    j.post(shard, receipt, world.ledger.db());
    let oc = rv_ledger::outcome_class(receipt);
    shard.seen("c50:outcome_classes", &oc);
    shard.count(&format!("c50:tx_outcome|{oc}"));
    j.violations
}

// ---------------------------------------------------------------------------------------------
// Script generator
// ---------------------------------------------------------------------------------------------
#[derive(Clone, Copy, Debug, PartialEq, Eq)]
enum Sym {
    Obj(usize),
    Inner(usize),
    Bucket,
    EmptyBucket,
    Proof,
    Vault,
    Module,
    Store,
    /// reservation for SysProbe of package i / for a native blueprint
    Res(Option<usize>),
    Ref,
    Unknown,
}

#[derive(Clone, Copy, Debug)]
struct GCtx {
    pkg: usize,
    is_method: bool,
    is_inner: bool,
    depth: u32,
}

struct Ids {
    pkg: [PackageAddress; 2],
    g: [GlobalAddress; 2],
    g_b: GlobalAddress,
    victim: [GlobalAddress; 2],
    res: ResourceAddress,
    forge: Vec<(String, NodeId)>,
}

struct Gen<'a> {
    rng: &'a mut Rng,
    ids: &'a Ids,
    terminal_budget: u32,
}

/// number of global references every frame receives (runners, packages, resource)
const AMBIENT: usize = 6;
const KEYS: [&[u8]; 4] = [b"a", b"b", b"c", b"store"];
const FOREIGN_NAMES: [&str; 8] = ["FungibleVault", "Account", "Metadata", "Worktop", "FungibleBucket", "SysProbeX", "", "Package"];

impl<'a> Gen<'a> {
    fn pick_slot(&mut self, syms: &BTreeMap<u8, Sym>, f: impl Fn(&Sym) -> bool) -> Option<u8> {
        let c: Vec<u8> = syms.iter().filter(|(_, s)| f(s)).map(|(k, _)| *k).collect();
        if c.is_empty() {
            None
        } else {
            Some(*self.rng.pick(&c))
        }
    }

    fn forged(&mut self, want: &str) -> Vec<u8> {
        let c: Vec<&(String, NodeId)> = self.ids.forge.iter().filter(|(l, _)| l.contains(want)).collect();
        if c.is_empty() || self.rng.chance(1, 10) {
            // victim / runner globals, or a random id
            match self.rng.below(4) {
                0 => self.ids.victim[self.rng.usize_below(2)].as_node_id().0.to_vec(),
                1 => self.ids.g[self.rng.usize_below(2)].as_node_id().0.to_vec(),
                2 => self.ids.res.as_node_id().0.to_vec(),
                _ => {
                    let mut b = self.rng.bytes(NodeId::LENGTH);
                    b[0] = *self.rng.pick(&[EntityType::InternalFungibleVault as u8, EntityType::InternalGenericComponent as u8, EntityType::InternalKeyValueStore as u8]);
                    b
                }
            }
        } else {
            let i = self.rng.usize_below(c.len());
            c[i].1 .0.to_vec()
        }
    }

    fn payload(&mut self) -> Vec<u8> {
        let n = self.rng.size(40);
        self.rng.bytes(n)
    }

    fn subset(&mut self, c: &[u8], max: usize) -> Vec<u8> {
        let mut v = c.to_vec();
        self.rng.shuffle(&mut v);
        let n = self.rng.usize_below(max.min(v.len()) + 1);
        v.truncate(n);
        v
    }

    /// returns (script, syms of explicitly returned slots)
    fn script(&mut self, ctx: GCtx, inputs: &[Sym], len: usize) -> (Vec<Op>, usize) {
        let mut syms: BTreeMap<u8, Sym> = BTreeMap::new();
        for (i, s) in inputs.iter().enumerate() {
            syms.insert(i as u8, *s);
        }
        let mut lent: BTreeSet<u8> = BTreeSet::new();
        for (i, s) in inputs.iter().enumerate() {
            if *s == Sym::Ref {
                lent.insert(i as u8);
            }
        }
        let mut next: u8 = inputs.len() as u8 + 1;
        let mut ops = vec![];
        let me = ctx.pkg;
        let other = 1 - ctx.pkg;
        let mut stored_keys: Vec<Vec<u8>> = vec![];
        if ctx.is_inner {
            for _ in 0..1 + self.rng.below(3) {
                let mode = self.rng.below(2) as u8;
                if self.rng.bool() {
                    ops.push(Op::FieldOp { handle: ACTOR_STATE_OUTER_OBJECT, index: self.rng.below(3) as u8, mode, payload: self.payload() });
                } else {
                    ops.push(Op::KvActorOp { handle: ACTOR_STATE_OUTER_OBJECT, collection: 0, key: self.rng.pick(&KEYS).to_vec(), mode, payload: self.payload() });
                }
            }
            ops.push(Op::ActorRef { dst: next, which: ACTOR_REF_OUTER });
            ops.push(Op::Drop { t: Tgt::Slot(next) });
            next += 1;
        }
        for _ in 0..len {
            if next > 200 {
                break;
            }
            let dst = next;
            let cat = self.rng.below(100);
            match cat {
                0..=9 => {
                    let r = self.rng.below(100);
                    let (name, sym) = if r < 45 {
                        (BP.to_string(), Sym::Obj(me))
                    } else if r < 70 {
                        (BP_INNER.to_string(), Sym::Inner(me))
                    } else {
                        (self.rng.pick(&FOREIGN_NAMES).to_string(), Sym::Unknown)
                    };
                    let mut nfields = if name == BP { 2 } else if name == BP_INNER { 1 } else { self.rng.below(3) as u8 };
                    if self.rng.chance(1, 12) {
                        nfields = self.rng.below(4) as u8;
                    }
                    ops.push(Op::NewObject { dst, blueprint: name, nfields, payload: self.payload() });
                    syms.insert(dst, sym);
                    next += 1;
                }
                10..=12 => {
                    if !ctx.is_method && self.rng.chance(4, 5) {
                        continue;
                    }
                    ops.push(Op::NewKvStore { dst });
                    syms.insert(dst, Sym::Store);
                    next += 1;
                }
                13..=15 => {
                    let choice = self.rng.below(8);
                    if choice >= 5 {
                        // nobody in this world can consume such a reservation: the transaction will fail
                        if self.terminal_budget == 0 {
                            continue;
                        }
                        self.terminal_budget -= 1;
                    }
                    let (package, blueprint, sym) = match choice {
                        0..=2 => (self.ids.pkg[me], BP.to_string(), Sym::Res(Some(me))),
                        3..=4 => (self.ids.pkg[other], BP.to_string(), Sym::Res(Some(other))),
                        5 => (ACCOUNT_PACKAGE, "Account".to_string(), Sym::Res(None)),
                        6 => (RESOURCE_PACKAGE, FUNGIBLE_RESOURCE_MANAGER_BLUEPRINT.to_string(), Sym::Res(None)),
                        _ => (self.ids.pkg[me], BP_INNER.to_string(), Sym::Res(None)),
                    };
                    ops.push(Op::AllocAddress { dst, package, blueprint });
                    syms.insert(dst, sym);
                    next += 1;
                }
                16..=27 => {
                    if !ctx.is_method && self.terminal_budget == 0 && self.rng.chance(3, 4) {
                        // a function frame cannot keep vaults / modules: they would go back to the caller
                        continue;
                    }
                    match self.rng.below(6) {
                        0 | 1 => {
                            ops.push(Op::CreateVault { dst, resource: self.ids.res });
                            syms.insert(dst, Sym::Vault);
                        }
                        2 => {
                            ops.push(Op::CreateBucket { dst, resource: self.ids.res });
                            syms.insert(dst, Sym::EmptyBucket);
                        }
                        3 => {
                            if let Some(b) = self.pick_slot(&syms, |s| *s == Sym::Bucket) {
                                ops.push(Op::CreateProof { dst, from: b });
                                syms.insert(dst, Sym::Proof);
                            } else {
                                continue;
                            }
                        }
                        4 => {
                            // module objects are transient (pinned): they can neither be dropped by the probe nor
                            // persisted, so the transaction cannot commit afterwards
                            if self.terminal_budget == 0 {
                                continue;
                            }
                            self.terminal_budget -= 1;
                            let which = self.rng.below(3) as u8;
                            ops.push(Op::CreateModule { dst, which });
                            syms.insert(dst, Sym::Module);
                        }
                        _ => {
                            let which = *self.rng.pick(&[ACTOR_REF_AUTH_ZONE, ACTOR_REF_SELF, ACTOR_REF_GLOBAL, ACTOR_REF_OUTER]);
                            ops.push(Op::ActorRef { dst, which });
                            syms.insert(dst, Sym::Ref);
                            lent.insert(dst);
                        }
                    }
                    next += 1;
                }
                28..=47 => {
                    if let Some(s) = self.pick_slot(&syms, |_| true) {
                        if syms[&s] == Sym::Proof && self.rng.bool() {
                            ops.push(Op::DropProof { slot: s });
                            syms.remove(&s);
                            continue;
                        }
                        ops.push(Op::Drop { t: Tgt::Slot(s) });
                        if self.rng.chance(1, 3) {
                            if matches!(syms[&s], Sym::Bucket | Sym::EmptyBucket | Sym::Vault) {
                                ops.push(Op::Amount { t: Tgt::Slot(s) });
                            } else {
                                ops.push(Op::GetInfo { t: Tgt::Slot(s) });
                            }
                        }
                    }
                }
                48..=51 => {
                    let want = *self.rng.pick(&["Vault", "KeyValueStore", "SysProbe", "account", "victim"]);
                    ops.push(Op::Drop { t: Tgt::Raw(self.forged(want)) });
                }
                52..=58 => {
                    // globalize
                    let t = if self.rng.chance(1, 8) { Some(Tgt::Raw(self.forged("SysProbe"))) } else { self.pick_slot(&syms, |s| !matches!(s, Sym::Res(_))).map(Tgt::Slot) };
                    let Some(t) = t else { continue };
                    let reservation = if self.rng.bool() { self.pick_slot(&syms, |s| matches!(s, Sym::Res(_))) } else { None };
                    let predicted_ok = matches!(&t, Tgt::Slot(s) if syms[s] == Sym::Obj(me)) && reservation.map(|r| syms[&r] == Sym::Res(Some(me))).unwrap_or(true);
                    if !predicted_ok {
                        if self.terminal_budget == 0 {
                            continue;
                        }
                        self.terminal_budget -= 1;
                    }
                    let modules = if self.rng.chance(9, 10) { 3 } else { self.rng.below(8) as u8 };
                    ops.push(Op::Globalize { t: t.clone(), reservation, modules });
                    if predicted_ok {
                        if let Tgt::Slot(s) = t {
                            syms.remove(&s);
                        }
                        if let Some(r) = reservation {
                            syms.remove(&r);
                        }
                    }
                }
                59..=63 => {
                    let t = if self.rng.chance(1, 4) { Tgt::Raw(self.forged("victim")) } else if let Some(s) = self.pick_slot(&syms, |_| true) { Tgt::Slot(s) } else { continue };
                    ops.push(Op::GetInfo { t });
                }
                64..=69 => {
                    let handle = *self.rng.pick(&[ACTOR_STATE_SELF, ACTOR_STATE_SELF, ACTOR_STATE_SELF, ACTOR_STATE_OUTER_OBJECT, ACTOR_STATE_OUTER_OBJECT, 2, 7]);
                    let index = *self.rng.pick(&[0u8, 0, 1, 1, 2, 9]);
                    ops.push(Op::FieldOp { handle, index, mode: self.rng.below(2) as u8, payload: self.payload() });
                }
                70..=73 => {
                    let handle = *self.rng.pick(&[ACTOR_STATE_SELF, ACTOR_STATE_SELF, ACTOR_STATE_SELF, ACTOR_STATE_OUTER_OBJECT, 5]);
                    let key = if !stored_keys.is_empty() && self.rng.chance(1, 3) { self.rng.pick(&stored_keys).clone() } else { self.rng.pick(&KEYS).to_vec() };
                    let mode = *self.rng.pick(&[0u8, 0, 1, 1, 3]);
                    ops.push(Op::KvActorOp { handle, collection: if self.rng.chance(1, 8) { 1 } else { 0 }, key, mode, payload: self.payload() });
                }
                74..=79 => {
                    let t = match self.rng.below(10) {
                        0..=3 => Tgt::Raw(self.forged("KeyValueStore")),
                        4 => Tgt::Raw(self.forged("Vault")),
                        5..=7 => match self.pick_slot(&syms, |s| *s == Sym::Store) {
                            Some(s) => Tgt::Slot(s),
                            None => continue,
                        },
                        _ => match self.pick_slot(&syms, |_| true) {
                            Some(s) => Tgt::Slot(s),
                            None => continue,
                        },
                    };
                    let key = if self.rng.chance(1, 3) { b"secret".to_vec() } else { self.rng.pick(&KEYS).to_vec() };
                    ops.push(Op::KvStoreOp { t, key, mode: *self.rng.pick(&[0u8, 0, 1, 1, 3]), payload: self.payload() });
                }
                80..=81 if ctx.depth == 0 && self.rng.chance(2, 3) => {
                    // obtain objects of the other probe package (same blueprint names) from its runner and attack them
                    let with_inner = self.rng.bool();
                    let mut sub = vec![Op::NewObject { dst: 10, blueprint: BP.to_string(), nfields: 2, payload: self.payload() }];
                    let mut ret = vec![10u8];
                    if with_inner {
                        sub.push(Op::NewObject { dst: 11, blueprint: BP_INNER.to_string(), nfields: 1, payload: self.payload() });
                        ret.push(11);
                    }
                    sub.push(Op::Return { slots: ret.clone() });
                    ops.push(Op::CallPeer { peer: self.ids.g[other], script: scrypto_encode(&sub).unwrap(), give: vec![], lend: vec![], dst });
                    syms.insert(dst, Sym::Obj(other));
                    if with_inner {
                        syms.insert(dst + 1, Sym::Inner(other));
                    }
                    let victim = dst + self.rng.below(ret.len() as u64) as u8;
                    ops.push(Op::Drop { t: Tgt::Slot(victim) });
                    ops.push(Op::GetInfo { t: Tgt::Slot(victim) });
                    if self.rng.bool() {
                        let mut key = vec![b'f', dst];
                        key.extend(self.rng.bytes(6));
                        ops.push(Op::StoreInKv { slot: victim, key: key.clone() });
                        ops.push(Op::HoldKv { key });
                        ops.push(Op::Drop { t: Tgt::Slot(victim) });
                        ops.push(Op::ReleaseKv);
                    } else if self.rng.bool() {
                        // run the other package's code as that object: it may drop itself only by reference (kernel refuses)
                        let s2 = vec![Op::ActorRef { dst: 5, which: ACTOR_REF_SELF }, Op::Drop { t: Tgt::Slot(5) }, Op::FieldOp { handle: ACTOR_STATE_SELF, index: 0, mode: 1, payload: self.payload() }];
                        ops.push(Op::CallSlot { slot: victim, script: scrypto_encode(&s2).unwrap(), give: vec![], lend: vec![], dst: dst + 3 });
                    }
                    next += 4;
                }
                80..=81 => {
                    if self.terminal_budget == 0 {
                        continue;
                    }
                    self.terminal_budget -= 1;
                    match self.rng.below(4) {
                        0 => ops.push(Op::Take { from: Tgt::Raw(self.forged("Vault")), amount: dec!(1), dst }),
                        1 => ops.push(Op::Amount { t: Tgt::Raw(self.forged("Vault")) }),
                        2 => ops.push(Op::CallMethod { t: Tgt::Raw(self.forged("SysProbe")), method: "run".to_string(), args: scrypto_encode(&ProbeArgs { script: scrypto_encode(&Vec::<Op>::new()).unwrap(), give_a: vec![], give_b: vec![], give_c: vec![], lend: vec![] }).unwrap(), dst }),
                        _ => {
                            if let Some(b) = self.pick_slot(&syms, |s| *s == Sym::Bucket) {
                                ops.push(Op::VaultPut { vault: Tgt::Raw(self.forged("Vault")), bucket: b });
                            }
                        }
                    }
                    next += 1;
                }
                82..=85 => match self.rng.below(3) {
                    0 => {
                        if let Some(s) = self.pick_slot(&syms, |s| matches!(s, Sym::Bucket | Sym::EmptyBucket | Sym::Vault)) {
                            ops.push(Op::Amount { t: Tgt::Slot(s) });
                        }
                    }
                    1 => {
                        if let Some(s) = self.pick_slot(&syms, |s| *s == Sym::Bucket) {
                            if !lent.contains(&s) {
                                ops.push(Op::Take { from: Tgt::Slot(s), amount: Decimal::from(self.rng.below(3) as u32), dst });
                                syms.insert(dst, Sym::EmptyBucket);
                                next += 1;
                            }
                        }
                    }
                    _ => {
                        if let (Some(v), Some(b)) = (self.pick_slot(&syms, |s| *s == Sym::Vault), self.pick_slot(&syms, |s| matches!(s, Sym::Bucket | Sym::EmptyBucket))) {
                            if !lent.contains(&b) && !lent.contains(&v) {
                                ops.push(Op::VaultPut { vault: Tgt::Slot(v), bucket: b });
                                syms.remove(&b);
                            }
                        }
                    }
                },
                86..=90 => match self.rng.below(5) {
                    0 | 1 => {
                        if let Some(s) = self.pick_slot(&syms, |s| !matches!(s, Sym::Res(_) | Sym::Ref | Sym::Proof | Sym::Bucket | Sym::EmptyBucket | Sym::Module | Sym::Unknown)) {
                            if lent.contains(&s) {
                                continue;
                            }
                            let mut key = vec![b'k', dst];
                            key.extend(self.rng.bytes(6));
                            ops.push(Op::StoreInKv { slot: s, key: key.clone() });
                            stored_keys.push(key.clone());
                            if self.rng.bool() {
                                // keep the entry open and attack the moved node
                                ops.push(Op::HoldKv { key });
                                ops.push(Op::Drop { t: Tgt::Slot(s) });
                                if self.rng.bool() {
                                    ops.push(Op::GetInfo { t: Tgt::Slot(s) });
                                }
                                ops.push(Op::ReleaseKv);
                            }
                        }
                    }
                    2 => {
                        if let (Some(s), Some(st)) = (self.pick_slot(&syms, |s| matches!(s, Sym::Obj(_) | Sym::Vault | Sym::Module | Sym::Inner(_))), self.pick_slot(&syms, |s| *s == Sym::Store)) {
                            if !lent.contains(&s) && !lent.contains(&st) {
                                ops.push(Op::StoreInStore { slot: s, store: st, key: vec![b's', dst] });
                                syms.remove(&s);
                            }
                        }
                    }
                    3 => {
                        if !stored_keys.is_empty() {
                            let key = self.rng.pick(&stored_keys).clone();
                            ops.push(Op::HoldKv { key });
                        }
                    }
                    _ => ops.push(Op::ReleaseKv),
                },
                _ => {
                    // run a sub-script elsewhere
                    if ctx.depth >= 2 {
                        continue;
                    }
                    // (proofs received from the manifest are restricted: they cannot be moved further down)
                    let owned: Vec<u8> = syms.iter().filter(|(k, s)| !lent.contains(k) && !matches!(s, Sym::Ref | Sym::Proof)).map(|(k, _)| *k).collect();
                    let all: Vec<u8> = syms.keys().copied().collect();
                    let give = self.subset(&owned, 3);
                    // non-global references in arguments are treated as direct-access references by the kernel
                    // (the call fails): lend only rarely, as a terminal step
                    let lend: Vec<u8> = if self.terminal_budget > 0 && self.rng.chance(1, 6) {
                        self.terminal_budget -= 1;
                        self.subset(&all, 2).into_iter().filter(|s| !give.contains(s) && !matches!(syms[s], Sym::Ref)).collect()
                    } else {
                        vec![]
                    };
                    let inputs: Vec<Sym> = give.iter().map(|s| syms[s]).chain(lend.iter().map(|_| Sym::Ref)).collect();
                    // lent nodes keep their kind for the callee's attacks: model them by their original symbol
                    let inputs_for_attack: Vec<Sym> = give.iter().map(|s| syms[s]).chain(lend.iter().map(|s| syms[s])).chain(std::iter::repeat(Sym::Ref).take(AMBIENT)).collect();
                    let sublen = 2 + self.rng.usize_below(7);
                    let kind = self.rng.below(10);
                    let (op_builder, sub_ctx): (Box<dyn Fn(Vec<u8>, Vec<u8>, Vec<u8>, u8) -> Op>, GCtx) = if kind < 5 {
                        let peer_pkg = if self.rng.chance(4, 5) { other } else { 0 };
                        let peer = if peer_pkg == 0 && (me == 0 || self.rng.bool()) { self.ids.g_b } else { self.ids.g[peer_pkg] };
                        let peer_pkg = if peer == self.ids.g_b { 0 } else { peer_pkg };
                        (Box::new(move |script, give, lend, dst| Op::CallPeer { peer, script, give, lend, dst }), GCtx { pkg: peer_pkg, is_method: true, is_inner: false, depth: ctx.depth + 1 })
                    } else if kind < 7 {
                        let p = if self.rng.bool() { me } else { other };
                        let package = self.ids.pkg[p];
                        (Box::new(move |script, give, lend, dst| Op::CallFn { package, script, give, lend, dst }), GCtx { pkg: p, is_method: false, is_inner: false, depth: ctx.depth + 1 })
                    } else {
                        let Some(slot) = self.pick_slot(&syms, |s| matches!(s, Sym::Obj(_) | Sym::Inner(_))) else { continue };
                        if give.contains(&slot) {
                            continue;
                        }
                        let (p, inner) = match syms[&slot] {
                            Sym::Obj(p) => (p, false),
                            Sym::Inner(p) => (p, true),
                            _ => unreachable!(),
                        };
                        (Box::new(move |script, give, lend, dst| Op::CallSlot { slot, script, give, lend, dst }), GCtx { pkg: p, is_method: true, is_inner: inner, depth: ctx.depth + 1 })
                    };
                    let _ = inputs;
                    let (sub, nret) = self.script(sub_ctx, &inputs_for_attack, sublen);
                    // the callee sees lent nodes as borrowed: nothing to adjust in the script itself
                    let nb = give.iter().filter(|s| matches!(syms[s], Sym::Bucket | Sym::EmptyBucket)).count();
                    ops.push(op_builder(scrypto_encode(&sub).unwrap(), give.clone(), lend, dst));
                    for g in &give {
                        syms.remove(g);
                    }
                    for i in 0..(nret + nb) as u8 {
                        syms.insert(dst + i, Sym::Unknown);
                    }
                    next += (nret + nb) as u8 + 1;
                }
            }
        }
        // consume pending reservations so that the transaction can commit
        let pending: Vec<(u8, Sym)> = syms.iter().filter(|(k, s)| matches!(s, Sym::Res(Some(_))) && !lent.contains(k)).map(|(k, s)| (*k, *s)).collect();
        for (slot, s) in pending {
            if next > 230 || self.rng.chance(1, 10) {
                break;
            }
            let Sym::Res(Some(p)) = s else { continue };
            if p == me {
                ops.push(Op::NewObject { dst: next, blueprint: BP.to_string(), nfields: 2, payload: vec![1] });
                ops.push(Op::Globalize { t: Tgt::Slot(next), reservation: Some(slot), modules: 3 });
                next += 1;
            } else {
                let sub = vec![Op::NewObject { dst: 10, blueprint: BP.to_string(), nfields: 2, payload: vec![2] }, Op::Globalize { t: Tgt::Slot(10), reservation: Some(0), modules: 3 }];
                ops.push(Op::CallPeer { peer: self.ids.g[p], script: scrypto_encode(&sub).unwrap(), give: vec![slot], lend: vec![], dst: next });
                next += 1;
            }
            syms.remove(&slot);
        }
        // explicit returns (only meaningful for sub-scripts)
        let mut nret = 0;
        if ctx.depth > 0 && self.rng.bool() {
            let c: Vec<u8> = syms.iter().filter(|(k, s)| !lent.contains(k) && !matches!(s, Sym::Ref | Sym::Bucket | Sym::EmptyBucket)).map(|(k, _)| *k).collect();
            let r = self.subset(&c, 2);
            nret = r.len();
            if !r.is_empty() {
                ops.push(Op::Return { slots: r });
            }
        }
        let _ = (ctx.is_method, ctx.is_inner);
        (ops, nret)
    }
}

fn gen_launch(rng: &mut Rng, ids: &Ids) -> Launch {
    let mut g = Gen { rng, ids, terminal_budget: 0 };
    g.terminal_budget = if g.rng.chance(3, 10) { 1 } else { 0 };
    let r = g.rng.below(100);
    let (callee, ctx) = if r < 35 {
        (Callee::Method(ids.g[0]), GCtx { pkg: 0, is_method: true, is_inner: false, depth: 0 })
    } else if r < 70 {
        (Callee::Method(ids.g[1]), GCtx { pkg: 1, is_method: true, is_inner: false, depth: 0 })
    } else if r < 88 {
        (Callee::Method(ids.g_b), GCtx { pkg: 0, is_method: true, is_inner: false, depth: 0 })
    } else {
        let p = g.rng.usize_below(2);
        (Callee::Function(ids.pkg[p]), GCtx { pkg: p, is_method: false, is_inner: false, depth: 0 })
    };
    let nb = g.rng.below(3) as usize;
    let buckets: Vec<Decimal> = (0..nb).map(|_| Decimal::from(g.rng.range(10, 50) as u32)).collect();
    let proofs = if g.rng.chance(1, 3) { 1 } else { 0 };
    let mut reservations = vec![];
    if g.rng.chance(1, 4) {
        let own = ids.pkg[ctx.pkg];
        reservations.push(match g.rng.below(4) {
            0 | 1 => (own, BP.to_string()),
            2 => (ids.pkg[1 - ctx.pkg], BP.to_string()),
            _ => (ACCOUNT_PACKAGE, "Account".to_string()),
        });
    }
    let mut inputs: Vec<Sym> = vec![];
    inputs.extend(std::iter::repeat(Sym::Bucket).take(nb));
    inputs.extend(std::iter::repeat(Sym::Proof).take(proofs));
    for (p, _) in &reservations {
        inputs.push(Sym::Res(if *p == ids.pkg[0] { Some(0) } else if *p == ids.pkg[1] { Some(1) } else { None }));
    }
    inputs.extend(std::iter::repeat(Sym::Ref).take(AMBIENT));
    let len = 12 + g.rng.usize_below(18);
    let (script, _) = g.script(ctx, &inputs, len);
    Launch { callee, script, buckets, proofs, reservations, refs: ambient(ids) }
}

fn ambient(ids: &Ids) -> Vec<GlobalAddress> {
    vec![ids.g[0], ids.g[1], ids.g_b, ids.pkg[0].into(), ids.pkg[1].into(), ids.res.into()]
}

fn ids_of(w: &PWorld) -> Ids {
    Ids { pkg: w.pkg, g: w.g, g_b: w.g_b, victim: w.victim, res: w.res, forge: w.forge.clone() }
}

// ---------------------------------------------------------------------------------------------
// Check
// ---------------------------------------------------------------------------------------------
pub fn spec() -> Spec {
    Spec::new(
        "C50",
        "exploration",
        "random scripts of system calls (~25 steps, nested sub-scripts in other frames) interpreted by the native SysProbe blueprint published twice (two package addresses, same blueprint names), run as method of a global component, as function, as method of owned outer/inner objects and through peers of the other package; targets: own objects, inner objects, objects of the other probe package (same blueprint name), native objects obtained through public calls (buckets, proofs, vaults, module objects, auth zone), address reservations (from the manifest and allocated), key-value stores, nodes moved into own state, nodes lent by transient reference, forged node ids of a never-called victim component and victim account; a step is non-trivial when a system call was made on an existing node; distinct = distinct (op kind, actor/target relation, expectation, outcome class, actor kind, package)",
    )
    .assume("ground truth about every node comes from the step that created it (by construction) or from stored TypeInfo read with the repository's SBOR types; the relation actor/target is computed by the harness")
    .assume("a native blueprint can observe Err results and continue; after a failed invocation or globalize the script stops (the kernel does not unwind its frame stack on errors, WASM callers trap) - partial effects before an Err are therefore not exercised")
    .assume("same-package-other-blueprint accesses (the engine's globalize rule is package-granular) and inner->outer state access through ACTOR_STATE_OUTER_OBJECT are design-level grey zones: counted, not verdict-bearing")
    .floor("c50:steps_must-fail", 3000)
    .floor("c50:steps_allowed", 3000)
    .floor("c50:commits_checked_for_victim_integrity", 1000)
    .floor("c50:new_object_identity_checked_in_db", 200)
    .floor("c50:new_object_identity_checked_in_tx", 100)
    .floor("tx:commit-success", 300)
    .explain("must-fail = the target is an object/reservation of a blueprint of another package, or a node inside a never-called victim; allowed = own blueprint / inner of own outer / proof (refusal with an access error is a violation); log = grey zones and public calls")
}

pub fn run(args: &Args) -> i32 {
    let mut report = Report::new(args, spec());
    if let Some(path) = &args.replay {
        return replay(path, report);
    }
    let scripts = scaled(args, args.tier.pick(10_000, 300_000));
    let per_shard = (scripts / args.threads as u64).max(1);
    let budget = Duration::from_secs(budget_secs(args.tier, 60, 840));
    report.run_shards(50, args.threads, budget, |i, rng, shard| {
        shard.max_samples = 1;
        let mut world = PWorld::new(shard);
        let ids = ids_of(&world);
        let mut n = 0;
        while n < per_shard && !shard.time_up() {
            n += 1;
            let launch = gen_launch(rng, &ids);
            let r = world.launch(shard, "c50:script", &launch, None);
            shard.count("c50:scripts");
            judge_tx(shard, &world, &launch, &r);
            if n == 3 && i == 0 {
                shard.sample(|| json!({"launch": launch_json(&launch), "trace_len": r.trace.len(), "outcome": r.exec.receipt.as_ref().map(|x| rv_ledger::outcome_class(x))}));
            }
            if n % 1500 == 0 {
                world.ledger.walk(shard, &format!("C50 shard {i} after {n} scripts"));
            }
        }
        world.ledger.walk(shard, &format!("end of C50 shard {i}"));
    });
    table(&mut report);
    report.finish()
}

fn table(report: &mut Report) {
    // steps by op kind x relation x expectation x outcome
    let mut rows: Vec<Value> = vec![];
    for (k, v) in &report.counters {
        if let Some(rest) = k.strip_prefix("c50:step|") {
            let p: Vec<&str> = rest.split('|').collect();
            rows.push(json!({"op": p.first(), "relation": p[1..p.len().saturating_sub(2)].join("|"), "expect": p.get(p.len().saturating_sub(2)), "outcome": p.last(), "count": v}));
        }
    }
    report.extra.insert("steps_by_op_relation_outcome".into(), Value::Array(rows));
}

fn replay(path: &std::path::Path, report: Report) -> i32 {
    let doc: Value = serde_json::from_str(&std::fs::read_to_string(path).expect("replay file")).expect("json");
    let Some(launch) = doc.get("detail").and_then(|d| d.get("launch")).and_then(launch_from_json) else {
        println!("replay file has no launch description");
        return 2;
    };
    let deadline = std::time::Instant::now() + Duration::from_secs(600);
    let mut shard = Shard::new(0, "C50", report.args.tier, deadline);
    let mut world = PWorld::new(&mut shard);
    let r = world.launch(&mut shard, "c50:replay", &launch, None);
    let v = judge_tx(&mut shard, &world, &launch, &r);
    for ev in &r.trace {
        println!("{:?}", ev);
    }
    println!("replayed script on a fresh world: outcome {:?}; {} violation(s): {:?}", r.exec.receipt.as_ref().map(|x| rv_ledger::outcome_class(x)), v, shard.violations.iter().map(|x| x.signature.clone()).collect::<Vec<_>>());
    if v > 0 {
        1
    } else {
        0
    }
}

pub fn smoke(args: &Args) -> i32 {
    let deadline = std::time::Instant::now() + Duration::from_secs(600);
    let mut shard = Shard::new(0, "C50", args.tier, deadline);
    let t0 = std::time::Instant::now();
    let mut world = PWorld::new(&mut shard);
    println!("world built in {:?}; protected {} forge {:?}", t0.elapsed(), world.protected.len(), world.forge.iter().map(|(l, n)| format!("{l}={}", decode::node_hex(n))).collect::<Vec<_>>());
    let ids = ids_of(&world);
    let mut rng = Rng::new(args.seed);
    let n: usize = args.extra.first().and_then(|s| s.parse().ok()).unwrap_or(3);
    for k in 0..n {
        let launch = gen_launch(&mut rng, &ids);
        let r = world.launch(&mut shard, "smoke", &launch, None);
        let v = judge_tx(&mut shard, &world, &launch, &r);
        let want = std::env::var("SMOKE_GREP").ok();
        let hit = want.as_ref().map(|w| format!("{:?}", r.trace).contains(w.as_str()) || r.exec.receipt.as_ref().map(|x| rv_ledger::outcome_class(x).contains(w.as_str())).unwrap_or(false)).unwrap_or(false);
        if (want.is_none() && k < 3) || v > 0 || hit {
            println!("--- script {k}: {:?}", launch.script.iter().map(short_op).collect::<Vec<_>>());
            for ev in &r.trace {
                match ev {
                    TraceEv::Step(s) => println!("   [{}#{}] {} tgt={:?} -> {:?}", s.frame, s.idx, short_op(&s.op), s.target.map(|n| decode::node_hex(&n)), s.result),
                    other => println!("   {:?}", other),
                }
            }
            println!("   outcome: {:?} violations {v}", r.exec.receipt.as_ref().map(|x| rv_ledger::outcome_class(x)));
        }
    }
    world.ledger.walk(&mut shard, "smoke end");
    for (k, v) in &shard.counters {
        println!("{k} = {v}");
    }
    for v in &shard.violations {
        println!("VIOLATION {} {}: {}", v.prop, v.signature, serde_json::to_string(&v.detail).unwrap().chars().take(1500).collect::<String>());
    }
    println!("elapsed {:?}", t0.elapsed());
    0
}
