//! C51 (component half): fields and key-value entries locked by a custom component through
//! `field_lock` / `key_value_entry_lock`, and component royalty settings locked with
//! `lock_royalty`, stay locked: every later transaction that tries to write / remove / re-set
//! must fail to do so. The harness keeps its own set of locked items (an item becomes locked when
//! a lock step returned Ok in a transaction that committed successfully); a later write-type step
//! on such an item that returns Ok in a successfully committed transaction is a violation. The
//! global C51 monitor (byte comparison of every substate ever seen locked) runs on every
//! transaction as well.
use crate::probe::*;
use crate::world::*;
use radix_engine_interface::api::ACTOR_STATE_SELF;
use rv_common::*;
use rv_ledger::prelude::*;
use serde_json::json;
use std::collections::BTreeSet;
use std::time::Duration;

#[derive(Clone, Debug, PartialEq, Eq, PartialOrd, Ord)]
enum Item {
    Field(usize, u8),
    Entry(usize, Vec<u8>),
    StoreEntry(usize, Vec<u8>),
    Royalty(usize, String),
}

struct Comp {
    addr: GlobalAddress,
    store: Option<NodeId>,
    royalty: bool,
}

const KEYS: [&[u8]; 5] = [b"k0", b"k1", b"k2", b"k3", b"k4"];
const METHODS: [&str; 3] = ["run", "other", "x"];

pub fn run(args: &Args) -> i32 {
    let spec = Spec::new(
        "C51",
        "exploration",
        "lock scripts run by SysProbe components on their own state: fields (field_write, field_lock), collection entries and entries of an owned key-value store (set, lock, remove) and component royalty settings (set_royalty, lock_royalty), 1-4 steps per transaction over a growing set of components, callers being the component's own methods; after a lock every later write/remove/set attempt must fail; non-trivial = a step aimed at an item the harness holds as locked; distinct = distinct (item kind, operation, step outcome class, transaction outcome)",
    )
    .assume("an item counts as locked once a lock step returned Ok inside a transaction that committed successfully")
    .assume("metadata, owner-role and role-updater locks are exercised by rv-engine C51; this check covers locks taken through the system API by a custom component and the royalty module")
    .floor("c51p:locks_taken", args.tier.pick(150, 3000))
    .floor("c51p:attempts_on_locked:field", args.tier.pick(100, 2000))
    .floor("c51p:attempts_on_locked:entry", args.tier.pick(100, 2000))
    .floor("c51p:attempts_on_locked:store_entry", args.tier.pick(30, 600))
    .floor("c51p:attempts_on_locked:royalty", args.tier.pick(30, 600))
    .floor("c51:substates_becoming_locked", 100);
    let mut report = Report::new(args, spec);
    if args.replay.is_some() {
        println!("C51 probe violations depend on the lock history: re-run with the recorded seed (VERIF_SEED) and tier; the detail lists the transaction scripts since the lock");
        return 2;
    }
    let txs = scaled(args, args.tier.pick(6_000, 300_000));
    let per_shard = (txs / args.threads as u64).max(1);
    let budget = Duration::from_secs(budget_secs(args.tier, 60, 840));
    report.run_shards(51, args.threads, budget, |i, rng, shard| {
        let mut world = PWorld::new(shard);
        let refs = vec![world.g[0], world.g[1], world.g_b, world.pkg[0].into(), world.pkg[1].into(), world.res.into()];
        let mut comps: Vec<Comp> = vec![Comp { addr: world.g[0], store: None, royalty: true }, Comp { addr: world.g[1], store: None, royalty: true }, Comp { addr: world.g_b, store: None, royalty: false }];
        let mut locked: BTreeSet<Item> = BTreeSet::new();
        let mut n = 0;
        while n < per_shard && !shard.time_up() {
            n += 1;
            // new components from time to time (locked items accumulate)
            if n % 40 == 0 || comps.len() < 3 {
                let p = world.pkg[rng.usize_below(2)];
                let royalty = rng.bool();
                let m = ManifestBuilder::new().lock_fee_from_faucet().call_function(p, BP, "new_global", manifest_args!(b"init".to_vec(), royalty)).build();
                let r = world.ledger.exec(shard, "c51p:new_component", m, vec![], false);
                if let Some(rc) = &r.exec.receipt {
                    if rc.is_commit_success() {
                        comps.push(Comp { addr: rc.expect_commit(true).new_component_addresses()[0].into(), store: None, royalty });
                    }
                }
                continue;
            }
            let ci = if rng.chance(2, 3) && comps.len() > 3 { comps.len() - 1 - rng.usize_below(3) } else { rng.usize_below(comps.len()) };
            // give the component a persisted key-value store first
            if comps[ci].store.is_none() && rng.chance(1, 3) {
                let launch = Launch { callee: Callee::Method(comps[ci].addr), script: vec![Op::NewKvStore { dst: 20 }, Op::StoreInKv { slot: 20, key: b"store".to_vec() }], buckets: vec![], proofs: 0, reservations: vec![], refs: refs.clone() };
                let r = world.launch(shard, "c51p:make_store", &launch, None);
                if r.exec.is_success() {
                    for ev in &r.trace {
                        if let TraceEv::Step(s) = ev {
                            if matches!(s.op, Op::NewKvStore { .. }) && s.result.is_ok() {
                                comps[ci].store = s.created.first().copied();
                            }
                        }
                    }
                }
                continue;
            }
            let nsteps = 1 + rng.usize_below(4);
            let mut script: Vec<Op> = vec![];
            // (item, is_write, is_lock) per script index
            let mut meaning: Vec<Option<(Item, bool, bool)>> = vec![];
            let mut holding = false;
            for _ in 0..nsteps {
                let plen = 1 + rng.usize_below(12);
                let payload = rng.bytes(plen);
                match rng.below(10) {
                    0..=3 => {
                        let index = rng.below(2) as u8;
                        let mode = *rng.pick(&[0u8, 1, 1, 1, 2, 2, 3]);
                        script.push(Op::FieldOp { handle: ACTOR_STATE_SELF, index, mode, payload });
                        meaning.push(Some((Item::Field(ci, index), mode == 1 || mode == 2, mode >= 2)));
                    }
                    4..=6 => {
                        let key = rng.pick(&KEYS).to_vec();
                        let mode = *rng.pick(&[0u8, 1, 1, 1, 2, 2, 3, 3, 4]);
                        script.push(Op::KvActorOp { handle: ACTOR_STATE_SELF, collection: 0, key: key.clone(), mode, payload });
                        meaning.push(Some((Item::Entry(ci, key), matches!(mode, 1 | 2 | 3), matches!(mode, 2 | 4))));
                    }
                    7..=8 => {
                        let Some(store) = comps[ci].store else { continue };
                        if !holding {
                            script.push(Op::HoldKv { key: b"store".to_vec() });
                            meaning.push(None);
                            holding = true;
                        }
                        let key = rng.pick(&KEYS).to_vec();
                        let mode = *rng.pick(&[0u8, 1, 1, 1, 2, 2, 3, 3, 4]);
                        script.push(Op::KvStoreOp { t: Tgt::Raw(store.0.to_vec()), key: key.clone(), mode, payload });
                        meaning.push(Some((Item::StoreEntry(ci, key), matches!(mode, 1 | 2 | 3), matches!(mode, 2 | 4))));
                    }
                    _ => {
                        if !comps[ci].royalty {
                            continue;
                        }
                        let method = rng.pick(&METHODS).to_string();
                        let mode = *rng.pick(&[0u8, 0, 1, 2]);
                        script.push(Op::RoyaltyOp { mode, method: method.clone() });
                        meaning.push(Some((Item::Royalty(ci, method), mode != 1, mode == 1)));
                    }
                }
            }
            if script.is_empty() {
                continue;
            }
            let launch = Launch { callee: Callee::Method(comps[ci].addr), script: script.clone(), buckets: vec![], proofs: 0, reservations: vec![], refs: refs.clone() };
            let r = world.launch(shard, "c51p:script", &launch, None);
            shard.count("c51p:transactions");
            let Some(receipt) = &r.exec.receipt else { continue };
            let committed_ok = receipt.is_commit_success();
            let txo = rv_ledger::outcome_class(receipt);
            let mut newly: Vec<Item> = vec![];
            for ev in &r.trace {
                let TraceEv::Step(s) = ev else { continue };
                if s.idx >= 1000 || s.frame != 1 {
                    continue;
                }
                let Some(Some((item, is_write, is_lock))) = meaning.get(s.idx) else { continue };
                let kind = match item {
                    Item::Field(..) => "field",
                    Item::Entry(..) => "entry",
                    Item::StoreEntry(..) => "store_entry",
                    Item::Royalty(..) => "royalty",
                };
                let step_outcome = match &s.result {
                    Ok(_) => "ok".to_string(),
                    Err(e) => format!("err:{}", crate::c50::err_class(e)),
                };
                let was_locked = locked.contains(item) || newly.contains(item);
                shard.count(&format!("c51p:step|{kind}|{}|{}|{step_outcome}", if was_locked { "locked" } else { "unlocked" }, s.op.kind()));
                if was_locked && (*is_write || *is_lock) {
                    shard.count(&format!("c51p:attempts_on_locked:{kind}"));
                    shard.nontrivial(&(kind, format!("{:?}", s.op).chars().take(24).collect::<String>(), &step_outcome, &txo));
                    if *is_write && s.result.is_ok() {
                        if committed_ok {
                            shard.violation(format!("write-to-locked-{kind}-committed"), json!({"component": hex::encode(comps[ci].addr.as_node_id().0), "item": format!("{:?}", item), "script": script.iter().map(|o| format!("{:?}", o)).collect::<Vec<_>>(), "step": s.idx, "tx_outcome": txo, "shard": i, "tx_number": n}));
                        } else {
                            shard.count("c51p:write_to_locked_step_ok_but_tx_failed");
                        }
                    }
                } else if !was_locked {
                    shard.nontrivial(&(kind, "unlocked", s.op.kind(), &step_outcome));
                    if *is_write && s.result.is_err() && committed_ok {
                        shard.seen("c51p:write_errors_on_unlocked", &step_outcome);
                    }
                }
                if *is_lock && s.result.is_ok() {
                    newly.push(item.clone());
                }
            }
            if committed_ok {
                for it in newly {
                    if locked.insert(it) {
                        shard.count("c51p:locks_taken");
                    }
                }
            }
            if n % 2000 == 0 {
                world.ledger.walk(shard, &format!("C51 probe shard {i} after {n}"));
            }
        }
        world.ledger.walk(shard, &format!("end of C51 probe shard {i}"));
        shard.sample(|| json!({"shard": i, "components": comps.len(), "locked_items": locked.len()}));
    });
    report.finish()
}
