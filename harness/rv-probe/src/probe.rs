//! SysProbe: a native test blueprint that interprets a *script of system calls* and reports the
//! result of every step through a thread-local trace (the trace survives failed transactions,
//! unlike a return value). Only the `SystemApi` trait is used - the kernel APIs that native code
//! additionally gets are deliberately not reachable from the interpreter (bound `Y: SystemApi`).
//!
//! Continuation rule: a step whose system call returns `Err` is recorded and the script continues,
//! EXCEPT for steps that invoke (call_method / call_function / globalize): the kernel does not
//! unwind its call-frame stack on a failed invocation (a WASM caller would have trapped), so the
//! interpreter propagates that error and the transaction fails.
use radix_common::prelude::*;
use radix_engine::errors::RuntimeError;
use radix_engine::vm::{VmApi, VmInvoke};
use radix_engine_interface::api::*;
use radix_engine_interface::blueprints::package::*;
use radix_engine_interface::blueprints::resource::*;
use radix_engine_interface::object_modules::metadata::*;
use radix_engine_interface::object_modules::role_assignment::*;
use radix_engine_interface::object_modules::royalty::*;
use radix_engine_interface::prelude::*;
use radix_blueprint_schema_init::*;
use sbor::basic_well_known_types::ANY_TYPE;
use std::cell::RefCell;

pub const CODE_ID: u64 = 7001;
pub const BP: &str = "SysProbe";
pub const BP_INNER: &str = "SysProbeInner";
pub const EVENT_NAME: &str = "ProbeEvent";

#[derive(ScryptoSbor, Debug, Clone, PartialEq, Eq)]
pub struct ProbeEvent(pub Vec<u8>);

/// Arguments of `run` / `run_fn`. From a manifest the three `give_*` vectors are buckets, proofs
/// and address reservations (manifest arrays are homogeneous); peers put everything in `give_a`.
#[derive(ScryptoSbor, Debug, Clone)]
pub struct ProbeArgs {
    pub script: Vec<u8>,
    pub give_a: Vec<Own>,
    pub give_b: Vec<Own>,
    pub give_c: Vec<Own>,
    pub lend: Vec<Reference>,
}

#[derive(ScryptoSbor, Debug, Clone, PartialEq, Eq)]
pub enum Tgt {
    /// a node of the interpreter's slot table
    Slot(u8),
    /// a node id given as plain bytes (forged reference / global address not passed as reference)
    Raw(Vec<u8>),
}

#[derive(ScryptoSbor, Debug, Clone, PartialEq, Eq)]
pub enum Op {
    // ---- creation through the system API
    NewObject { dst: u8, blueprint: String, nfields: u8, payload: Vec<u8> },
    NewKvStore { dst: u8 },
    AllocAddress { dst: u8, package: PackageAddress, blueprint: String },
    // ---- obtaining foreign objects through public calls
    CreateVault { dst: u8, resource: ResourceAddress },
    CreateBucket { dst: u8, resource: ResourceAddress },
    CreateProof { dst: u8, from: u8 },
    /// 0 = Metadata, 1 = RoleAssignment, 2 = ComponentRoyalty
    CreateModule { dst: u8, which: u8 },
    /// actor_get_node_id(which) -> borrowed slot
    ActorRef { dst: u8, which: u32 },
    // ---- the guarded operations
    Drop { t: Tgt },
    /// the public route for proofs: Proof::drop function of the resource package
    DropProof { slot: u8 },
    /// modules: bit0 = attach metadata, bit1 = attach role assignment, bit2 = royalty
    Globalize { t: Tgt, reservation: Option<u8>, modules: u8 },
    GetInfo { t: Tgt },
    /// mode 0 read, 1 write, 2 write+lock, 3 lock only
    FieldOp { handle: u32, index: u8, mode: u8, payload: Vec<u8> },
    /// mode 0 read, 1 set, 2 set+lock, 3 remove, 4 lock only
    KvActorOp { handle: u32, collection: u8, key: Vec<u8>, mode: u8, payload: Vec<u8> },
    KvStoreOp { t: Tgt, key: Vec<u8>, mode: u8, payload: Vec<u8> },
    /// public method call with node-free arguments; owned nodes of the result go to dst, dst+1..
    CallMethod { t: Tgt, method: String, args: Vec<u8>, dst: u8 },
    Amount { t: Tgt },
    VaultPut { vault: Tgt, bucket: u8 },
    Take { from: Tgt, amount: Decimal, dst: u8 },
    // ---- moving nodes
    StoreInKv { slot: u8, key: Vec<u8> },
    StoreInStore { slot: u8, store: u8, key: Vec<u8> },
    /// open own collection entry read-only and keep it open (nodes stored in it become visible)
    HoldKv { key: Vec<u8> },
    ReleaseKv,
    // ---- running scripts elsewhere
    CallPeer { peer: GlobalAddress, script: Vec<u8>, give: Vec<u8>, lend: Vec<u8>, dst: u8 },
    CallFn { package: PackageAddress, script: Vec<u8>, give: Vec<u8>, lend: Vec<u8>, dst: u8 },
    CallSlot { slot: u8, script: Vec<u8>, give: Vec<u8>, lend: Vec<u8>, dst: u8 },
    // ---- quantities under execution limits (C49)
    EmitEvent { count: u32, size: u32 },
    EmitLog { count: u32, size: u32 },
    /// call `run_fn` of `package` recursively `depth` more times
    Recurse { package: PackageAddress, depth: u32 },
    // ---- royalty (C51)
    RoyaltyOp { mode: u8, method: String },
    /// slots to hand back to the caller (everything else is cleaned up)
    Return { slots: Vec<u8> },
    /// (C05) write a value listing the same `Own` twice into an own collection entry (store = None)
    /// or an entry of the key-value store in slot `store`; shape: 0 tuple (A, A), 1 array [A, A],
    /// 2 (A, bytes, A), 3 plain write of A first, then re-write of the open entry with (A, A),
    /// 4 a new object is created whose first field holds (A, A) (create-node path; key/store unused)
    StoreDup { slot: u8, store: Option<u8>, key: Vec<u8>, shape: u8 },
}

impl Op {
    pub fn kind(&self) -> &'static str {
        match self {
            Op::NewObject { .. } => "new_object",
            Op::NewKvStore { .. } => "new_kv_store",
            Op::AllocAddress { .. } => "allocate_address",
            Op::CreateVault { .. } => "create_vault",
            Op::CreateBucket { .. } => "create_bucket",
            Op::CreateProof { .. } => "create_proof",
            Op::CreateModule { .. } => "create_module",
            Op::ActorRef { .. } => "actor_ref",
            Op::Drop { .. } => "drop_object",
            Op::DropProof { .. } => "proof_drop_function",
            Op::Globalize { .. } => "globalize",
            Op::GetInfo { .. } => "get_info",
            Op::FieldOp { .. } => "actor_field",
            Op::KvActorOp { .. } => "actor_kv_entry",
            Op::KvStoreOp { .. } => "kv_store_entry",
            Op::CallMethod { .. } => "call_method",
            Op::Amount { .. } => "amount",
            Op::VaultPut { .. } => "vault_put",
            Op::Take { .. } => "take",
            Op::StoreInKv { .. } => "store_in_own_collection",
            Op::StoreInStore { .. } => "store_in_own_kv_store",
            Op::HoldKv { .. } => "hold_kv_entry",
            Op::ReleaseKv => "release_kv_entries",
            Op::CallPeer { .. } => "call_peer",
            Op::CallFn { .. } => "call_fn",
            Op::CallSlot { .. } => "call_slot",
            Op::EmitEvent { .. } => "emit_event",
            Op::EmitLog { .. } => "emit_log",
            Op::Recurse { .. } => "recurse",
            Op::RoyaltyOp { .. } => "royalty",
            Op::Return { .. } => "return",
            Op::StoreDup { .. } => "store_duplicated_own",
        }
    }
}

// ---------------------------------------------------------------------------------------------
// Trace
// ---------------------------------------------------------------------------------------------
#[derive(Debug, Clone)]
pub struct Step {
    pub frame: u32,
    /// index in the script; cleanup steps have idx >= 1000
    pub idx: usize,
    pub op: Op,
    pub target: Option<NodeId>,
    pub aux: Option<NodeId>,
    pub created: Vec<NodeId>,
    /// Ok(summary) | Err(Debug rendering of the RuntimeError)
    pub result: Result<String, String>,
    pub aborted: bool,
}

#[derive(Debug, Clone)]
pub enum TraceEv {
    Enter { frame: u32, export: String, self_node: Option<NodeId>, blueprint: Option<BlueprintId>, slots: Vec<(u8, NodeId, bool)> },
    Step(Step),
    Exit { frame: u32, ok: bool, returned: Vec<NodeId> },
}

thread_local! {
    pub static TRACE: RefCell<Vec<TraceEv>> = const { RefCell::new(Vec::new()) };
    static NEXT_FRAME: RefCell<u32> = const { RefCell::new(0) };
}

pub fn trace_reset() {
    TRACE.with(|t| t.borrow_mut().clear());
    NEXT_FRAME.with(|n| *n.borrow_mut() = 0);
}
pub fn trace_take() -> Vec<TraceEv> {
    TRACE.with(|t| std::mem::take(&mut *t.borrow_mut()))
}
fn push(ev: TraceEv) {
    TRACE.with(|t| {
        let mut t = t.borrow_mut();
        if t.len() < 20_000 {
            t.push(ev)
        }
    });
}

// ---------------------------------------------------------------------------------------------
// Package definition
// ---------------------------------------------------------------------------------------------
pub fn package_definition() -> PackageDefinition {
    let any = || TypeRef::Static(LocalTypeId::WellKnown(ANY_TYPE));
    let func = |export: &str, receiver: bool| FunctionSchemaInit {
        receiver: if receiver { Some(ReceiverInfo::normal_ref_mut()) } else { None },
        input: any(),
        output: any(),
        export: export.to_string(),
    };
    let mut blueprints = index_map_new();
    {
        let mut aggregator = TypeAggregator::<ScryptoCustomTypeKind>::new();
        let mut event_schema = index_map_new();
        event_schema.insert(EVENT_NAME.to_string(), TypeRef::Static(aggregator.add_child_type_and_descendents::<ProbeEvent>()));
        let mut functions = index_map_new();
        functions.insert("run".to_string(), func("run", true));
        functions.insert("run_fn".to_string(), func("run_fn", false));
        functions.insert("new_global".to_string(), func("new_global", false));
        functions.insert("make_victim".to_string(), func("make_victim", false));
        let schema = generate_full_schema(aggregator);
        blueprints.insert(
            BP.to_string(),
            BlueprintDefinitionInit {
                blueprint_type: BlueprintType::Outer,
                schema: BlueprintSchemaInit {
                    schema,
                    state: BlueprintStateSchemaInit {
                        fields: vec![FieldSchema::static_field(LocalTypeId::WellKnown(ANY_TYPE)), FieldSchema::static_field(LocalTypeId::WellKnown(ANY_TYPE))],
                        collections: vec![BlueprintCollectionSchema::KeyValueStore(BlueprintKeyValueSchema { key: any(), value: any(), allow_ownership: true })],
                    },
                    events: BlueprintEventSchemaInit { event_schema },
                    functions: BlueprintFunctionsSchemaInit { functions },
                    ..Default::default()
                },
                ..Default::default()
            },
        );
    }
    {
        let mut aggregator = TypeAggregator::<ScryptoCustomTypeKind>::new();
        let mut event_schema = index_map_new();
        event_schema.insert(EVENT_NAME.to_string(), TypeRef::Static(aggregator.add_child_type_and_descendents::<ProbeEvent>()));
        let mut functions = index_map_new();
        functions.insert("run".to_string(), func("run", true));
        let schema = generate_full_schema(aggregator);
        blueprints.insert(
            BP_INNER.to_string(),
            BlueprintDefinitionInit {
                blueprint_type: BlueprintType::Inner { outer_blueprint: BP.to_string() },
                schema: BlueprintSchemaInit {
                    schema,
                    state: BlueprintStateSchemaInit { fields: vec![FieldSchema::static_field(LocalTypeId::WellKnown(ANY_TYPE))], collections: vec![] },
                    events: BlueprintEventSchemaInit { event_schema },
                    functions: BlueprintFunctionsSchemaInit { functions },
                    ..Default::default()
                },
                ..Default::default()
            },
        );
    }
    PackageDefinition { blueprints }
}

/// Byte vector whose `ProbeEvent` encoding has exactly `size` bytes (None if unreachable).
pub fn event_payload_of_size(size: usize) -> Option<Vec<u8>> {
    // 0x5c, tuple(0x21), len 1, array(0x20), u8(0x07), varint(n), n bytes
    for n in size.saturating_sub(9)..=size {
        let v = vec![0xabu8; n];
        if scrypto_encode(&ProbeEvent(v.clone())).unwrap().len() == size {
            return Some(v);
        }
    }
    None
}

// ---------------------------------------------------------------------------------------------
// Interpreter
// ---------------------------------------------------------------------------------------------
#[derive(Clone, Copy, PartialEq, Eq, Debug)]
enum SlotState {
    Live,
    Gone,
}

#[derive(Clone, Debug)]
struct Slot {
    node: NodeId,
    owned: bool,
    state: SlotState,
}

struct Interp {
    frame: u32,
    slots: BTreeMap<u8, Slot>,
    held: Vec<u32>,
    is_method: bool,
    actor_bp: Option<BlueprintId>,
    returned: Vec<u8>,
    /// global references received from the caller: forwarded to every callee
    ambient: Vec<NodeId>,
}

struct Out {
    target: Option<NodeId>,
    aux: Option<NodeId>,
    created: Vec<NodeId>,
    result: Result<String, RuntimeError>,
    abort_on_err: bool,
}

impl Out {
    fn new() -> Self {
        Out { target: None, aux: None, created: vec![], result: Ok(String::new()), abort_on_err: false }
    }
}

fn no_node() -> RuntimeError {
    RuntimeError::ApplicationError(radix_engine::errors::ApplicationError::PanicMessage("probe: no such slot".to_string()))
}

fn raw_node(bytes: &[u8]) -> Option<NodeId> {
    let a: [u8; NodeId::LENGTH] = bytes.try_into().ok()?;
    Some(NodeId(a))
}

fn enc_key(key: &[u8]) -> Vec<u8> {
    scrypto_encode(&key.to_vec()).unwrap()
}

impl Interp {
    fn node_of(&self, t: &Tgt) -> Option<NodeId> {
        match t {
            Tgt::Slot(s) => self.slots.get(s).map(|x| x.node),
            Tgt::Raw(b) => raw_node(b),
        }
    }
    fn live_owned(&self, s: u8) -> Option<NodeId> {
        self.slots.get(&s).filter(|x| x.owned && x.state == SlotState::Live).map(|x| x.node)
    }
    fn put(&mut self, dst: u8, node: NodeId, owned: bool) {
        // never lose track of a live owned node: on collision use a free slot from the top
        let mut dst = dst;
        if self.slots.get(&dst).map(|x| x.owned && x.state == SlotState::Live && x.node != node).unwrap_or(false) {
            if let Some(free) = (0..=255u8).rev().find(|s| !self.slots.contains_key(s)) {
                dst = free;
            }
        }
        self.slots.insert(dst, Slot { node, owned, state: SlotState::Live });
    }
    fn gone(&mut self, t: &Tgt) {
        if let Tgt::Slot(s) = t {
            if let Some(x) = self.slots.get_mut(s) {
                x.state = SlotState::Gone;
            }
        }
    }
    fn gone_node(&mut self, n: &NodeId) {
        for x in self.slots.values_mut() {
            if &x.node == n {
                x.state = SlotState::Gone;
            }
        }
    }

    fn peer_args(&mut self, script: &[u8], give: &[u8], lend: &[u8]) -> Option<(Vec<u8>, Vec<NodeId>)> {
        let mut owns = vec![];
        for g in give {
            owns.push(self.live_owned(*g)?);
        }
        let mut refs = vec![];
        for l in lend {
            refs.push(Reference(self.slots.get(l)?.node));
        }
        for a in &self.ambient {
            if !refs.contains(&Reference(*a)) {
                refs.push(Reference(*a));
            }
        }
        let args = ProbeArgs { script: script.to_vec(), give_a: owns.iter().map(|n| Own(*n)).collect(), give_b: vec![], give_c: vec![], lend: refs };
        Some((scrypto_encode(&args).unwrap(), owns))
    }

    fn take_returned(&mut self, rtn: &[u8], dst: u8, out: &mut Out) {
        if let Ok(v) = IndexedScryptoValue::from_slice(rtn) {
            for (i, n) in v.owned_nodes().iter().enumerate() {
                self.put(dst.wrapping_add(i as u8), *n, true);
                out.created.push(*n);
            }
        }
    }

    fn exec<Y: SystemApi<RuntimeError>>(&mut self, op: &Op, api: &mut Y) -> Out {
        let mut out = Out::new();
        macro_rules! tgt {
            ($t:expr) => {{
                match self.node_of($t) {
                    Some(n) => {
                        out.target = Some(n);
                        n
                    }
                    None => {
                        out.result = Err(no_node());
                        return out;
                    }
                }
            }};
        }
        match op {
            Op::NewObject { dst, blueprint, nfields, payload } => {
                let mut fields = index_map_new();
                for i in 0..*nfields {
                    fields.insert(i, FieldValue::new(payload));
                }
                out.result = api.new_object(blueprint, vec![], GenericArgs::default(), fields, indexmap!()).map(|n| {
                    self.put(*dst, n, true);
                    out.created.push(n);
                    "created".to_string()
                });
            }
            Op::NewKvStore { dst } => {
                out.result = api.key_value_store_new(KeyValueStoreDataSchema::new_local_without_self_package_replacement::<Vec<u8>, ScryptoValue>(true)).map(|n| {
                    self.put(*dst, n, true);
                    out.created.push(n);
                    "created".to_string()
                });
            }
            Op::AllocAddress { dst, package, blueprint } => {
                out.result = api.allocate_global_address(BlueprintId::new(package, blueprint.as_str())).map(|(r, a)| {
                    self.put(*dst, r.0 .0, true);
                    out.created.push(r.0 .0);
                    out.aux = Some(a.into_node_id());
                    "reserved".to_string()
                });
            }
            Op::CreateVault { dst, resource } => {
                out.abort_on_err = true;
                out.target = Some(resource.into_node_id());
                out.result = api.call_method(resource.as_node_id(), RESOURCE_MANAGER_CREATE_EMPTY_VAULT_IDENT, scrypto_encode(&ResourceManagerCreateEmptyVaultInput {}).unwrap()).map(|r| {
                    self.take_returned(&r, *dst, &mut out);
                    "vault".to_string()
                });
            }
            Op::CreateBucket { dst, resource } => {
                out.abort_on_err = true;
                out.target = Some(resource.into_node_id());
                out.result = api.call_method(resource.as_node_id(), RESOURCE_MANAGER_CREATE_EMPTY_BUCKET_IDENT, scrypto_encode(&ResourceManagerCreateEmptyBucketInput {}).unwrap()).map(|r| {
                    self.take_returned(&r, *dst, &mut out);
                    "bucket".to_string()
                });
            }
            Op::CreateProof { dst, from } => {
                let n = tgt!(&Tgt::Slot(*from));
                out.abort_on_err = true;
                out.result = api.call_method(&n, BUCKET_CREATE_PROOF_OF_ALL_IDENT, scrypto_encode(&BucketCreateProofOfAllInput {}).unwrap()).map(|r| {
                    self.take_returned(&r, *dst, &mut out);
                    "proof".to_string()
                });
            }
            Op::CreateModule { dst, which } => {
                out.abort_on_err = true;
                let r = match which {
                    0 => api.call_function(METADATA_MODULE_PACKAGE, METADATA_BLUEPRINT, METADATA_CREATE_IDENT, scrypto_encode(&MetadataCreateInput {}).unwrap()),
                    1 => api.call_function(
                        ROLE_ASSIGNMENT_MODULE_PACKAGE,
                        ROLE_ASSIGNMENT_BLUEPRINT,
                        ROLE_ASSIGNMENT_CREATE_IDENT,
                        scrypto_encode(&RoleAssignmentCreateInput { owner_role: OwnerRole::None.into(), roles: indexmap!() }).unwrap(),
                    ),
                    _ => api.call_function(
                        ROYALTY_MODULE_PACKAGE,
                        COMPONENT_ROYALTY_BLUEPRINT,
                        COMPONENT_ROYALTY_CREATE_IDENT,
                        scrypto_encode(&ComponentRoyaltyCreateInput { royalty_config: ComponentRoyaltyConfig::default() }).unwrap(),
                    ),
                };
                out.result = r.map(|r| {
                    self.take_returned(&r, *dst, &mut out);
                    "module".to_string()
                });
            }
            Op::ActorRef { dst, which } => {
                out.result = api.actor_get_node_id(*which).map(|n| {
                    self.put(*dst, n, false);
                    out.created.push(n);
                    "ref".to_string()
                });
            }
            Op::Drop { t } => {
                let n = tgt!(t);
                out.result = api.drop_object(&n).map(|f| {
                    self.gone_node(&n);
                    format!("dropped:{}fields", f.len())
                });
            }
            Op::DropProof { slot } => {
                let n = tgt!(&Tgt::Slot(*slot));
                out.abort_on_err = true;
                out.result = api.call_function(RESOURCE_PACKAGE, FUNGIBLE_PROOF_BLUEPRINT, PROOF_DROP_IDENT, scrypto_encode(&(Own(n),)).unwrap()).map(|_| {
                    self.gone_node(&n);
                    "proof-dropped".to_string()
                });
            }
            Op::Globalize { t, reservation, modules } => {
                let n = tgt!(t);
                out.abort_on_err = true;
                let res = match reservation {
                    Some(s) => match self.slots.get(s) {
                        Some(x) => {
                            out.aux = Some(x.node);
                            Some(GlobalAddressReservation(Own(x.node)))
                        }
                        None => {
                            out.abort_on_err = false;
                            out.result = Err(no_node());
                            return out;
                        }
                    },
                    None => None,
                };
                let mut mods: IndexMap<AttachedModuleId, NodeId> = index_map_new();
                let r: Result<(), RuntimeError> = (|| {
                    if modules & 1 != 0 {
                        let m = api.call_function(METADATA_MODULE_PACKAGE, METADATA_BLUEPRINT, METADATA_CREATE_IDENT, scrypto_encode(&MetadataCreateInput {}).unwrap())?;
                        let o: Own = scrypto_decode(&m).unwrap();
                        mods.insert(AttachedModuleId::Metadata, o.0);
                    }
                    if modules & 2 != 0 {
                        let m = api.call_function(
                            ROLE_ASSIGNMENT_MODULE_PACKAGE,
                            ROLE_ASSIGNMENT_BLUEPRINT,
                            ROLE_ASSIGNMENT_CREATE_IDENT,
                            scrypto_encode(&RoleAssignmentCreateInput { owner_role: OwnerRole::None.into(), roles: indexmap!() }).unwrap(),
                        )?;
                        let o: Own = scrypto_decode(&m).unwrap();
                        mods.insert(AttachedModuleId::RoleAssignment, o.0);
                    }
                    if modules & 4 != 0 {
                        let m = api.call_function(
                            ROYALTY_MODULE_PACKAGE,
                            COMPONENT_ROYALTY_BLUEPRINT,
                            COMPONENT_ROYALTY_CREATE_IDENT,
                            scrypto_encode(&ComponentRoyaltyCreateInput { royalty_config: ComponentRoyaltyConfig::default() }).unwrap(),
                        )?;
                        let o: Own = scrypto_decode(&m).unwrap();
                        mods.insert(AttachedModuleId::Royalty, o.0);
                    }
                    Ok(())
                })();
                if let Err(e) = r {
                    out.result = Err(e);
                    return out;
                }
                out.result = api.globalize(n, mods, res).map(|a| {
                    self.gone_node(&n);
                    if let Some(s) = reservation {
                        self.gone(&Tgt::Slot(*s));
                    }
                    out.created.push(a.into_node_id());
                    "globalized".to_string()
                });
            }
            Op::GetInfo { t } => {
                let n = tgt!(t);
                let bp = api.get_blueprint_id(&n);
                let summary = match bp {
                    Ok(bp) => {
                        let outer = api.get_outer_object(&n).ok();
                        format!("object|{}|{}|{}", hex::encode(bp.package_address.as_node_id().0), bp.blueprint_name, outer.map(|o| hex::encode(o.as_node_id().0)).unwrap_or_default())
                    }
                    Err(e1) => match api.get_reservation_address(&n) {
                        Ok(a) => format!("reservation|{}", hex::encode(a.as_node_id().0)),
                        Err(_) => format!("other|{:?}", e1).chars().take(120).collect(),
                    },
                };
                out.result = Ok(summary);
            }
            Op::FieldOp { handle, index, mode, payload } => {
                let flags = if *mode == 0 { LockFlags::read_only() } else { LockFlags::MUTABLE };
                out.result = (|| {
                    let h = api.actor_open_field(*handle, *index, flags)?;
                    let s = match mode {
                        0 => {
                            let v = api.field_read(h)?;
                            format!("read:{}", hex::encode(&v[..v.len().min(24)]))
                        }
                        1 => {
                            api.field_write(h, scrypto_encode(payload).unwrap())?;
                            "written".to_string()
                        }
                        2 => {
                            api.field_write(h, scrypto_encode(payload).unwrap())?;
                            api.field_lock(h)?;
                            "written+locked".to_string()
                        }
                        _ => {
                            api.field_lock(h)?;
                            "locked".to_string()
                        }
                    };
                    api.field_close(h)?;
                    Ok(s)
                })();
            }
            Op::KvActorOp { handle, collection, key, mode, payload } => {
                let k = enc_key(key);
                out.result = (|| {
                    if *mode == 3 {
                        let v = api.actor_remove_key_value_entry(*handle, *collection, &k)?;
                        return Ok(format!("removed:{}", v.len()));
                    }
                    let flags = if *mode == 0 { LockFlags::read_only() } else { LockFlags::MUTABLE };
                    let h = api.actor_open_key_value_entry(*handle, *collection, &k, flags)?;
                    let s = kv_entry_op(api, h, *mode, payload)?;
                    api.key_value_entry_close(h)?;
                    Ok(s)
                })();
            }
            Op::KvStoreOp { t, key, mode, payload } => {
                let n = tgt!(t);
                let k = enc_key(key);
                out.result = (|| {
                    if *mode == 3 {
                        let v = api.key_value_store_remove_entry(&n, &k)?;
                        return Ok(format!("removed:{}", v.len()));
                    }
                    let flags = if *mode == 0 { LockFlags::read_only() } else { LockFlags::MUTABLE };
                    let h = api.key_value_store_open_entry(&n, &k, flags)?;
                    let s = kv_entry_op(api, h, *mode, payload)?;
                    api.key_value_entry_close(h)?;
                    Ok(s)
                })();
            }
            Op::CallMethod { t, method, args, dst } => {
                let n = tgt!(t);
                out.abort_on_err = true;
                out.result = api.call_method(&n, method, args.clone()).map(|r| {
                    self.take_returned(&r, *dst, &mut out);
                    format!("returned:{}", hex::encode(&r[..r.len().min(40)]))
                });
            }
            Op::Amount { t } => {
                let n = tgt!(t);
                out.abort_on_err = true;
                let ident = if matches!(n.entity_type(), Some(EntityType::InternalFungibleVault) | Some(EntityType::InternalNonFungibleVault)) { VAULT_GET_AMOUNT_IDENT } else { BUCKET_GET_AMOUNT_IDENT };
                out.result = api.call_method(&n, ident, scrypto_encode(&()).unwrap()).map(|r| {
                    let d: Decimal = scrypto_decode(&r).unwrap_or(Decimal::ZERO);
                    format!("amount:{d}")
                });
            }
            Op::VaultPut { vault, bucket } => {
                let n = tgt!(vault);
                out.abort_on_err = true;
                let Some(b) = self.live_owned(*bucket) else {
                    out.abort_on_err = false;
                    out.result = Err(no_node());
                    return out;
                };
                out.aux = Some(b);
                out.result = api.call_method(&n, VAULT_PUT_IDENT, scrypto_encode(&(Own(b),)).unwrap()).map(|_| {
                    self.gone_node(&b);
                    "put".to_string()
                });
            }
            Op::Take { from, amount, dst } => {
                let n = tgt!(from);
                out.abort_on_err = true;
                let ident = if matches!(n.entity_type(), Some(EntityType::InternalFungibleVault) | Some(EntityType::InternalNonFungibleVault)) { VAULT_TAKE_IDENT } else { BUCKET_TAKE_IDENT };
                out.result = api.call_method(&n, ident, scrypto_encode(&(*amount,)).unwrap()).map(|r| {
                    self.take_returned(&r, *dst, &mut out);
                    "taken".to_string()
                });
            }
            Op::StoreInKv { slot, key } => {
                let Some(n) = self.live_owned(*slot) else {
                    out.result = Err(no_node());
                    return out;
                };
                out.target = Some(n);
                // a rejected substate write has already taken the node out of the frame: stop on error
                out.abort_on_err = true;
                let k = enc_key(key);
                out.result = (|| {
                    let h = api.actor_open_key_value_entry(ACTOR_STATE_SELF, 0, &k, LockFlags::MUTABLE)?;
                    api.key_value_entry_set(h, scrypto_encode(&Own(n)).unwrap())?;
                    api.key_value_entry_close(h)?;
                    Ok("stored".to_string())
                })();
                if out.result.is_ok() {
                    self.gone_node(&n);
                }
            }
            Op::StoreInStore { slot, store, key } => {
                let (Some(n), Some(st)) = (self.live_owned(*slot), self.slots.get(store).map(|x| x.node)) else {
                    out.result = Err(no_node());
                    return out;
                };
                out.target = Some(n);
                out.aux = Some(st);
                out.abort_on_err = true;
                let k = enc_key(key);
                out.result = (|| {
                    let h = api.key_value_store_open_entry(&st, &k, LockFlags::MUTABLE)?;
                    api.key_value_entry_set(h, scrypto_encode(&Own(n)).unwrap())?;
                    api.key_value_entry_close(h)?;
                    Ok("stored".to_string())
                })();
                if out.result.is_ok() {
                    self.gone_node(&n);
                }
            }
            Op::StoreDup { slot, store, key, shape } => {
                let st = match store {
                    Some(s) => match self.slots.get(s).map(|x| x.node) {
                        Some(n) => Some(n),
                        None => {
                            out.result = Err(no_node());
                            return out;
                        }
                    },
                    None => None,
                };
                let Some(n) = self.live_owned(*slot) else {
                    out.result = Err(no_node());
                    return out;
                };
                out.target = Some(n);
                out.aux = st;
                out.abort_on_err = true;
                let k = enc_key(key);
                let dup = match shape {
                    0 | 3 => scrypto_encode(&(Own(n), Own(n))).unwrap(),
                    1 => scrypto_encode(&vec![Own(n), Own(n)]).unwrap(),
                    _ => scrypto_encode(&(Own(n), vec![7u8; 5], Own(n))).unwrap(),
                };
                if *shape == 4 {
                    // create-node path: a new object whose first field lists the node twice
                    let mut fields = index_map_new();
                    fields.insert(0u8, FieldValue::new((Own(n), Own(n))));
                    fields.insert(1u8, FieldValue::new(vec![1u8]));
                    out.result = api.new_object(BP, vec![], GenericArgs::default(), fields, indexmap!()).map(|o| {
                        self.put(200, o, true);
                        out.created.push(o);
                        "created-with-duplicated-own".to_string()
                    });
                    if out.result.is_ok() {
                        self.gone_node(&n);
                    }
                    return out;
                }
                out.result = (|| {
                    let h = match st {
                        Some(st) => api.key_value_store_open_entry(&st, &k, LockFlags::MUTABLE)?,
                        None => api.actor_open_key_value_entry(ACTOR_STATE_SELF, 0, &k, LockFlags::MUTABLE)?,
                    };
                    if *shape == 3 {
                        api.key_value_entry_set(h, scrypto_encode(&Own(n)).unwrap())?;
                    }
                    api.key_value_entry_set(h, dup)?;
                    api.key_value_entry_close(h)?;
                    Ok("stored-duplicated-own".to_string())
                })();
                if out.result.is_ok() {
                    self.gone_node(&n);
                }
            }
            Op::HoldKv { key } => {
                let k = enc_key(key);
                out.result = api.actor_open_key_value_entry(ACTOR_STATE_SELF, 0, &k, LockFlags::read_only()).map(|h| {
                    self.held.push(h);
                    "held".to_string()
                });
            }
            Op::ReleaseKv => {
                let mut r = Ok("released".to_string());
                for h in std::mem::take(&mut self.held) {
                    if let Err(e) = api.key_value_entry_close(h) {
                        r = Err(e);
                    }
                }
                out.result = r;
            }
            Op::CallPeer { peer, script, give, lend, dst } => {
                out.target = Some(peer.into_node_id());
                let Some((args, owns)) = self.peer_args(script, give, lend) else {
                    out.result = Err(no_node());
                    return out;
                };
                out.abort_on_err = true;
                out.result = api.call_method(peer.as_node_id(), "run", args).map(|r| {
                    for n in &owns {
                        self.gone_node(n);
                    }
                    self.take_returned(&r, *dst, &mut out);
                    "peer-ok".to_string()
                });
            }
            Op::CallFn { package, script, give, lend, dst } => {
                out.target = Some(package.into_node_id());
                let Some((args, owns)) = self.peer_args(script, give, lend) else {
                    out.result = Err(no_node());
                    return out;
                };
                out.abort_on_err = true;
                out.result = api.call_function(*package, BP, "run_fn", args).map(|r| {
                    for n in &owns {
                        self.gone_node(n);
                    }
                    self.take_returned(&r, *dst, &mut out);
                    "fn-ok".to_string()
                });
            }
            Op::CallSlot { slot, script, give, lend, dst } => {
                let n = tgt!(&Tgt::Slot(*slot));
                let Some((args, owns)) = self.peer_args(script, give, lend) else {
                    out.result = Err(no_node());
                    return out;
                };
                out.abort_on_err = true;
                out.result = api.call_method(&n, "run", args).map(|r| {
                    for n in &owns {
                        self.gone_node(n);
                    }
                    self.take_returned(&r, *dst, &mut out);
                    "slot-ok".to_string()
                });
            }
            Op::EmitEvent { count, size } => {
                let Some(payload) = event_payload_of_size(*size as usize) else {
                    out.result = Err(no_node());
                    return out;
                };
                let data = scrypto_encode(&ProbeEvent(payload)).unwrap();
                let mut r = Ok(format!("emitted:{count}x{}", data.len()));
                for _ in 0..*count {
                    if let Err(e) = api.actor_emit_event(EVENT_NAME.to_string(), data.clone(), EventFlags::empty()) {
                        r = Err(e);
                        break;
                    }
                }
                out.abort_on_err = true;
                out.result = r;
            }
            Op::EmitLog { count, size } => {
                let msg = "x".repeat(*size as usize);
                let mut r = Ok(format!("logged:{count}x{size}"));
                for _ in 0..*count {
                    if let Err(e) = api.emit_log(Level::Info, msg.clone()) {
                        r = Err(e);
                        break;
                    }
                }
                out.abort_on_err = true;
                out.result = r;
            }
            Op::Recurse { package, depth } => {
                out.abort_on_err = true;
                if *depth == 0 {
                    out.result = Ok("leaf".to_string());
                } else {
                    let script = scrypto_encode(&vec![Op::Recurse { package: *package, depth: depth - 1 }]).unwrap();
                    let args = ProbeArgs { script, give_a: vec![], give_b: vec![], give_c: vec![], lend: vec![] };
                    out.result = api.call_function(*package, BP, "run_fn", scrypto_encode(&args).unwrap()).map(|_| "recursed".to_string());
                }
            }
            Op::RoyaltyOp { mode, method } => {
                out.abort_on_err = true;
                out.result = (|| {
                    let me = api.actor_get_node_id(ACTOR_REF_GLOBAL)?;
                    match mode {
                        0 => api.call_module_method(&me, AttachedModuleId::Royalty, COMPONENT_ROYALTY_SET_ROYALTY_IDENT, scrypto_encode(&ComponentRoyaltySetInput { method: method.clone(), amount: RoyaltyAmount::Xrd(dec!(1)) }).unwrap()),
                        1 => api.call_module_method(&me, AttachedModuleId::Royalty, COMPONENT_ROYALTY_LOCK_ROYALTY_IDENT, scrypto_encode(&ComponentRoyaltyLockInput { method: method.clone() }).unwrap()),
                        _ => api.call_module_method(&me, AttachedModuleId::Royalty, COMPONENT_ROYALTY_SET_ROYALTY_IDENT, scrypto_encode(&ComponentRoyaltySetInput { method: method.clone(), amount: RoyaltyAmount::Free }).unwrap()),
                    }
                    .map(|_| "royalty-ok".to_string())
                })();
            }
            Op::Return { slots } => {
                self.returned = slots.clone();
                out.result = Ok("return-set".to_string());
            }
        }
        out
    }

    /// Dispose of everything still owned so that the frame can return.
    fn cleanup<Y: SystemApi<RuntimeError>>(&mut self, api: &mut Y) -> Result<Vec<Own>, RuntimeError> {
        let mut idx = 1000usize;
        let mut step = |me: &mut Interp, api: &mut Y, op: Op| -> Result<bool, RuntimeError> {
            let out = me.exec(&op, api);
            idx += 1;
            let ok = out.result.is_ok();
            let abort = out.abort_on_err && !ok;
            push(TraceEv::Step(Step {
                frame: me.frame,
                idx,
                op,
                target: out.target,
                aux: out.aux,
                created: out.created.clone(),
                result: match &out.result {
                    Ok(s) => Ok(s.clone()),
                    Err(e) => Err(format!("{:?}", e)),
                },
                aborted: abort,
            }));
            if abort {
                return Err(out.result.err().unwrap());
            }
            Ok(ok)
        };
        if !self.held.is_empty() {
            step(self, api, Op::ReleaseKv)?;
        }
        // keys unique per transaction (entries of earlier transactions must not be overwritten)
        let uniq: Vec<u8> = api.generate_ruid().map(|r| r[..10].to_vec()).unwrap_or_default();
        let key_for = |frame: u32, s: u8| -> Vec<u8> {
            let mut k = vec![0xc1, frame as u8, s];
            k.extend_from_slice(&uniq);
            k
        };
        let mut rtn: Vec<Own> = vec![];
        let returned = self.returned.clone();
        let slots: Vec<(u8, Slot)> = self.slots.iter().map(|(k, v)| (*k, v.clone())).collect();
        for (s, slot) in slots {
            if !slot.owned || self.slots.get(&s).map(|x| x.state) != Some(SlotState::Live) {
                continue;
            }
            let n = slot.node;
            if returned.contains(&s) {
                rtn.push(Own(n));
                continue;
            }
            let bp = api.get_blueprint_id(&n).ok();
            match bp {
                Some(bp) if bp.package_address == RESOURCE_PACKAGE && (bp.blueprint_name == FUNGIBLE_PROOF_BLUEPRINT || bp.blueprint_name == NON_FUNGIBLE_PROOF_BLUEPRINT) => {
                    step(self, api, Op::DropProof { slot: s })?;
                }
                Some(bp) if bp.package_address == RESOURCE_PACKAGE && (bp.blueprint_name == FUNGIBLE_BUCKET_BLUEPRINT || bp.blueprint_name == NON_FUNGIBLE_BUCKET_BLUEPRINT) => {
                    rtn.push(Own(n));
                }
                Some(bp) if Some(&bp) == self.actor_bp.as_ref() && api.get_outer_object(&n).is_err() => {
                    if !step(self, api, Op::Drop { t: Tgt::Slot(s) })? {
                        if self.is_method {
                            if !step(self, api, Op::StoreInKv { slot: s, key: key_for(self.frame, s) })? {
                                rtn.push(Own(n));
                            }
                        } else {
                            rtn.push(Own(n));
                        }
                    }
                }
                None if api.get_reservation_address(&n).is_ok() => {
                    // reservations cannot be stored: hand back (the transaction fails at top level unless consumed)
                    rtn.push(Own(n));
                }
                _ => {
                    if self.is_method {
                        if !step(self, api, Op::StoreInKv { slot: s, key: key_for(self.frame, s) })? {
                            rtn.push(Own(n));
                        }
                    } else {
                        rtn.push(Own(n));
                    }
                }
            }
        }
        Ok(rtn)
    }
}

fn kv_entry_op<Y: SystemApi<RuntimeError>>(api: &mut Y, h: u32, mode: u8, payload: &Vec<u8>) -> Result<String, RuntimeError> {
    Ok(match mode {
        0 => {
            let v = api.key_value_entry_get(h)?;
            format!("read:{}", hex::encode(&v[..v.len().min(24)]))
        }
        1 => {
            api.key_value_entry_set(h, scrypto_encode(payload).unwrap())?;
            "set".to_string()
        }
        2 => {
            api.key_value_entry_set(h, scrypto_encode(payload).unwrap())?;
            api.key_value_entry_lock(h)?;
            "set+locked".to_string()
        }
        _ => {
            api.key_value_entry_lock(h)?;
            "locked".to_string()
        }
    })
}

fn run_script<Y: SystemApi<RuntimeError>>(export: &str, input: &IndexedScryptoValue, api: &mut Y) -> Result<IndexedScryptoValue, RuntimeError> {
    let frame = NEXT_FRAME.with(|n| {
        let mut n = n.borrow_mut();
        *n += 1;
        *n
    });
    let args: ProbeArgs = input.as_typed().map_err(|e| RuntimeError::ApplicationError(radix_engine::errors::ApplicationError::PanicMessage(format!("probe: bad args {e:?}"))))?;
    let script: Vec<Op> = scrypto_decode(&args.script).map_err(|e| RuntimeError::ApplicationError(radix_engine::errors::ApplicationError::PanicMessage(format!("probe: bad script {e:?}"))))?;
    let self_node = api.actor_get_node_id(ACTOR_REF_SELF).ok();
    let actor_bp = api.actor_get_blueprint_id().ok();
    let mut me = Interp { frame, slots: BTreeMap::new(), held: vec![], is_method: self_node.is_some(), actor_bp: actor_bp.clone(), returned: vec![], ambient: args.lend.iter().map(|r| r.0).filter(|n| n.is_global()).collect() };
    let mut s = 0u8;
    for o in args.give_a.iter().chain(args.give_b.iter()).chain(args.give_c.iter()) {
        me.put(s, o.0, true);
        s += 1;
    }
    for r in &args.lend {
        me.put(s, r.0, false);
        s += 1;
    }
    push(TraceEv::Enter { frame, export: export.to_string(), self_node, blueprint: actor_bp, slots: me.slots.iter().map(|(k, v)| (*k, v.node, v.owned)).collect() });
    for (idx, op) in script.iter().enumerate() {
        let out = me.exec(op, api);
        let abort = out.abort_on_err && out.result.is_err();
        push(TraceEv::Step(Step {
            frame,
            idx,
            op: op.clone(),
            target: out.target,
            aux: out.aux,
            created: out.created.clone(),
            result: match &out.result {
                Ok(s) => Ok(s.clone()),
                Err(e) => Err(format!("{:?}", e)),
            },
            aborted: abort,
        }));
        if abort {
            push(TraceEv::Exit { frame, ok: false, returned: vec![] });
            return Err(out.result.err().unwrap());
        }
    }
    match me.cleanup(api) {
        Ok(rtn) => {
            push(TraceEv::Exit { frame, ok: true, returned: rtn.iter().map(|o| o.0).collect() });
            Ok(IndexedScryptoValue::from_typed(&rtn))
        }
        Err(e) => {
            push(TraceEv::Exit { frame, ok: false, returned: vec![] });
            Err(e)
        }
    }
}

fn globalize_new<Y: SystemApi<RuntimeError>>(api: &mut Y, node: NodeId, with_royalty: bool) -> Result<GlobalAddress, RuntimeError> {
    let md = api.call_function(METADATA_MODULE_PACKAGE, METADATA_BLUEPRINT, METADATA_CREATE_IDENT, scrypto_encode(&MetadataCreateInput {}).unwrap())?;
    let md: Own = scrypto_decode(&md).unwrap();
    let ra = api.call_function(
        ROLE_ASSIGNMENT_MODULE_PACKAGE,
        ROLE_ASSIGNMENT_BLUEPRINT,
        ROLE_ASSIGNMENT_CREATE_IDENT,
        scrypto_encode(&RoleAssignmentCreateInput { owner_role: OwnerRole::Updatable(AccessRule::AllowAll).into(), roles: indexmap!() }).unwrap(),
    )?;
    let ra: Own = scrypto_decode(&ra).unwrap();
    let mut mods = indexmap!(AttachedModuleId::Metadata => md.0, AttachedModuleId::RoleAssignment => ra.0);
    if with_royalty {
        let ro = api.call_function(
            ROYALTY_MODULE_PACKAGE,
            COMPONENT_ROYALTY_BLUEPRINT,
            COMPONENT_ROYALTY_CREATE_IDENT,
            scrypto_encode(&ComponentRoyaltyCreateInput { royalty_config: ComponentRoyaltyConfig::default() }).unwrap(),
        )?;
        let ro: Own = scrypto_decode(&ro).unwrap();
        mods.insert(AttachedModuleId::Royalty, ro.0);
    }
    api.globalize(node, mods, None)
}

#[derive(Clone)]
pub struct ProbeInvoke;

impl VmInvoke for ProbeInvoke {
    fn invoke<Y: SystemApi<RuntimeError>, V: VmApi>(&mut self, export_name: &str, input: &IndexedScryptoValue, api: &mut Y, _vm_api: &V) -> Result<IndexedScryptoValue, RuntimeError> {
        match export_name {
            "run" | "run_fn" => run_script(export_name, input, api),
            "new_global" => {
                // (field payload, with_royalty)
                let (payload, with_royalty): (Vec<u8>, bool) = input.as_typed().unwrap();
                let node = api.new_object(BP, vec![], GenericArgs::default(), indexmap!(0u8 => FieldValue::new(&payload), 1u8 => FieldValue::new(&payload)), indexmap!())?;
                let addr = globalize_new(api, node, with_royalty)?;
                Ok(IndexedScryptoValue::from_typed(&addr))
            }
            "make_victim" => {
                // (bucket, resource): a component owning a funded vault (in a field), a key-value store with an
                // entry, an empty vault and a plain owned object (in its collection); nobody ever calls it.
                let (bucket, resource): (Own, ResourceAddress) = input.as_typed().unwrap();
                let vault = api.call_method(resource.as_node_id(), RESOURCE_MANAGER_CREATE_EMPTY_VAULT_IDENT, scrypto_encode(&ResourceManagerCreateEmptyVaultInput {}).unwrap())?;
                let vault: Own = scrypto_decode(&vault).unwrap();
                api.call_method(vault.as_node_id(), VAULT_PUT_IDENT, scrypto_encode(&(bucket,)).unwrap())?;
                let vault2 = api.call_method(resource.as_node_id(), RESOURCE_MANAGER_CREATE_EMPTY_VAULT_IDENT, scrypto_encode(&ResourceManagerCreateEmptyVaultInput {}).unwrap())?;
                let vault2: Own = scrypto_decode(&vault2).unwrap();
                let store = api.key_value_store_new(KeyValueStoreDataSchema::new_local_without_self_package_replacement::<Vec<u8>, ScryptoValue>(true))?;
                {
                    let h = api.key_value_store_open_entry(&store, &enc_key(b"secret"), LockFlags::MUTABLE)?;
                    api.key_value_entry_set(h, scrypto_encode(&b"victim-store-value".to_vec()).unwrap())?;
                    api.key_value_entry_close(h)?;
                }
                let plain = api.new_object(BP, vec![], GenericArgs::default(), indexmap!(0u8 => FieldValue::new(&b"plain0".to_vec()), 1u8 => FieldValue::new(&b"plain1".to_vec())), indexmap!())?;
                let kv = indexmap!(0u8 => indexmap!(
                    enc_key(b"store") => KVEntry { value: Some(scrypto_encode(&Own(store)).unwrap()), locked: false },
                    enc_key(b"vault2") => KVEntry { value: Some(scrypto_encode(&vault2).unwrap()), locked: false },
                    enc_key(b"plain") => KVEntry { value: Some(scrypto_encode(&Own(plain)).unwrap()), locked: false },
                    enc_key(b"data") => KVEntry { value: Some(scrypto_encode(&b"victim-entry".to_vec()).unwrap()), locked: false },
                ));
                let node = api.new_object(BP, vec![], GenericArgs::default(), indexmap!(0u8 => FieldValue::new(&vault), 1u8 => FieldValue::new(&b"victim-field".to_vec())), kv)?;
                let addr = globalize_new(api, node, false)?;
                Ok(IndexedScryptoValue::from_typed(&addr))
            }
            other => Err(RuntimeError::ApplicationError(radix_engine::errors::ApplicationError::PanicMessage(format!("probe: no export {other}")))),
        }
    }
}
