//! Schema-driven generator of manifest argument values (workload (i)) and byte-level mutation of
//! encoded argument tuples (workload (ii)).
//!
//! `Gen::value` walks a (schema, local type id) and produces a `ManifestValue` of that shape with
//! hostile leaves: integers at their extremes and around schema bounds, extreme Decimals and
//! PreciseDecimals, empty / long strings and collections, every enum variant (and sometimes an
//! unknown discriminator), maps with duplicate keys, addresses of the right and of the wrong
//! entity type taken from the entities that really exist, real buckets / proofs / address
//! reservations created by set-up instructions placed before the call (plus empty, foreign,
//! re-used and dangling ids), non-fungible ids that exist, that were burned, or of the wrong type.
use crate::world::*;
use radix_common::data::manifest::converter::{from_decimal, from_non_fungible_local_id};
use rv_common::Rng;
use rv_ledger::prelude::*;

pub type MV = ManifestValue;
pub type MK = ManifestValueKind;
pub type Schema = SchemaV1<ScryptoCustomSchema>;

pub struct Gen<'a> {
    pub w: &'a World,
    pub rng: &'a mut Rng,
    /// set-up instructions to run before the call under test (they create the buckets etc.)
    pub pre: Vec<InstructionV1>,
    pub blobs: Vec<Vec<u8>>,
    pub n_buckets: u32,
    pub n_proofs: u32,
    pub n_reservations: u32,
    pub n_named: u32,
    /// resources related to the receiver (preferred for buckets / resource addresses / ids)
    pub affinity: Vec<ResourceAddress>,
    /// blueprint of the call under test (preferred for address reservations)
    pub bp_hint: Option<(PackageAddress, String)>,
    /// function names of the blueprint under test (candidate method-name strings)
    pub names: Vec<String>,
    /// role names of the receiver's blueprint and of the attached modules
    pub role_names: Vec<String>,
    /// (module discriminator, role name) pairs that exist on the receiver
    pub role_pairs: Vec<(u8, String)>,
    pub budget: i64,
    pub max_depth: usize,
    /// probability (percent) of deliberately ill-typed / out-of-bounds leaves
    pub hostility: u64,
    /// how many deliberately invalid leaves one argument value may still get (large inputs would
    /// otherwise never pass the payload type check)
    pub invalid_budget: i32,
    /// what set-up did (for the evidence)
    pub used: Vec<&'static str>,
}

fn unit() -> MV {
    MV::Tuple { fields: vec![] }
}

pub fn mdec(d: Decimal) -> MV {
    MV::Custom { value: ManifestCustomValue::Decimal(from_decimal(&d)) }
}
pub fn maddr(n: &NodeId) -> MV {
    MV::Custom { value: ManifestCustomValue::Address(ManifestAddress::Static(*n)) }
}
pub fn mbucket(i: u32) -> MV {
    MV::Custom { value: ManifestCustomValue::Bucket(ManifestBucket(i)) }
}
pub fn mproof(i: u32) -> MV {
    MV::Custom { value: ManifestCustomValue::Proof(ManifestProof(i)) }
}
pub fn mstr(s: &str) -> MV {
    MV::String { value: s.to_string() }
}
pub fn mnfid(id: &NonFungibleLocalId) -> MV {
    MV::Custom { value: ManifestCustomValue::NonFungibleLocalId(from_non_fungible_local_id(id.clone())) }
}
pub fn typed<T: ManifestEncode>(t: &T) -> MV {
    manifest_decode::<MV>(&manifest_encode(t).expect("harness: typed value encodes")).expect("harness: typed value decodes")
}

impl<'a> Gen<'a> {
    pub fn new(w: &'a World, rng: &'a mut Rng) -> Gen<'a> {
        Gen { w, rng, pre: vec![], blobs: vec![], n_buckets: 0, n_proofs: 0, n_reservations: 0, n_named: 0, affinity: vec![], bp_hint: None, names: vec![], role_names: vec![], role_pairs: vec![], budget: 400, max_depth: 10, hostility: 8, invalid_budget: 1, used: vec![] }
    }

    fn hostile(&mut self) -> bool {
        if self.invalid_budget <= 0 {
            return false;
        }
        if self.rng.below(100) < self.hostility {
            self.invalid_budget -= 1;
            true
        } else {
            false
        }
    }

    fn rarely_invalid(&mut self, den: u64) -> bool {
        if self.invalid_budget > 0 && self.rng.chance(1, den) {
            self.invalid_budget -= 1;
            true
        } else {
            false
        }
    }

    fn a0(&self) -> ComponentAddress {
        self.w.keys[0].account
    }

    // -----------------------------------------------------------------------------------------
    // leaves
    // -----------------------------------------------------------------------------------------
    pub fn any_resource(&mut self) -> ResourceAddress {
        if !self.affinity.is_empty() && self.rng.chance(7, 10) {
            return *self.rng.pick(&self.affinity);
        }
        match self.rng.below(10) {
            0..=4 => *self.rng.pick(&self.w.fungibles),
            5..=7 if !self.w.nfs.is_empty() => self.rng.pick(&self.w.nfs).0,
            _ => {
                let n = self.rng.pick(&self.w.resources);
                ResourceAddress::try_from(n.0.as_slice()).unwrap_or(XRD)
            }
        }
    }

    fn is_fungible(r: &ResourceAddress) -> bool {
        r.as_node_id().entity_type() == Some(EntityType::GlobalFungibleResourceManager)
    }

    pub fn decimal_raw(&mut self) -> [u8; 24] {
        let d = |x: Decimal| -> [u8; 24] { x.to_vec().try_into().unwrap() };
        match self.rng.below(24) {
            0 => d(Decimal::ZERO),
            1 => d(Decimal::ONE),
            2 => d(Decimal::ONE_ATTO),
            3 => d(Decimal::MAX),
            4 => d(Decimal::MIN),
            5 => d(dec!(-1)),
            6 => d(Decimal::ONE_ATTO.checked_neg().unwrap()),
            7 => d(Decimal::MAX.checked_sub(Decimal::ONE_ATTO).unwrap()),
            8 => d(Decimal::MIN.checked_add(Decimal::ONE_ATTO).unwrap()),
            9 => d(dec!("0.5")),
            10 => d(dec!("0.000000000000000001")),
            11 => d(dec!("1.000000000000000001")),
            12 | 13 => d(Decimal::from(self.rng.range(1, 5))),
            14 => d(Decimal::from(self.rng.below(1000))),
            15 => d(Decimal::from(10u64.pow(self.rng.below(19) as u32))),
            16 => {
                // a power of two of attos: hits multiplication / division overflow thresholds
                let k = self.rng.below(191) as usize;
                let mut b = [0u8; 24];
                b[k / 8] = 1 << (k % 8);
                b
            }
            17 => {
                let k = self.rng.below(190) as usize;
                let mut b = [0xffu8; 24];
                b[k / 8] &= !(1 << (k % 8));
                b
            }
            18 => {
                let mut b = [0u8; 24];
                self.rng.fill(&mut b);
                b
            }
            19 => {
                // random magnitude, random sign
                let n = self.rng.range(1, 23) as usize;
                let mut b = [0u8; 24];
                self.rng.fill(&mut b[..n]);
                if self.rng.bool() {
                    for x in b.iter_mut() {
                        *x = !*x;
                    }
                }
                b
            }
            20 => d(Decimal::from(self.rng.below(100)).checked_div(dec!(100)).unwrap()),
            21 => d(dec!("0.05")),
            22 => d(Decimal::MAX.checked_div(dec!(2)).unwrap()),
            _ => d(Decimal::from(self.rng.below(20) + 1)),
        }
    }

    pub fn decimal(&mut self) -> MV {
        MV::Custom { value: ManifestCustomValue::Decimal(ManifestDecimal(self.decimal_raw())) }
    }

    pub fn precise_decimal(&mut self) -> MV {
        let p = |x: PreciseDecimal| -> [u8; 32] { x.to_vec().try_into().unwrap() };
        let b: [u8; 32] = match self.rng.below(12) {
            0 => p(PreciseDecimal::ZERO),
            1 => p(PreciseDecimal::ONE),
            2 => p(PreciseDecimal::MAX),
            3 => p(PreciseDecimal::MIN),
            4 => p(PreciseDecimal::ONE_PRECISE_SUBUNIT),
            5 => p(PreciseDecimal::from(-1)),
            6 => {
                let k = self.rng.below(255) as usize;
                let mut b = [0u8; 32];
                b[k / 8] = 1 << (k % 8);
                b
            }
            7 => {
                let mut b = [0u8; 32];
                self.rng.fill(&mut b);
                b
            }
            8 => p(PreciseDecimal::from(Decimal::MAX)),
            9 => p(PreciseDecimal::from(Decimal::MIN)),
            _ => p(PreciseDecimal::from(self.rng.below(1000))),
        };
        MV::Custom { value: ManifestCustomValue::PreciseDecimal(ManifestPreciseDecimal(b)) }
    }

    pub fn nf_id_for(&mut self, resource: Option<ResourceAddress>) -> NonFungibleLocalId {
        if let Some(r) = resource {
            if self.rng.chance(7, 10) {
                // an id that exists (held by account 0) or is known (transferred / burned)
                let held = self.w.ids0(r);
                if !held.is_empty() && self.rng.chance(2, 3) {
                    return self.rng.pick(&held).clone();
                }
                if let Some(k) = self.w.known_ids.get(&r) {
                    if !k.is_empty() {
                        return self.rng.pick(k).clone();
                    }
                }
            }
        }
        match self.rng.below(12) {
            0 => NonFungibleLocalId::integer(0),
            1 => NonFungibleLocalId::integer(u64::MAX),
            2 | 3 => NonFungibleLocalId::integer(self.rng.range(1, 12)),
            4 => NonFungibleLocalId::string("a".to_string()).unwrap(),
            5 => NonFungibleLocalId::string("x".repeat(64)).unwrap(),
            6 => NonFungibleLocalId::string(format!("id_{}", self.rng.below(1000))).unwrap(),
            7 => NonFungibleLocalId::bytes(vec![0u8]).unwrap(),
            8 => NonFungibleLocalId::bytes(self.rng.bytes(64)).unwrap(),
            9 => NonFungibleLocalId::bytes(vec![self.rng.range(1, 4) as u8, 0xff]).unwrap(),
            10 => NonFungibleLocalId::ruid([0u8; 32]),
            _ => {
                let mut b = [0u8; 32];
                self.rng.fill(&mut b);
                NonFungibleLocalId::ruid(b)
            }
        }
    }

    fn nf_resource_hint(&mut self) -> Option<ResourceAddress> {
        let nf: Vec<ResourceAddress> = self.affinity.iter().filter(|r| !Self::is_fungible(r)).cloned().collect();
        if !nf.is_empty() && self.rng.chance(4, 5) {
            return Some(*self.rng.pick(&nf));
        }
        if self.w.nfs.is_empty() {
            None
        } else {
            Some(self.rng.pick(&self.w.nfs).0)
        }
    }

    pub fn string(&mut self, hint: &str) -> String {
        let h = hint.to_ascii_lowercase();
        if (h.contains("method") || h.contains("function") || h.contains("ident")) && !self.names.is_empty() && self.rng.chance(3, 4) {
            return self.rng.pick(&self.names).clone();
        }
        if h.contains("field") && self.rng.chance(1, 2) {
            // field names of the non-fungible data of the world's resources
            return self.rng.pick(&["counter", "fixed", "note"]).to_string();
        }
        if h.contains("role") && !self.role_names.is_empty() && self.rng.chance(3, 5) {
            return self.rng.pick(&self.role_names).clone();
        }
        if (h.contains("role") && self.rng.chance(2, 3)) || (h.contains("key") && self.rng.chance(1, 3)) {
            return self.rng.pick(&self.w.strings).clone();
        }
        if h.contains("blueprint") && self.rng.chance(3, 4) {
            let keys: Vec<&String> = self.w.by_bp.keys().collect();
            return (*self.rng.pick(&keys)).clone();
        }
        if h.contains("url") && self.rng.chance(3, 4) {
            return self.rng.pick(&["https://example.com/x", "https://example.com", "http://a.b/c?d=e#f", "https://", "ftp://x.y", "https://exa mple.com", "https://例え.jp/x"]).to_string();
        }
        if h.contains("origin") && self.rng.chance(3, 4) {
            return self.rng.pick(&["https://example.com", "https://example.com:8080", "https://example.com/", "example.com", "https://"]).to_string();
        }
        match self.rng.below(20) {
            0 => String::new(),
            1 => "a".repeat(self.rng.range(1, 300) as usize),
            2 => "é".repeat(self.rng.range(1, 40) as usize),
            3 => "\0\u{1}\n\t\"'\\".to_string(),
            4 => "😀𝔘\u{202e}\u{feff}".to_string(),
            5 if self.rng.chance(1, 4) => "z".repeat(self.rng.range(1_000, 60_000) as usize),
            6 => format!("k{}", self.rng.below(4)),
            7 if !self.names.is_empty() => self.rng.pick(&self.names).clone(),
            _ => self.rng.pick(&self.w.strings).clone(),
        }
    }

    fn int_choice(&mut self, min: i128, max: i128, vmin: Option<i128>, vmax: Option<i128>) -> i128 {
        // min/max: type range; vmin/vmax: schema validation bounds
        let lo = vmin.unwrap_or(min);
        let hi = vmax.unwrap_or(max);
        let clamp = |x: i128| x.max(min).min(max);
        if self.hostile() {
            return match self.rng.below(4) {
                0 => clamp(lo.saturating_sub(1)),
                1 => clamp(hi.saturating_add(1)),
                2 => min,
                _ => max,
            };
        }
        let within = |x: i128| x.max(lo).min(hi);
        match self.rng.below(14) {
            0 => lo,
            1 => hi,
            2 => within(0),
            3 => within(1),
            4 => within(lo.saturating_add(1)),
            5 => within(hi.saturating_sub(1)),
            6 => within(-1),
            7 => within(1i128 << self.rng.below(127)),
            8 => within((1i128 << self.rng.below(127)) - 1),
            9 => within(self.rng.u128() as i128),
            10 => within(self.rng.below(1_000_000) as i128),
            _ => within(self.rng.below(12) as i128),
        }
    }

    // -----------------------------------------------------------------------------------------
    // buckets / proofs / reservations: created by set-up instructions
    // -----------------------------------------------------------------------------------------
    fn withdraw(&mut self, r: ResourceAddress, amount: Decimal) {
        let a0 = self.a0();
        self.pre.push(InstructionV1::CallMethod(CallMethod { address: a0.into(), method_name: ACCOUNT_WITHDRAW_IDENT.to_string(), args: MV::Tuple { fields: vec![maddr(r.as_node_id()), mdec(amount)] } }));
    }

    /// A fresh bucket; returns its manifest id. `want`: preferred resource.
    pub fn new_bucket(&mut self, want: Option<ResourceAddress>) -> u32 {
        let r = want.unwrap_or_else(|| self.any_resource());
        let id = self.n_buckets;
        let fungible = Self::is_fungible(&r);
        match self.rng.below(20) {
            0 => {
                // empty bucket
                self.used.push("bucket:empty");
                self.pre.push(InstructionV1::TakeFromWorktop(TakeFromWorktop { resource_address: r, amount: Decimal::ZERO }));
            }
            1 | 2 if fungible && r != XRD => {
                // freshly minted (resources of the world have AllowAll roles)
                self.used.push("bucket:minted");
                let amt = Decimal::from(self.rng.range(1, 50));
                self.pre.push(InstructionV1::CallMethod(CallMethod { address: GlobalAddress::from(r).into(), method_name: FUNGIBLE_RESOURCE_MANAGER_MINT_IDENT.to_string(), args: MV::Tuple { fields: vec![mdec(amt)] } }));
                self.pre.push(InstructionV1::TakeAllFromWorktop(TakeAllFromWorktop { resource_address: r }));
            }
            _ if fungible => {
                let bal = self.w.balance0(r);
                let amt = if bal.is_positive() && self.rng.chance(1, 12) {
                    bal
                } else if bal >= dec!(10) {
                    Decimal::from(self.rng.range(1, 9))
                } else if bal >= Decimal::ONE {
                    Decimal::ONE
                } else {
                    Decimal::ZERO
                };
                self.used.push("bucket:fungible");
                if amt.is_positive() {
                    self.withdraw(r, amt);
                }
                self.pre.push(InstructionV1::TakeFromWorktop(TakeFromWorktop { resource_address: r, amount: amt }));
            }
            _ => {
                let held = self.w.ids0(r);
                let n = if held.is_empty() { 0 } else { self.rng.range(1, held.len().min(3) as u64) as usize };
                let ids: Vec<NonFungibleLocalId> = held.into_iter().take(n).collect();
                self.used.push("bucket:non_fungible");
                if !ids.is_empty() {
                    let a0 = self.a0();
                    self.pre.push(InstructionV1::CallMethod(CallMethod {
                        address: a0.into(),
                        method_name: ACCOUNT_WITHDRAW_NON_FUNGIBLES_IDENT.to_string(),
                        args: MV::Tuple { fields: vec![maddr(r.as_node_id()), MV::Array { element_value_kind: MK::Custom(ManifestCustomValueKind::NonFungibleLocalId), elements: ids.iter().map(mnfid).collect() }] },
                    }));
                }
                self.pre.push(InstructionV1::TakeNonFungiblesFromWorktop(TakeNonFungiblesFromWorktop { resource_address: r, ids }));
            }
        }
        self.n_buckets += 1;
        id
    }

    pub fn bucket(&mut self, want: Option<ResourceAddress>) -> MV {
        if self.n_buckets > 0 && self.hostile() {
            return match self.rng.below(3) {
                0 => {
                    self.used.push("bucket:reused-id");
                    mbucket(self.rng.below(self.n_buckets as u64) as u32)
                }
                1 => {
                    self.used.push("bucket:dangling-id");
                    mbucket(self.n_buckets + 5 + self.rng.below(3) as u32)
                }
                _ => mbucket(u32::MAX),
            };
        }
        if self.n_buckets >= 6 {
            return mbucket(self.rng.below(self.n_buckets as u64) as u32);
        }
        let id = self.new_bucket(want);
        mbucket(id)
    }

    pub fn new_proof(&mut self) -> u32 {
        let id = self.n_proofs;
        let r = self.any_resource();
        let a0 = self.a0();
        match self.rng.below(5) {
            0 => {
                // proof of a bucket (the bucket stays locked for the rest of the manifest)
                self.used.push("proof:of-bucket");
                let b = self.new_bucket(Some(r));
                self.pre.push(InstructionV1::CreateProofFromBucketOfAll(CreateProofFromBucketOfAll { bucket_id: ManifestBucket(b) }));
            }
            _ if Self::is_fungible(&r) => {
                self.used.push("proof:fungible");
                let bal = self.w.balance0(r);
                let amt = if bal >= Decimal::ONE { Decimal::ONE } else { bal };
                self.pre.push(InstructionV1::CallMethod(CallMethod { address: a0.into(), method_name: ACCOUNT_CREATE_PROOF_OF_AMOUNT_IDENT.to_string(), args: MV::Tuple { fields: vec![maddr(r.as_node_id()), mdec(amt)] } }));
                self.pre.push(InstructionV1::PopFromAuthZone(PopFromAuthZone));
            }
            _ => {
                self.used.push("proof:non_fungible");
                let ids: Vec<NonFungibleLocalId> = self.w.ids0(r).into_iter().take(2).collect();
                self.pre.push(InstructionV1::CallMethod(CallMethod {
                    address: a0.into(),
                    method_name: ACCOUNT_CREATE_PROOF_OF_NON_FUNGIBLES_IDENT.to_string(),
                    args: MV::Tuple { fields: vec![maddr(r.as_node_id()), MV::Array { element_value_kind: MK::Custom(ManifestCustomValueKind::NonFungibleLocalId), elements: ids.iter().map(mnfid).collect() }] },
                }));
                self.pre.push(InstructionV1::PopFromAuthZone(PopFromAuthZone));
            }
        }
        self.n_proofs += 1;
        id
    }

    pub fn proof(&mut self) -> MV {
        if self.n_proofs > 0 && self.hostile() {
            return match self.rng.below(2) {
                0 => mproof(self.rng.below(self.n_proofs as u64) as u32),
                _ => mproof(self.n_proofs + 3),
            };
        }
        if self.n_proofs >= 4 {
            return mproof(self.rng.below(self.n_proofs as u64) as u32);
        }
        let id = self.new_proof();
        mproof(id)
    }

    /// Allocates a global address: returns (reservation id, named address id).
    pub fn new_reservation(&mut self) -> (u32, u32) {
        let (package, blueprint) = match (&self.bp_hint, self.rng.below(10)) {
            (Some((p, b)), 0..=7) => (*p, b.clone()),
            _ => {
                // some other existing blueprint (wrong for the call under test)
                let choices: [(PackageAddress, &str); 6] = [
                    (ACCOUNT_PACKAGE, ACCOUNT_BLUEPRINT),
                    (RESOURCE_PACKAGE, FUNGIBLE_RESOURCE_MANAGER_BLUEPRINT),
                    (RESOURCE_PACKAGE, NON_FUNGIBLE_RESOURCE_MANAGER_BLUEPRINT),
                    (POOL_PACKAGE, ONE_RESOURCE_POOL_BLUEPRINT),
                    (PACKAGE_PACKAGE, PACKAGE_BLUEPRINT),
                    (IDENTITY_PACKAGE, "NoSuchBlueprint"),
                ];
                let c = self.rng.pick(&choices);
                (c.0, c.1.to_string())
            }
        };
        self.used.push("address-reservation");
        self.pre.push(InstructionV1::AllocateGlobalAddress(AllocateGlobalAddress { package_address: package, blueprint_name: blueprint }));
        self.n_reservations += 1;
        self.n_named += 1;
        (self.n_reservations - 1, self.n_named - 1)
    }

    pub fn reservation(&mut self) -> MV {
        if self.n_reservations > 0 && self.hostile() {
            return MV::Custom { value: ManifestCustomValue::AddressReservation(ManifestAddressReservation(self.rng.below(self.n_reservations as u64 + 2) as u32)) };
        }
        let (r, _) = self.new_reservation();
        MV::Custom { value: ManifestCustomValue::AddressReservation(ManifestAddressReservation(r)) }
    }

    // -----------------------------------------------------------------------------------------
    // addresses
    // -----------------------------------------------------------------------------------------
    fn pick_node(&mut self, xs: &[NodeId]) -> Option<NodeId> {
        if xs.is_empty() {
            None
        } else {
            Some(*self.rng.pick(xs))
        }
    }

    pub fn address(&mut self, v: Option<&ReferenceValidation>, hint: &str) -> MV {
        let w = self.w;
        // named address (of a reservation made in this manifest)
        if self.rng.chance(1, 40) && !matches!(v, Some(ReferenceValidation::IsInternal) | Some(ReferenceValidation::IsInternalTyped(..))) {
            let n = if self.n_named > 0 && self.rng.bool() { self.rng.below(self.n_named as u64) as u32 } else { self.new_reservation().1 };
            self.used.push("named-address");
            return MV::Custom { value: ManifestCustomValue::Address(ManifestAddress::Named(ManifestNamedAddress(n))) };
        }
        let wrong = self.hostile();
        let h = hint.to_ascii_lowercase();
        let node: Option<NodeId> = if wrong {
            self.used.push("address:wrong-kind");
            match self.rng.below(5) {
                0 => self.pick_node(&w.packages),
                1 => self.pick_node(&w.resources),
                2 => self.pick_node(&w.internals),
                _ => self.pick_node(&w.components),
            }
        } else {
            match v {
                Some(ReferenceValidation::IsGlobalPackage) => self.pick_node(&w.packages),
                Some(ReferenceValidation::IsGlobalResourceManager) => Some(*self.any_resource().as_node_id()),
                Some(ReferenceValidation::IsGlobalComponent) => {
                    if (h.contains("account") || h.contains("claimant")) && self.rng.chance(4, 5) {
                        Some(*self.rng.pick(&w.keys).account.as_node_id())
                    } else {
                        self.pick_node(&w.components)
                    }
                }
                Some(ReferenceValidation::IsGlobalTyped(_, bp)) | Some(ReferenceValidation::IsInternalTyped(_, bp)) => {
                    if bp == ACCOUNT_BLUEPRINT && self.rng.chance(3, 4) {
                        Some(*self.rng.pick(&w.keys).account.as_node_id())
                    } else {
                        match w.by_bp.get(bp) {
                            Some(xs) => self.pick_node(xs),
                            None => self.pick_node(&w.globals),
                        }
                    }
                }
                Some(ReferenceValidation::IsInternal) => self.pick_node(&w.internals),
                Some(ReferenceValidation::IsGlobal) | None => match self.rng.below(4) {
                    0 => Some(*self.any_resource().as_node_id()),
                    1 => self.pick_node(&w.packages),
                    _ => self.pick_node(&w.components),
                },
            }
        };
        match node {
            Some(n) => maddr(&n),
            None => maddr(XRD.as_node_id()),
        }
    }

    // -----------------------------------------------------------------------------------------
    // kinds
    // -----------------------------------------------------------------------------------------
    fn own_kind(v: Option<&TypeValidation<ScryptoCustomTypeValidation>>) -> ManifestCustomValueKind {
        match v {
            Some(TypeValidation::Custom(ScryptoCustomTypeValidation::Own(o))) => match o {
                OwnValidation::IsProof => ManifestCustomValueKind::Proof,
                OwnValidation::IsGlobalAddressReservation => ManifestCustomValueKind::AddressReservation,
                OwnValidation::IsTypedObject(_, name) if name.contains("Proof") => ManifestCustomValueKind::Proof,
                OwnValidation::IsTypedObject(_, name) if name.contains("Reservation") => ManifestCustomValueKind::AddressReservation,
                _ => ManifestCustomValueKind::Bucket,
            },
            _ => ManifestCustomValueKind::Bucket,
        }
    }

    pub fn kind_of(&self, s: &Schema, ty: LocalTypeId) -> MK {
        let Some(kind) = s.resolve_type_kind(ty) else { return MK::Tuple };
        match kind {
            TypeKind::Any => MK::Tuple,
            TypeKind::Bool => MK::Bool,
            TypeKind::I8 => MK::I8,
            TypeKind::I16 => MK::I16,
            TypeKind::I32 => MK::I32,
            TypeKind::I64 => MK::I64,
            TypeKind::I128 => MK::I128,
            TypeKind::U8 => MK::U8,
            TypeKind::U16 => MK::U16,
            TypeKind::U32 => MK::U32,
            TypeKind::U64 => MK::U64,
            TypeKind::U128 => MK::U128,
            TypeKind::String => MK::String,
            TypeKind::Array { .. } => MK::Array,
            TypeKind::Tuple { .. } => MK::Tuple,
            TypeKind::Enum { .. } => MK::Enum,
            TypeKind::Map { .. } => MK::Map,
            TypeKind::Custom(c) => MK::Custom(match c {
                ScryptoCustomTypeKind::Reference => ManifestCustomValueKind::Address,
                ScryptoCustomTypeKind::Own => Self::own_kind(s.resolve_type_validation(ty)),
                ScryptoCustomTypeKind::Decimal => ManifestCustomValueKind::Decimal,
                ScryptoCustomTypeKind::PreciseDecimal => ManifestCustomValueKind::PreciseDecimal,
                ScryptoCustomTypeKind::NonFungibleLocalId => ManifestCustomValueKind::NonFungibleLocalId,
            }),
        }
    }

    /// A value for a position typed `Any` that must be of kind Tuple (so that it can sit in a collection).
    fn any_tuple(&mut self, depth: usize) -> MV {
        match self.rng.below(6) {
            0 => unit(),
            1 | 2 => {
                // the shape of the non-fungible data used by the world's resources
                MV::Tuple { fields: vec![MV::U64 { value: self.rng.u64() }, mstr("f"), MV::String { value: self.string("note") }] }
            }
            3 => MV::Tuple { fields: vec![MV::U64 { value: 1 }, mstr("f")] },
            _ => MV::Tuple { fields: (0..self.rng.below(4)).map(|_| self.any_value(depth + 1)).collect() },
        }
    }

    pub fn any_value(&mut self, depth: usize) -> MV {
        self.budget -= 1;
        if depth > 6 || self.budget <= 0 {
            return unit();
        }
        match self.rng.below(16) {
            0 => MV::Bool { value: self.rng.bool() },
            1 => MV::U8 { value: self.rng.u8() },
            2 => MV::U32 { value: self.rng.u32() },
            3 => MV::U64 { value: self.rng.u64() },
            4 => MV::I64 { value: self.rng.u64() as i64 },
            5 => MV::U128 { value: self.rng.u128() },
            6 | 7 => MV::String { value: self.string("") },
            8 => self.decimal(),
            9 => {
                let r = self.nf_resource_hint();
                let id = self.nf_id_for(r);
                mnfid(&id)
            }
            10 => self.address(None, ""),
            11 => MV::Enum { discriminator: self.rng.below(4) as u8, fields: (0..self.rng.below(3)).map(|_| self.any_value(depth + 1)).collect() },
            12 => {
                let n = self.rng.size(8);
                let e = self.any_value(depth + 1);
                let k = value_kind(&e);
                MV::Array { element_value_kind: k, elements: vec![e; n] }
            }
            13 => {
                let n = self.rng.size(64);
                MV::Array { element_value_kind: MK::U8, elements: self.rng.bytes(n).into_iter().map(|b| MV::U8 { value: b }).collect() }
            }
            _ => self.any_tuple(depth),
        }
    }

    // -----------------------------------------------------------------------------------------
    // canned, well-formed values for a few named types (so that entities stay usable and deep
    // code is reached); the generic walk below covers the same types in the other cases
    // -----------------------------------------------------------------------------------------
    fn canned(&mut self, name: &str) -> Option<MV> {
        let k = self.rng.pick(&self.w.keys).clone();
        match name {
            "AccessRule" => Some(match self.rng.below(6) {
                0 => typed(&AccessRule::AllowAll),
                1 => typed(&AccessRule::DenyAll),
                2 => typed(&rule!(require(XRD))),
                3 => typed(&rule!(require_amount(dec!(1), XRD))),
                4 => {
                    let r = self.any_resource();
                    typed(&rule!(require(r)))
                }
                _ => typed(&k.rule()),
            }),
            "OwnerRole" => Some(match self.rng.below(4) {
                0 => typed(&OwnerRole::None),
                1 => typed(&OwnerRole::Fixed(k.rule())),
                2 => typed(&OwnerRole::Updatable(AccessRule::AllowAll)),
                _ => typed(&OwnerRole::Updatable(k.rule())),
            }),
            "RuleSet" => Some(typed(&(self.w.keys[0].rule(), self.w.keys[1].rule(), self.w.keys[2].rule()))),
            "FungibleResourceRoles" => Some(typed(&rv_ledger::actions::all_allowed_fungible_roles())),
            "NonFungibleResourceRoles" => Some(typed(&rv_ledger::actions::all_allowed_non_fungible_roles())),
            "Secp256k1PublicKey" => Some(typed(&k.pk)),
            _ => None,
        }
    }

    // -----------------------------------------------------------------------------------------
    // the schema walk
    // -----------------------------------------------------------------------------------------
    fn collection_len(&mut self, v: Option<&TypeValidation<ScryptoCustomTypeValidation>>, minimal: bool, cheap_elements: bool) -> usize {
        let (lo, hi) = match v {
            Some(TypeValidation::Array(l)) | Some(TypeValidation::Map(l)) => (l.min.unwrap_or(0) as usize, l.max.map(|m| m as usize)),
            _ => (0, None),
        };
        if self.hostile() {
            // violate the bounds / be large
            return match self.rng.below(4) {
                0 => lo.saturating_sub(1),
                1 => hi.map(|h| h + 1).unwrap_or(lo + 1),
                2 if cheap_elements => self.rng.range(1_000, 70_000) as usize,
                2 => self.rng.range(20, 300) as usize,
                _ => 0,
            };
        }
        if minimal {
            return lo;
        }
        let n = match self.rng.below(20) {
            0..=2 => 0,
            3..=9 => 1,
            10..=14 => 2,
            15..=17 => self.rng.range(3, 6) as usize,
            18 => self.rng.range(7, 40) as usize,
            _ => {
                if cheap_elements {
                    self.rng.range(41, 5_000) as usize
                } else {
                    self.rng.range(7, 60) as usize
                }
            }
        };
        let n = n.max(lo);
        match hi {
            Some(h) => n.min(h),
            None => n,
        }
    }

    pub fn value(&mut self, s: &Schema, ty: LocalTypeId, depth: usize, hint: &str, in_collection: bool) -> MV {
        self.budget -= 1;
        let Some(kind) = s.resolve_type_kind(ty) else { return unit() };
        if depth > 40 {
            return unit();
        }
        let name = s.resolve_type_name_from_metadata(ty).unwrap_or("").to_string();
        let validation = s.resolve_type_validation(ty);
        let minimal = depth > self.max_depth || self.budget <= 0;
        if !name.is_empty() && self.rng.chance(2, 5) {
            if let Some(v) = self.canned(&name) {
                return v;
            }
        }
        let hint2 = if name.is_empty() { hint.to_string() } else { format!("{hint} {name}") };
        macro_rules! int {
            ($variant:ident, $t:ty, $val:ident) => {{
                let (vmin, vmax) = match validation {
                    Some(TypeValidation::$val(n)) => (n.min.map(|x| x as i128), n.max.map(|x| x as i128)),
                    _ => (None, None),
                };
                let x = self.int_choice(<$t>::MIN as i128, <$t>::MAX as i128, vmin, vmax);
                MV::$variant { value: x as $t }
            }};
        }
        match kind {
            TypeKind::Any => {
                if in_collection {
                    self.any_tuple(depth)
                } else if self.rng.chance(1, 2) {
                    self.any_tuple(depth)
                } else {
                    self.any_value(depth)
                }
            }
            TypeKind::Bool => MV::Bool { value: self.rng.bool() },
            TypeKind::I8 => int!(I8, i8, I8),
            TypeKind::I16 => int!(I16, i16, I16),
            TypeKind::I32 => int!(I32, i32, I32),
            TypeKind::I64 => int!(I64, i64, I64),
            TypeKind::I128 => int!(I128, i128, I128),
            TypeKind::U8 => int!(U8, u8, U8),
            TypeKind::U16 => int!(U16, u16, U16),
            TypeKind::U32 => int!(U32, u32, U32),
            TypeKind::U64 => int!(U64, u64, U64),
            TypeKind::U128 => {
                // i128 arithmetic cannot express the upper half: pick it explicitly sometimes
                if self.rng.chance(1, 6) {
                    MV::U128 { value: u128::MAX - self.rng.below(2) as u128 }
                } else {
                    let x = self.int_choice(0, i128::MAX, None, None);
                    MV::U128 { value: x as u128 }
                }
            }
            TypeKind::String => {
                let mut v = self.string(&hint2);
                if let Some(TypeValidation::String(l)) = validation {
                    if !self.hostile() {
                        let max = l.max.unwrap_or(u32::MAX) as usize;
                        if v.len() > max {
                            v = v.chars().take(max / 4).collect();
                        }
                        while v.len() < l.min.unwrap_or(0) as usize {
                            v.push('m');
                        }
                    }
                }
                MV::String { value: v }
            }
            TypeKind::Array { element_type } => {
                let ek = self.kind_of(s, *element_type);
                let elem_kind = s.resolve_type_kind(*element_type);
                let is_bytes = matches!(elem_kind, Some(TypeKind::U8));
                // expressions / blobs in place of the array (only where the parent carries the value kind per field)
                if !in_collection && !minimal {
                    match ek {
                        MK::Custom(ManifestCustomValueKind::Bucket) if self.rng.chance(1, 4) => {
                            // put something on the worktop first
                            let r = self.any_resource();
                            if Self::is_fungible(&r) && self.w.balance0(r) >= Decimal::ONE {
                                self.withdraw(r, Decimal::ONE);
                            }
                            self.used.push("expression:ENTIRE_WORKTOP");
                            return MV::Custom { value: ManifestCustomValue::Expression(ManifestExpression::EntireWorktop) };
                        }
                        MK::Custom(ManifestCustomValueKind::Proof) if self.rng.chance(1, 4) => {
                            self.used.push("expression:ENTIRE_AUTH_ZONE");
                            return MV::Custom { value: ManifestCustomValue::Expression(ManifestExpression::EntireAuthZone) };
                        }
                        MK::U8 if self.rng.chance(1, 8) => {
                            let n = self.collection_len(validation, false, true);
                            let bytes = self.rng.bytes(n);
                            let h = hash(&bytes);
                            self.blobs.push(bytes);
                            self.used.push("blob");
                            return MV::Custom { value: ManifestCustomValue::Blob(ManifestBlobRef(h.0)) };
                        }
                        _ => {}
                    }
                }
                let n = self.collection_len(validation, minimal, is_bytes);
                if is_bytes {
                    let bytes = if hint2.contains("PublicKey") && n == 33 && self.rng.chance(1, 2) { self.rng.pick(&self.w.keys).pk.0.to_vec() } else { self.rng.bytes(n) };
                    return MV::Array { element_value_kind: MK::U8, elements: bytes.into_iter().map(|b| MV::U8 { value: b }).collect() };
                }
                let mut elements = Vec::with_capacity(n.min(1024));
                for _ in 0..n {
                    if self.budget < -2_000 {
                        break;
                    }
                    let e = self.value(s, *element_type, depth + 1, &hint2, true);
                    elements.push(e);
                }
                // sets: duplicates sometimes
                if elements.len() >= 2 && self.rarely_invalid(12) {
                    let d = elements[0].clone();
                    elements.push(d);
                }
                MV::Array { element_value_kind: ek, elements }
            }
            TypeKind::Tuple { field_types } => {
                let names: Vec<String> = s.resolve_matching_tuple_metadata(ty, field_types.len()).field_names.map(|f| f.iter().map(|c| c.to_string()).collect()).unwrap_or_default();
                let mut fields = vec![];
                for (i, f) in field_types.iter().enumerate() {
                    let h = names.get(i).cloned().unwrap_or_default();
                    fields.push(self.value(s, *f, depth + 1, &h, false));
                }
                // a (ModuleId, role key) pair: make it name a role that exists on the receiver, most of the time
                if !self.role_pairs.is_empty() && self.rng.chance(2, 3) {
                    let mi = field_types.iter().position(|f| s.resolve_type_name_from_metadata(*f) == Some("ModuleId"));
                    let ri = names.iter().position(|n| n.contains("role_key"));
                    if let (Some(mi), Some(ri)) = (mi, ri) {
                        let (m, name) = self.rng.pick(&self.role_pairs).clone();
                        if let (Some(MV::Enum { .. }), Some(MV::String { .. })) = (fields.get(mi), fields.get(ri)) {
                            fields[mi] = MV::Enum { discriminator: m, fields: vec![] };
                            fields[ri] = MV::String { value: name };
                        }
                    }
                }
                // edge-case role keys: empty, reserved prefix only, reserved names
                if self.rng.chance(1, 5) {
                    if let Some(ri) = names.iter().position(|n| n.contains("role_key")) {
                        if let Some(MV::String { .. }) = fields.get(ri) {
                            fields[ri] = MV::String { value: (*self.rng.pick(&["", "_", "_owner_", "_self_", "__"])).to_string() };
                        }
                    }
                }
                // wrong arity, rarely
                if !in_collection && self.rarely_invalid(200) {
                    if self.rng.bool() {
                        fields.pop();
                    } else {
                        fields.push(MV::U8 { value: 0 });
                    }
                }
                MV::Tuple { fields }
            }
            TypeKind::Enum { variants } => {
                if variants.is_empty() {
                    return MV::Enum { discriminator: 0, fields: vec![] };
                }
                if self.rarely_invalid(60) {
                    // unknown discriminator
                    let d = (0..=255u8).rev().find(|d| !variants.contains_key(d)).unwrap_or(255);
                    return MV::Enum { discriminator: d, fields: vec![] };
                }
                let d = if minimal {
                    *variants.iter().min_by_key(|(d, f)| (f.len(), **d)).unwrap().0
                } else {
                    let keys: Vec<u8> = variants.keys().cloned().collect();
                    *self.rng.pick(&keys)
                };
                let fts = variants.get(&d).cloned().unwrap_or_default();
                let data = s.resolve_matching_enum_metadata(ty, d, fts.len());
                let vname = data.variant_name.unwrap_or("").to_string();
                let fnames: Vec<String> = data.field_names.map(|f| f.iter().map(|c| c.to_string()).collect()).unwrap_or_default();
                let mut fields = vec![];
                for (i, f) in fts.iter().enumerate() {
                    let h = format!("{} {}", vname, fnames.get(i).cloned().unwrap_or_default());
                    fields.push(self.value(s, *f, depth + 1, &h, false));
                }
                MV::Enum { discriminator: d, fields }
            }
            TypeKind::Map { key_type, value_type } => {
                let kk = self.kind_of(s, *key_type);
                let vk = self.kind_of(s, *value_type);
                let n = self.collection_len(validation, minimal, false).min(200);
                let mut entries = vec![];
                for _ in 0..n {
                    if self.budget < -2_000 {
                        break;
                    }
                    let k = self.value(s, *key_type, depth + 1, &hint2, true);
                    let v = self.value(s, *value_type, depth + 1, &hint2, true);
                    entries.push((k, v));
                }
                if !entries.is_empty() && self.rarely_invalid(8) {
                    // duplicate key
                    let k = entries[0].0.clone();
                    let v = self.value(s, *value_type, depth + 1, &hint2, true);
                    entries.push((k, v));
                }
                MV::Map { key_value_kind: kk, value_value_kind: vk, entries }
            }
            TypeKind::Custom(c) => match c {
                ScryptoCustomTypeKind::Reference => {
                    let rv = match validation {
                        Some(TypeValidation::Custom(ScryptoCustomTypeValidation::Reference(r))) => Some(r.clone()),
                        _ => None,
                    };
                    self.address(rv.as_ref(), &hint2)
                }
                ScryptoCustomTypeKind::Own => {
                    let k = Self::own_kind(validation);
                    // a wrong kind of owned node, sometimes (only where the kind is not fixed by a parent collection)
                    let k = if !in_collection && self.rarely_invalid(50) {
                        *self.rng.pick(&[ManifestCustomValueKind::Bucket, ManifestCustomValueKind::Proof, ManifestCustomValueKind::AddressReservation])
                    } else {
                        k
                    };
                    match k {
                        ManifestCustomValueKind::Proof => self.proof(),
                        ManifestCustomValueKind::AddressReservation => self.reservation(),
                        _ => self.bucket(None),
                    }
                }
                ScryptoCustomTypeKind::Decimal => self.decimal(),
                ScryptoCustomTypeKind::PreciseDecimal => self.precise_decimal(),
                ScryptoCustomTypeKind::NonFungibleLocalId => {
                    let r = self.nf_resource_hint();
                    let id = self.nf_id_for(r);
                    mnfid(&id)
                }
            },
        }
    }

    /// Re-map a seed value (arguments of a successful set-up call): buckets / proofs / reservations
    /// are replaced by fresh ones, one random leaf is replaced by a hostile value of the same kind.
    pub fn from_seed(&mut self, seed: &MV, mutate: bool) -> MV {
        let mut v = seed.clone();
        self.remap(&mut v);
        if mutate {
            let n = count_leaves(&v);
            if n > 0 {
                let mut target = self.rng.below(n as u64) as i64;
                self.mutate_leaf(&mut v, &mut target);
            }
        }
        v
    }

    fn remap(&mut self, v: &mut MV) {
        match v {
            MV::Custom { value } => match value {
                ManifestCustomValue::Bucket(_) => *v = self.bucket(None),
                ManifestCustomValue::Proof(_) => *v = self.proof(),
                ManifestCustomValue::AddressReservation(_) => *v = self.reservation(),
                ManifestCustomValue::Blob(b) => {
                    // carry the blob of the set-up manifest over (sometimes damaged), or register a small random one
                    let bytes = match self.w.blobs.get(&b.0) {
                        Some(orig) if self.rng.chance(4, 5) => {
                            let mut x = orig.clone();
                            if self.rng.chance(1, 3) && !x.is_empty() {
                                for _ in 0..1 + self.rng.below(4) {
                                    let i = self.rng.usize_below(x.len());
                                    x[i] = self.rng.u8();
                                }
                            }
                            x
                        }
                        _ => self.rng.bytes(16),
                    };
                    *b = ManifestBlobRef(hash(&bytes).0);
                    self.blobs.push(bytes);
                }
                _ => {}
            },
            MV::Array { elements, .. } => elements.iter_mut().for_each(|e| self.remap(e)),
            MV::Tuple { fields } | MV::Enum { fields, .. } => fields.iter_mut().for_each(|e| self.remap(e)),
            MV::Map { entries, .. } => entries.iter_mut().for_each(|(k, x)| {
                self.remap(k);
                self.remap(x)
            }),
            _ => {}
        }
    }

    fn mutate_leaf(&mut self, v: &mut MV, target: &mut i64) {
        match v {
            MV::Array { elements, .. } => {
                for e in elements.iter_mut() {
                    self.mutate_leaf(e, target);
                    if *target < 0 {
                        return;
                    }
                }
            }
            MV::Tuple { fields } | MV::Enum { fields, .. } => {
                for e in fields.iter_mut() {
                    self.mutate_leaf(e, target);
                    if *target < 0 {
                        return;
                    }
                }
            }
            MV::Map { entries, .. } => {
                for (k, x) in entries.iter_mut() {
                    self.mutate_leaf(k, target);
                    if *target < 0 {
                        return;
                    }
                    self.mutate_leaf(x, target);
                    if *target < 0 {
                        return;
                    }
                }
            }
            leaf => {
                if *target == 0 {
                    *leaf = match &*leaf {
                        MV::Bool { value } => MV::Bool { value: !*value },
                        MV::U8 { .. } => MV::U8 { value: *self.rng.pick(&[0u8, 1, 18, 19, 255]) },
                        MV::U16 { .. } => MV::U16 { value: *self.rng.pick(&[0u16, 1, u16::MAX]) },
                        MV::U32 { .. } => MV::U32 { value: *self.rng.pick(&[0u32, 1, u32::MAX, u32::MAX - 1]) },
                        MV::U64 { .. } => MV::U64 { value: *self.rng.pick(&[0u64, 1, u64::MAX, u64::MAX - 1, 1 << 63]) },
                        MV::U128 { .. } => MV::U128 { value: *self.rng.pick(&[0u128, 1, u128::MAX]) },
                        MV::I8 { .. } => MV::I8 { value: *self.rng.pick(&[i8::MIN, -1, 0, i8::MAX]) },
                        MV::I16 { .. } => MV::I16 { value: *self.rng.pick(&[i16::MIN, -1, 0, i16::MAX]) },
                        MV::I32 { .. } => MV::I32 { value: *self.rng.pick(&[i32::MIN, -1, 0, i32::MAX]) },
                        MV::I64 { .. } => MV::I64 { value: *self.rng.pick(&[i64::MIN, -1, 0, i64::MAX]) },
                        MV::I128 { .. } => MV::I128 { value: *self.rng.pick(&[i128::MIN, -1, 0, i128::MAX]) },
                        MV::String { .. } => MV::String { value: self.string("") },
                        MV::Custom { value } => match value {
                            ManifestCustomValue::Decimal(_) => self.decimal(),
                            ManifestCustomValue::PreciseDecimal(_) => self.precise_decimal(),
                            ManifestCustomValue::NonFungibleLocalId(_) => {
                                let r = self.nf_resource_hint();
                                let id = self.nf_id_for(r);
                                mnfid(&id)
                            }
                            ManifestCustomValue::Address(_) => self.address(None, ""),
                            other => MV::Custom { value: other.clone() },
                        },
                        other => other.clone(),
                    };
                }
                *target -= 1;
            }
        }
    }
}

pub fn count_leaves(v: &MV) -> usize {
    match v {
        MV::Array { elements, .. } => elements.iter().map(count_leaves).sum(),
        MV::Tuple { fields } | MV::Enum { fields, .. } => fields.iter().map(count_leaves).sum(),
        MV::Map { entries, .. } => entries.iter().map(|(k, x)| count_leaves(k) + count_leaves(x)).sum(),
        _ => 1,
    }
}

pub fn value_kind(v: &MV) -> MK {
    match v {
        MV::Bool { .. } => MK::Bool,
        MV::I8 { .. } => MK::I8,
        MV::I16 { .. } => MK::I16,
        MV::I32 { .. } => MK::I32,
        MV::I64 { .. } => MK::I64,
        MV::I128 { .. } => MK::I128,
        MV::U8 { .. } => MK::U8,
        MV::U16 { .. } => MK::U16,
        MV::U32 { .. } => MK::U32,
        MV::U64 { .. } => MK::U64,
        MV::U128 { .. } => MK::U128,
        MV::String { .. } => MK::String,
        MV::Enum { .. } => MK::Enum,
        MV::Array { .. } => MK::Array,
        MV::Tuple { .. } => MK::Tuple,
        MV::Map { .. } => MK::Map,
        MV::Custom { value } => MK::Custom(value.get_custom_value_kind()),
    }
}

/// Highest bucket / proof / reservation ids referenced by a value (mutants may reference anything).
pub fn contains_custom(v: &MV, f: &mut dyn FnMut(&ManifestCustomValue)) {
    match v {
        MV::Custom { value } => f(value),
        MV::Array { elements, .. } => elements.iter().for_each(|e| contains_custom(e, f)),
        MV::Tuple { fields } | MV::Enum { fields, .. } => fields.iter().for_each(|e| contains_custom(e, f)),
        MV::Map { entries, .. } => entries.iter().for_each(|(k, x)| {
            contains_custom(k, f);
            contains_custom(x, f)
        }),
        _ => {}
    }
}

/// Byte-level mutation of an encoded argument tuple; returns the mutants that still decode.
pub fn byte_mutant(rng: &mut Rng, encoded: &[u8]) -> Option<MV> {
    if encoded.len() < 3 {
        return None;
    }
    for _ in 0..12 {
        let mut b = encoded.to_vec();
        let n_mut = 1 + rng.below(3) as usize;
        for _ in 0..n_mut {
            let i = 1 + rng.usize_below(b.len() - 1); // keep the payload prefix byte
            match rng.below(8) {
                0 => b[i] ^= 1 << rng.below(8),
                1 => b[i] = *rng.pick(&[0u8, 1, 0x7f, 0x80, 0xff, 0x20, 0x21, 0x22, 0x23, 0x0c, 0x80, 0x81, 0x82, 0x83, 0x84, 0x85, 0x86, 0x87, 0x88]),
                2 => b[i] = b[i].wrapping_add(1),
                3 => b[i] = b[i].wrapping_sub(1),
                4 => {
                    b.remove(i);
                }
                5 => b.insert(i, rng.u8()),
                6 => {
                    // copy a slice over another place
                    let len = 1 + rng.usize_below(8.min(b.len() - i));
                    let j = 1 + rng.usize_below(b.len() - 1);
                    let chunk: Vec<u8> = b[i..i + len].to_vec();
                    for (k, x) in chunk.into_iter().enumerate() {
                        if j + k < b.len() {
                            b[j + k] = x;
                        }
                    }
                }
                _ => b[i] = rng.u8(),
            }
            if b.len() < 3 {
                break;
            }
        }
        if b == encoded {
            continue;
        }
        if let Ok(v) = manifest_decode::<MV>(&b) {
            // the formatter / static tools assume validated non-fungible ids and well-formed payloads:
            // the decoder has checked those, so a decoded value is a legal client input
            return Some(v);
        }
    }
    None
}
