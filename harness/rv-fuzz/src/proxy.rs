//! FuzzProxy: a tiny native test blueprint (native-VM extension) that forwards calls with
//! arbitrary SBOR payloads to nodes a transaction manifest cannot address directly: buckets and
//! proofs (transient, owned by the caller frame), vaults owned by a component, the caller's auth
//! zone; it also re-issues calls on global / internal references and function calls from a
//! non-root frame. It stands for what any WASM component can do through `object_call` /
//! `blueprint_call` with bytes of its choice. It never panics itself: every error is propagated.
//!
//! `mark(n)` records `n` in a thread-local trace that survives failed transactions: the fuzz
//! driver brackets the call under test with two marks to know whether the set-up instructions
//! succeeded and whether the call under test returned.
use radix_blueprint_schema_init::*;
use radix_common::prelude::*;
use radix_engine::errors::{ApplicationError, RuntimeError};
use radix_engine::vm::{VmApi, VmInvoke};
use radix_engine_interface::api::*;
use radix_engine_interface::blueprints::package::*;
use radix_engine_interface::blueprints::resource::*;
use radix_engine_interface::object_modules::metadata::*;
use radix_engine_interface::object_modules::role_assignment::*;
use radix_engine_interface::object_modules::royalty::*;
use radix_engine_interface::prelude::*;
use sbor::basic_well_known_types::ANY_TYPE;
use std::cell::RefCell;

pub const CODE_ID: u64 = 7011;
pub const BP: &str = "FuzzProxy";

thread_local! {
    static MARKS: RefCell<Vec<u32>> = const { RefCell::new(Vec::new()) };
}
pub fn marks_reset() {
    MARKS.with(|m| m.borrow_mut().clear());
}
pub fn marks_take() -> Vec<u32> {
    MARKS.with(|m| std::mem::take(&mut *m.borrow_mut()))
}

pub fn package_definition() -> PackageDefinition {
    let any = || TypeRef::Static(LocalTypeId::WellKnown(ANY_TYPE));
    let func = |export: &str, receiver: bool| FunctionSchemaInit {
        receiver: if receiver { Some(ReceiverInfo::normal_ref_mut()) } else { None },
        input: any(),
        output: any(),
        export: export.to_string(),
    };
    let mut functions = index_map_new();
    for f in ["mark", "new_global", "call_owned", "call_auth_zone", "call_ref", "call_function"] {
        functions.insert(f.to_string(), func(f, false));
    }
    functions.insert("call_vault".to_string(), func("call_vault", true));
    let aggregator = TypeAggregator::<ScryptoCustomTypeKind>::new();
    let schema = generate_full_schema(aggregator);
    let mut blueprints = index_map_new();
    blueprints.insert(
        BP.to_string(),
        BlueprintDefinitionInit {
            blueprint_type: BlueprintType::Outer,
            schema: BlueprintSchemaInit {
                schema,
                state: BlueprintStateSchemaInit { fields: vec![FieldSchema::static_field(LocalTypeId::WellKnown(ANY_TYPE))], collections: vec![] },
                functions: BlueprintFunctionsSchemaInit { functions },
                ..Default::default()
            },
            ..Default::default()
        },
    );
    PackageDefinition { blueprints }
}

fn bad(msg: &str) -> RuntimeError {
    RuntimeError::ApplicationError(ApplicationError::PanicMessage(format!("fuzzproxy: {msg}")))
}

fn decode_input<T: ScryptoDecode>(input: &IndexedScryptoValue) -> Result<T, RuntimeError> {
    input.as_typed::<T>().map_err(|e| bad(&format!("input does not decode: {e:?}")))
}

fn to_value(bytes: Vec<u8>) -> Result<ScryptoValue, RuntimeError> {
    scrypto_decode::<ScryptoValue>(&bytes).map_err(|e| bad(&format!("output does not decode: {e:?}")))
}

fn enc(v: &ScryptoValue) -> Result<Vec<u8>, RuntimeError> {
    scrypto_encode(v).map_err(|e| bad(&format!("args do not encode: {e:?}")))
}

fn globalize_new<Y: SystemApi<RuntimeError>>(api: &mut Y, node: NodeId, with_royalty: bool) -> Result<GlobalAddress, RuntimeError> {
    let md = api.call_function(METADATA_MODULE_PACKAGE, METADATA_BLUEPRINT, METADATA_CREATE_IDENT, scrypto_encode(&MetadataCreateInput {}).unwrap())?;
    let md: Own = scrypto_decode(&md).map_err(|_| bad("metadata create output"))?;
    let ra = api.call_function(
        ROLE_ASSIGNMENT_MODULE_PACKAGE,
        ROLE_ASSIGNMENT_BLUEPRINT,
        ROLE_ASSIGNMENT_CREATE_IDENT,
        scrypto_encode(&RoleAssignmentCreateInput { owner_role: OwnerRole::Updatable(AccessRule::AllowAll).into(), roles: indexmap!() }).unwrap(),
    )?;
    let ra: Own = scrypto_decode(&ra).map_err(|_| bad("role assignment create output"))?;
    let mut mods = indexmap!(AttachedModuleId::Metadata => md.0, AttachedModuleId::RoleAssignment => ra.0);
    if with_royalty {
        let ro = api.call_function(
            ROYALTY_MODULE_PACKAGE,
            COMPONENT_ROYALTY_BLUEPRINT,
            COMPONENT_ROYALTY_CREATE_IDENT,
            scrypto_encode(&ComponentRoyaltyCreateInput { royalty_config: ComponentRoyaltyConfig::default() }).unwrap(),
        )?;
        let ro: Own = scrypto_decode(&ro).map_err(|_| bad("royalty create output"))?;
        mods.insert(AttachedModuleId::Royalty, ro.0);
    }
    api.globalize(node, mods, None)
}

#[derive(Clone)]
pub struct ProxyInvoke;

impl VmInvoke for ProxyInvoke {
    fn invoke<Y: SystemApi<RuntimeError>, V: VmApi>(&mut self, export_name: &str, input: &IndexedScryptoValue, api: &mut Y, _vm_api: &V) -> Result<IndexedScryptoValue, RuntimeError> {
        match export_name {
            "mark" => {
                // tolerant of extra fields (the driver passes expressions to have them resolved)
                let v: ScryptoValue = decode_input(input)?;
                let n = match &v {
                    ScryptoValue::Tuple { fields } => match fields.first() {
                        Some(ScryptoValue::U32 { value }) => *value,
                        _ => u32::MAX,
                    },
                    _ => u32::MAX,
                };
                MARKS.with(|m| {
                    let mut m = m.borrow_mut();
                    if m.len() < 64 {
                        m.push(n)
                    }
                });
                Ok(IndexedScryptoValue::from_typed(&()))
            }
            "new_global" => {
                // (resources, with_royalty): a global component owning one empty vault per resource
                let (resources, with_royalty): (Vec<ResourceAddress>, bool) = decode_input(input)?;
                let mut vaults: Vec<Own> = vec![];
                for r in resources {
                    let v = api.call_method(r.as_node_id(), RESOURCE_MANAGER_CREATE_EMPTY_VAULT_IDENT, scrypto_encode(&ResourceManagerCreateEmptyVaultInput {}).unwrap())?;
                    vaults.push(scrypto_decode(&v).map_err(|_| bad("create_empty_vault output"))?);
                }
                let node = api.new_simple_object(BP, indexmap!(0u8 => FieldValue::new(&vaults)))?;
                let addr = globalize_new(api, node, with_royalty)?;
                Ok(IndexedScryptoValue::from_typed(&addr))
            }
            "call_vault" => {
                // (index, method, args): call a method of the index-th own vault with the given payload
                let (index, method, args): (u32, String, ScryptoValue) = decode_input(input)?;
                let h = api.actor_open_field(ACTOR_STATE_SELF, 0u8, LockFlags::read_only())?;
                let vaults: Vec<Own> = api.field_read_typed(h)?;
                let Some(v) = vaults.get(index as usize).cloned() else {
                    api.field_close(h)?;
                    return Err(bad("no such vault"));
                };
                let out = api.call_method(v.as_node_id(), &method, enc(&args)?)?;
                api.field_close(h)?;
                Ok(IndexedScryptoValue::from_typed(&to_value(out)?))
            }
            "call_owned" => {
                // (target, method, args): call a method of an owned transient node (bucket / proof);
                // the node is handed back if it is still there afterwards
                let (target, method, args): (Own, String, ScryptoValue) = decode_input(input)?;
                let out = api.call_method(target.as_node_id(), &method, enc(&args)?)?;
                let back: Option<Own> = if api.get_blueprint_id(target.as_node_id()).is_ok() { Some(target) } else { None };
                Ok(IndexedScryptoValue::from_typed(&(to_value(out)?, back)))
            }
            "call_auth_zone" => {
                let (method, args): (String, ScryptoValue) = decode_input(input)?;
                let az = api.actor_get_node_id(ACTOR_REF_AUTH_ZONE)?;
                let out = api.call_method(&az, &method, enc(&args)?)?;
                Ok(IndexedScryptoValue::from_typed(&to_value(out)?))
            }
            "call_ref" => {
                // (target, kind, method, args): kind 0 main, 1 metadata, 2 royalty, 3 role assignment, 4 direct access
                let (target, kind, method, args): (Reference, u8, String, ScryptoValue) = decode_input(input)?;
                let node = target.as_node_id();
                let a = enc(&args)?;
                let out = match kind {
                    0 => api.call_method(node, &method, a)?,
                    1 => api.call_module_method(node, AttachedModuleId::Metadata, &method, a)?,
                    2 => api.call_module_method(node, AttachedModuleId::Royalty, &method, a)?,
                    3 => api.call_module_method(node, AttachedModuleId::RoleAssignment, &method, a)?,
                    _ => api.call_direct_access_method(node, &method, a)?,
                };
                Ok(IndexedScryptoValue::from_typed(&to_value(out)?))
            }
            "call_function" => {
                let (package, blueprint, function, args): (PackageAddress, String, String, ScryptoValue) = decode_input(input)?;
                let out = api.call_function(package, &blueprint, &function, enc(&args)?)?;
                Ok(IndexedScryptoValue::from_typed(&to_value(out)?))
            }
            other => Err(bad(&format!("no export {other}"))),
        }
    }
}
