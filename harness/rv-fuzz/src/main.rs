//! rv-fuzz: schema-driven fuzzing of every function and method of every native blueprint (C11).
use rv_common::*;

mod c11;
mod catalog;
mod fledger;
mod gen;
mod proxy;
mod world;

fn list() -> i32 {
    let ledger = rv_ledger::Ledger::new();
    let cat = catalog::Catalog::build(&ledger.sim, &[]);
    for t in &cat.targets {
        let input = match &t.input {
            Some((s, ty)) => catalog::render_type(s, *ty, 3),
            None => "<generic>".into(),
        };
        let recv = match &t.receiver {
            None => "fn".to_string(),
            Some(r) => format!("{:?}/{}{}", r.receiver, if t.normal_access() { "N" } else { "" }, if t.direct_access() { "D" } else { "" }),
        };
        println!(
            "{:<22} {:<28} {:<44} export={:<50} {:<14} inner={} transient={} wasm={} input={}",
            t.package_name, t.blueprint, t.function, t.export, recv, t.is_inner, t.is_transient, t.is_wasm, input
        );
    }
    println!("{} targets; {} distinct export names; ambiguous exports: {:?}", cat.targets.len(), cat.by_export.len(), cat.by_export.iter().filter(|(_, v)| v.len() > 1).map(|(k, v)| (k.clone(), v.len())).collect::<Vec<_>>());
    0
}

fn main() {
    let args = parse_args();
    let code = match args.prop.as_str() {
        "list" => list(),
        "C11" => c11::run(&args),
        other => {
            eprintln!("rv-fuzz: no check named {other}");
            2
        }
    };
    std::process::exit(code);
}
