//! The fuzz world: a ledger populated with every kind of native entity, several of them in
//! unusual states (frozen vaults, a dried pool, unregistered validators, access controllers in
//! recovery / with the primary role locked / with badge-withdraw attempts, an account with deposit
//! rules, locked metadata and owner roles, zero-supply resources, burned non-fungibles), all owned
//! by keys the driver can sign with. Entities are then *discovered* from the database (nothing is
//! assumed about what set-up produced), arguments of the successful set-up calls are kept as seeds.
use crate::fledger::*;
use crate::proxy;
use rv_common::*;
use rv_ledger::actions::{all_allowed_fungible_roles, all_allowed_non_fungible_roles, Nfd};
use rv_ledger::prelude::*;
use std::collections::{BTreeMap, BTreeSet};

#[derive(Clone)]
pub struct Key {
    pub pk: Secp256k1PublicKey,
    pub account: ComponentAddress,
}
impl Key {
    pub fn badge(&self) -> NonFungibleGlobalId {
        NonFungibleGlobalId::from_public_key(&self.pk)
    }
    pub fn rule(&self) -> AccessRule {
        rule!(require(self.badge()))
    }
}

pub struct World {
    pub ledger: FLedger,
    pub keys: Vec<Key>,
    pub fungibles: Vec<ResourceAddress>,
    pub nfs: Vec<(ResourceAddress, NonFungibleIdType)>,
    /// every object node found in the database, by blueprint name
    pub by_bp: BTreeMap<String, Vec<NodeId>>,
    pub globals: Vec<NodeId>,
    pub packages: Vec<NodeId>,
    pub components: Vec<NodeId>,
    pub resources: Vec<NodeId>,
    pub internals: Vec<NodeId>,
    /// resources related to an entity (pool -> its resources and pool unit, validator -> XRD, LSU, claim NFT ...)
    pub affinity: BTreeMap<NodeId, Vec<ResourceAddress>>,
    /// resources created by the world with AllowAll roles (mint / burn / recall / freeze ... all succeed)
    pub my_resources: BTreeSet<ResourceAddress>,
    /// owner badges held by account 0: proofs of these are created when signing as owner
    pub badges: Vec<(ResourceAddress, Option<Vec<NonFungibleLocalId>>)>,
    pub proxy_pkg: PackageAddress,
    pub proxy: ComponentAddress,
    /// (resource, vault index in the proxy, vault address)
    pub proxy_vaults: Vec<(ResourceAddress, u32, Option<InternalAddress>)>,
    /// arguments of successful set-up calls, by "Blueprint::function"
    pub seeds: BTreeMap<String, Vec<ManifestValue>>,
    pub strings: Vec<String>,
    /// non-fungible ids known per resource (held, transferred, burned)
    pub known_ids: BTreeMap<ResourceAddress, Vec<NonFungibleLocalId>>,
    /// blobs of successful set-up manifests (e.g. the code of the published package), by hash
    pub blobs: BTreeMap<[u8; 32], Vec<u8>>,
    /// native / wasm exports that ran during set-up (cost breakdown keys)
    pub setup_exports: BTreeSet<String>,
    pub setup_failures: Vec<String>,
    pub setup_transactions: u64,
}

fn b() -> ManifestBuilder {
    ManifestBuilder::new().lock_fee_from_faucet()
}

pub fn blueprint_of(db: &rv_ledger::decode::Db, node: &NodeId) -> Option<BlueprintId> {
    rv_ledger::decode::object_info(db, node).map(|o| o.blueprint_info.blueprint_id)
}

impl World {
    pub fn all_proofs(&self) -> Vec<NonFungibleGlobalId> {
        self.keys.iter().map(|k| k.badge()).collect()
    }

    /// Execute a set-up manifest; on success remember the arguments of its calls as seeds.
    fn run(&mut self, shard: &mut Shard, label: &str, m: TransactionManifestV1, proofs: Vec<NonFungibleGlobalId>) -> Option<TransactionReceipt> {
        let instructions = m.instructions.clone();
        let blobs = m.blobs.clone();
        let desc = format!("set-up: {label}");
        let r = self.ledger.exec(shard, &format!("setup:{label}"), m, proofs, desc);
        self.setup_transactions += 1;
        let Some(receipt) = r.exec.receipt else {
            self.setup_failures.push(format!("{label}: no receipt"));
            return None;
        };
        if let Some(f) = &receipt.fee_details {
            for k in f.execution_cost_breakdown.keys() {
                if let Some(e) = k.strip_prefix("RunNativeCode::").or_else(|| k.strip_prefix("RunWasmCode::")) {
                    self.setup_exports.insert(e.to_string());
                }
            }
        }
        if !receipt.is_commit_success() {
            let e = format!("{label}: {}", rv_ledger::outcome_class(&receipt));
            self.setup_failures.push(e);
            return None;
        }
        for (h, b) in blobs {
            self.blobs.insert(h.0, b);
        }
        for i in &instructions {
            let (key, args) = match i {
                InstructionV1::CallFunction(c) => (format!("{}::{}", c.blueprint_name, c.function_name), &c.args),
                InstructionV1::CallMethod(c) => {
                    let ManifestGlobalAddress::Static(a) = &c.address else { continue };
                    let Some(bp) = blueprint_of(self.ledger.db(), a.as_node_id()) else { continue };
                    (format!("{}::{}", bp.blueprint_name, c.method_name), &c.args)
                }
                InstructionV1::CallMetadataMethod(c) => (format!("Metadata::{}", c.method_name), &c.args),
                InstructionV1::CallRoleAssignmentMethod(c) => (format!("RoleAssignment::{}", c.method_name), &c.args),
                InstructionV1::CallRoyaltyMethod(c) => (format!("ComponentRoyalty::{}", c.method_name), &c.args),
                InstructionV1::CallDirectVaultMethod(c) => {
                    let Some(bp) = blueprint_of(self.ledger.db(), c.address.as_node_id()) else { continue };
                    (format!("{}::{}", bp.blueprint_name, c.method_name), &c.args)
                }
                _ => continue,
            };
            let v = self.seeds.entry(key).or_default();
            if v.len() < 6 {
                v.push(args.clone());
            }
        }
        Some(receipt)
    }

    pub fn vaults_of(&self, component: ComponentAddress, resource: ResourceAddress) -> Vec<NodeId> {
        SubtreeVaults::new(self.ledger.db()).get_all(component.as_node_id()).swap_remove(&resource).unwrap_or_default()
    }

    fn vault_of(&self, component: ComponentAddress, resource: ResourceAddress) -> Option<InternalAddress> {
        self.vaults_of(component, resource).first().map(|v| InternalAddress::new_or_panic(v.0))
    }

    pub fn balance_of(&self, component: ComponentAddress, resource: ResourceAddress) -> Decimal {
        let mut sum = Decimal::ZERO;
        for v in self.vaults_of(component, resource) {
            sum = sum.checked_add(rv_ledger::decode::vault_amount(self.ledger.db(), &v).unwrap_or(Decimal::ZERO)).unwrap_or(sum);
        }
        sum
    }

    pub fn build(shard: &mut Shard, rng: &mut Rng) -> World {
        let mut ledger = FLedger::new();
        let mut keys = vec![];
        for _ in 0..3 {
            let (pk, _sk, account) = ledger.sim.new_allocated_account();
            keys.push(Key { pk, account });
        }
        {
            // a preallocated (virtual) account: only these can be securified
            let (pk, _sk, account) = ledger.sim.new_preallocated_account();
            keys.push(Key { pk, account });
        }
        let proxy_pkg = ledger.sim.publish_native_package(proxy::CODE_ID, proxy::package_definition());
        let mut w = World {
            ledger,
            keys,
            fungibles: vec![XRD],
            nfs: vec![],
            by_bp: BTreeMap::new(),
            globals: vec![],
            packages: vec![],
            components: vec![],
            resources: vec![],
            internals: vec![],
            affinity: BTreeMap::new(),
            my_resources: BTreeSet::new(),
            badges: vec![],
            proxy_pkg,
            proxy: FAUCET, // replaced below
            proxy_vaults: vec![],
            seeds: BTreeMap::new(),
            strings: vec![],
            known_ids: BTreeMap::new(),
            blobs: BTreeMap::new(),
            setup_exports: BTreeSet::new(),
            setup_failures: vec![],
            setup_transactions: 0,
        };
        let (k0, k1, k2) = (w.keys[0].clone(), w.keys[1].clone(), w.keys[2].clone());
        let a0 = k0.account;
        let sigs = w.all_proofs();
        let owner = OwnerRole::Updatable(k0.rule());

        // ---- more XRD for account 0
        for _ in 0..2 {
            w.run(shard, "free_xrd", b().get_free_xrd_from_faucet().try_deposit_entire_worktop_or_abort(a0, None).build(), vec![]);
        }

        // ---- fungible resources (all roles AllowAll)
        let mk_f = |w: &mut World, shard: &mut Shard, div: u8, track: bool, supply: Option<Decimal>, owner: OwnerRole| -> Option<ResourceAddress> {
            let m = b()
                .create_fungible_resource(owner, track, div, all_allowed_fungible_roles(), metadata!(init { "name" => "fz".to_string(), updatable; "symbol" => "FZ".to_string(), locked; }), supply)
                .try_deposit_entire_worktop_or_abort(a0, None)
                .build();
            let r = w.run(shard, "create_fungible", m, vec![])?;
            let a = r.expect_commit(true).new_resource_addresses()[0];
            w.fungibles.push(a);
            w.my_resources.insert(a);
            Some(a)
        };
        let f18 = mk_f(&mut w, shard, 18, true, Some(Decimal::from(1_000_000u64 + rng.below(1000))), owner.clone());
        let f0 = mk_f(&mut w, shard, 0, true, Some(dec!(1000)), owner.clone());
        let f6 = mk_f(&mut w, shard, 6, false, Some(dec!(5000)), owner.clone());
        let _fz = mk_f(&mut w, shard, 18, true, None, OwnerRole::None);
        let (Some(f18), Some(f0), Some(f6)) = (f18, f0, f6) else {
            w.setup_failures.push("fatal: fungible resources missing".into());
            return w;
        };

        // ---- non-fungible resources
        let nfd = |i: u64| Nfd { counter: i, fixed: "f".into(), note: "n".into() };
        let mk_nf = |w: &mut World, shard: &mut Shard, t: NonFungibleIdType, ids: Vec<NonFungibleLocalId>| -> Option<ResourceAddress> {
            let m = if t == NonFungibleIdType::RUID {
                b().create_ruid_non_fungible_resource(owner.clone(), true, metadata!(), all_allowed_non_fungible_roles(), Some(vec![nfd(0), nfd(1), nfd(2)]))
            } else {
                let entries: Vec<(NonFungibleLocalId, Nfd)> = ids.iter().enumerate().map(|(i, id)| (id.clone(), nfd(i as u64))).collect();
                b().create_non_fungible_resource(owner.clone(), t, true, all_allowed_non_fungible_roles(), metadata!(), if entries.is_empty() { None } else { Some(entries) })
            };
            let r = w.run(shard, "create_non_fungible", m.try_deposit_entire_worktop_or_abort(a0, None).build(), vec![])?;
            let a = r.expect_commit(true).new_resource_addresses()[0];
            w.nfs.push((a, t));
            w.my_resources.insert(a);
            w.known_ids.insert(a, ids);
            Some(a)
        };
        let ni = mk_nf(&mut w, shard, NonFungibleIdType::Integer, (1..=9u64).map(NonFungibleLocalId::integer).collect());
        let ns = mk_nf(&mut w, shard, NonFungibleIdType::String, ["a", "b", "c", "d", "e"].iter().map(|s| NonFungibleLocalId::string(s.to_string()).unwrap()).collect());
        let nb = mk_nf(&mut w, shard, NonFungibleIdType::Bytes, (1..=4u8).map(|i| NonFungibleLocalId::bytes(vec![i, 0xff]).unwrap()).collect());
        let nr = mk_nf(&mut w, shard, NonFungibleIdType::RUID, vec![]);
        let _nz = mk_nf(&mut w, shard, NonFungibleIdType::Integer, vec![]);
        let (Some(ni), Some(ns), Some(nb)) = (ni, ns, nb) else {
            w.setup_failures.push("fatal: non-fungible resources missing".into());
            return w;
        };
        if let Some(nr) = nr {
            let ids = w.vaults_of(a0, nr).first().map(|v| rv_ledger::decode::non_fungible_vault_ids(w.ledger.db(), v)).unwrap_or_default();
            w.known_ids.insert(nr, ids);
        }
        let int = NonFungibleLocalId::integer;
        let sid = |s: &str| NonFungibleLocalId::string(s.to_string()).unwrap();

        // ---- spread holdings to account 1, burn a non-fungible
        w.run(
            shard,
            "spread",
            b().withdraw_from_account(a0, f18, dec!(100))
                .withdraw_from_account(a0, f0, dec!(10))
                .withdraw_from_account(a0, f6, dec!(20))
                .withdraw_non_fungibles_from_account(a0, ni, [int(8), int(9)])
                .withdraw_non_fungibles_from_account(a0, ns, [sid("e")])
                .try_deposit_entire_worktop_or_abort(k1.account, None)
                .build(),
            sigs.clone(),
        );
        w.run(shard, "burn_nf", b().burn_non_fungibles_in_account(a0, ni, [int(7)]).build(), sigs.clone());

        // ---- frozen vaults (account 1)
        if let Some(v) = w.vault_of(k1.account, f18) {
            w.run(shard, "freeze", b().call_direct_access_method(v, VAULT_FREEZE_IDENT, VaultFreezeInput { to_freeze: VaultFreezeFlags::all() }).build(), sigs.clone());
        }
        if let Some(v) = w.vault_of(k1.account, ni) {
            w.run(shard, "freeze_nf", b().freeze_withdraw(v).build(), sigs.clone());
        }
        if let Some(v) = w.vault_of(k1.account, f0) {
            w.run(shard, "freeze_deposit", b().freeze_deposit(v).build(), sigs.clone());
        }

        // ---- account 2: deposit rules
        w.run(
            shard,
            "deposit_rules",
            b().call_method(k2.account, ACCOUNT_SET_DEFAULT_DEPOSIT_RULE_IDENT, (DefaultDepositRule::Reject,))
                .call_method(k2.account, ACCOUNT_SET_RESOURCE_PREFERENCE_IDENT, (f18, ResourcePreference::Allowed))
                .call_method(k2.account, ACCOUNT_SET_RESOURCE_PREFERENCE_IDENT, (f0, ResourcePreference::Disallowed))
                .call_method(k2.account, ACCOUNT_ADD_AUTHORIZED_DEPOSITOR_IDENT, (ResourceOrNonFungible::Resource(f6),))
                .call_method(k2.account, ACCOUNT_ADD_AUTHORIZED_DEPOSITOR_IDENT, (ResourceOrNonFungible::NonFungible(NonFungibleGlobalId::new(ni, int(1))),))
                .build(),
            sigs.clone(),
        );

        // ---- metadata / owner role locks
        w.run(
            shard,
            "metadata_locks",
            b().set_metadata(a0, "k0", MetadataValue::String("v0".into()))
                .set_metadata(a0, "k_locked", MetadataValue::U64(7))
                .lock_metadata(a0, "k_locked")
                .set_metadata(a0, "k_url", MetadataValue::Url(UncheckedUrl::of("https://example.com/a")))
                .set_metadata(f18, "name", MetadataValue::String("F18".into()))
                .lock_metadata(f18, "name")
                .set_metadata(f18, "tags", MetadataValue::StringArray(vec!["a".into(), "b".into()]))
                .lock_owner_role(f6)
                .set_role(f0, ModuleId::Main, "minter", k0.rule())
                .build(),
            sigs.clone(),
        );

        // ---- identities
        if let Some(r) = w.run(shard, "identity_advanced", b().create_identity_advanced(owner.clone()).build(), vec![]) {
            let _ = r;
        }
        w.run(shard, "identity_securified", b().create_identity().try_deposit_entire_worktop_or_abort(a0, None).build(), vec![]);

        // ---- validators: v1 registered + staked + pending unstake, v2 never registered, v3 registered then unregistered
        let mut validators: Vec<ComponentAddress> = vec![];
        for (i, key) in [k0.pk, k1.pk, k2.pk].iter().enumerate() {
            let m = b()
                .get_free_xrd_from_faucet()
                .take_from_worktop(XRD, *DEFAULT_VALIDATOR_XRD_COST, "fee")
                .create_validator(*key, dec!("0.05"), "fee")
                .try_deposit_entire_worktop_or_abort(a0, None)
                .build();
            if let Some(r) = w.run(shard, "create_validator", m, vec![]) {
                let c = r.expect_commit(true);
                let v = c.new_component_addresses()[0];
                validators.push(v);
                let mut aff = vec![XRD];
                aff.extend(c.new_resource_addresses().iter().cloned());
                for res in c.new_resource_addresses() {
                    if res.as_node_id().entity_type() == Some(EntityType::GlobalNonFungibleResourceManager) {
                        w.nfs.push((*res, NonFungibleIdType::RUID));
                    } else {
                        w.fungibles.push(*res);
                    }
                }
                w.affinity.insert(*v.as_node_id(), aff);
                let _ = i;
            }
        }
        let vbadge = |v: &ComponentAddress| NonFungibleLocalId::bytes(v.as_node_id().0).unwrap();
        if let Some(v1) = validators.first().cloned() {
            let lsu = w.affinity[v1.as_node_id()].iter().find(|r| r.as_node_id().entity_type() == Some(EntityType::GlobalFungibleResourceManager) && **r != XRD).cloned();
            w.run(
                shard,
                "validator_register_stake",
                b().create_proof_from_account_of_non_fungibles(a0, VALIDATOR_OWNER_BADGE, [vbadge(&v1)])
                    .register_validator(v1)
                    .call_method(v1, VALIDATOR_UPDATE_ACCEPT_DELEGATED_STAKE_IDENT, (true,))
                    .get_free_xrd_from_faucet()
                    .take_from_worktop(XRD, dec!(2000), "s1")
                    .stake_validator_as_owner(v1, "s1")
                    .take_from_worktop(XRD, dec!(500), "s2")
                    .stake_validator(v1, "s2")
                    .try_deposit_entire_worktop_or_abort(a0, None)
                    .build(),
                sigs.clone(),
            );
            if let Some(lsu) = lsu {
                w.run(
                    shard,
                    "validator_unstake_lock",
                    b().create_proof_from_account_of_non_fungibles(a0, VALIDATOR_OWNER_BADGE, [vbadge(&v1)])
                        .withdraw_from_account(a0, lsu, dec!(300))
                        .take_from_worktop(lsu, dec!(100), "u1")
                        .unstake_validator(v1, "u1")
                        .take_from_worktop(lsu, dec!(150), "l1")
                        .call_method(v1, VALIDATOR_LOCK_OWNER_STAKE_UNITS_IDENT, (ManifestBucket(1),))
                        .call_method(v1, VALIDATOR_START_UNLOCK_OWNER_STAKE_UNITS_IDENT, (dec!(20),))
                        .try_deposit_entire_worktop_or_abort(a0, None)
                        .build(),
                    sigs.clone(),
                );
            }
        }
        if let Some(v3) = validators.get(2).cloned() {
            w.run(
                shard,
                "validator_unregister",
                b().create_proof_from_account_of_non_fungibles(a0, VALIDATOR_OWNER_BADGE, [vbadge(&v3)]).register_validator(v3).unregister_validator(v3).build(),
                sigs.clone(),
            );
        }

        // ---- epoch changes (the test genesis changes epoch at every round 1): validator 1 joins the
        // active set, emissions / rewards are applied, unstake and unlock delays elapse
        for i in 0..3i64 {
            let input = ConsensusManagerNextRoundInput { round: Round::of(1), proposer_timestamp_ms: 1_700_000_000_000 + i * 3_600_000, leader_proposal_history: LeaderProposalHistory { gap_round_leaders: vec![], current_leader: 0, is_fallback: false } };
            w.run(shard, "next_round", b().call_method(CONSENSUS_MANAGER, CONSENSUS_MANAGER_NEXT_ROUND_IDENT, input).build(), vec![system_execution(SystemExecution::Validator)]);
        }

        // ---- a preallocated identity (instantiated by its first use)
        if let Some(k3) = w.keys.get(3).cloned() {
            let identity = ComponentAddress::preallocated_identity_from_public_key(&k3.pk);
            w.run(shard, "preallocated_identity", b().set_metadata(identity, "k0", MetadataValue::String("v".into())).build(), vec![k3.badge()]);
        }

        // ---- pools
        let mut pools: Vec<(ComponentAddress, Vec<ResourceAddress>)> = vec![];
        let pool_owner = OwnerRole::Fixed(k0.rule());
        let specs: Vec<(&str, Vec<ResourceAddress>)> = vec![("one", vec![f18]), ("one", vec![f0]), ("two", vec![f18, f6]), ("multi", vec![f18, f0, f6])];
        for (kind, res) in specs {
            let none: Option<ManifestAddressReservation> = None;
            let m = match kind {
                "one" => b().call_function(POOL_PACKAGE, ONE_RESOURCE_POOL_BLUEPRINT, ONE_RESOURCE_POOL_INSTANTIATE_IDENT, (pool_owner.clone(), k0.rule(), res[0], none)),
                "two" => b().call_function(POOL_PACKAGE, TWO_RESOURCE_POOL_BLUEPRINT, TWO_RESOURCE_POOL_INSTANTIATE_IDENT, (pool_owner.clone(), k0.rule(), (res[0], res[1]), none)),
                _ => b().call_function(POOL_PACKAGE, MULTI_RESOURCE_POOL_BLUEPRINT, MULTI_RESOURCE_POOL_INSTANTIATE_IDENT, (pool_owner.clone(), k0.rule(), res.clone(), none)),
            };
            if let Some(r) = w.run(shard, "instantiate_pool", m.build(), vec![]) {
                let c = r.expect_commit(true);
                let p = c.new_component_addresses()[0];
                let unit = c.new_resource_addresses()[0];
                w.fungibles.push(unit);
                let mut aff = res.clone();
                aff.push(unit);
                w.affinity.insert(*p.as_node_id(), aff);
                pools.push((p, res.clone()));
            }
        }
        for (i, (p, res)) in pools.clone().iter().enumerate() {
            let mut mb = b();
            for r in res {
                mb = mb.withdraw_from_account(a0, *r, if *r == f0 { dec!(10) } else { dec!(100) });
            }
            let mb = match res.len() {
                1 => mb.take_all_from_worktop(res[0], "c0").call_method(*p, ONE_RESOURCE_POOL_CONTRIBUTE_IDENT, (ManifestBucket(0),)),
                2 => mb.take_all_from_worktop(res[0], "c0").take_all_from_worktop(res[1], "c1").call_method(*p, TWO_RESOURCE_POOL_CONTRIBUTE_IDENT, ((ManifestBucket(0), ManifestBucket(1)),)),
                _ => mb.call_method(*p, MULTI_RESOURCE_POOL_CONTRIBUTE_IDENT, (ManifestExpression::EntireWorktop,)),
            };
            w.run(shard, "pool_contribute", mb.try_deposit_entire_worktop_or_abort(a0, None).build(), sigs.clone());
            if i == 1 {
                // dry the second pool: redeem every pool unit
                let unit = *w.affinity[p.as_node_id()].last().unwrap();
                let bal = w.balance_of(a0, unit);
                w.run(
                    shard,
                    "pool_dry",
                    b().withdraw_from_account(a0, unit, bal).take_all_from_worktop(unit, "u").call_method(*p, ONE_RESOURCE_POOL_REDEEM_IDENT, (ManifestBucket(0),)).try_deposit_entire_worktop_or_abort(a0, None).build(),
                    sigs.clone(),
                );
            }
        }

        // ---- access controllers
        let rules = (k0.rule(), k1.rule(), k2.rule());
        let mut acs: Vec<ComponentAddress> = vec![];
        for i in 0..4usize {
            let mb = match i {
                0 => b().withdraw_non_fungibles_from_account(a0, ni, [int(1)]).take_all_from_worktop(ni, "asset"),
                1 => b().withdraw_from_account(a0, f0, dec!(5)).take_all_from_worktop(f0, "asset"),
                2 => b().withdraw_non_fungibles_from_account(a0, ns, [sid("a")]).take_all_from_worktop(ns, "asset"),
                _ => b().withdraw_non_fungibles_from_account(a0, nb, [NonFungibleLocalId::bytes(vec![1u8, 0xff]).unwrap()]).take_all_from_worktop(nb, "asset"),
            };
            let delay = if i == 3 { None } else { Some(1u32 + i as u32) };
            let m = mb.create_access_controller("asset", rules.0.clone(), rules.1.clone(), rules.2.clone(), delay).build();
            if let Some(r) = w.run(shard, "create_access_controller", m, sigs.clone()) {
                let c = r.expect_commit(true);
                let ac = c.new_component_addresses()[0];
                let mut aff = vec![[ni, f0, ns, nb][i], XRD];
                aff.extend(c.new_resource_addresses().iter().cloned());
                for res in c.new_resource_addresses() {
                    w.nfs.push((*res, NonFungibleIdType::Integer));
                }
                w.affinity.insert(*ac.as_node_id(), aff);
                acs.push(ac);
            }
        }
        let new_rules = (k1.rule(), k2.rule(), k0.rule());
        if let Some(ac) = acs.get(1).cloned() {
            w.run(
                shard,
                "ac_recovery",
                b().call_method(ac, ACCESS_CONTROLLER_INITIATE_RECOVERY_AS_PRIMARY_IDENT, (new_rules.clone(), Some(5u32)))
                    .call_method(ac, ACCESS_CONTROLLER_INITIATE_RECOVERY_AS_RECOVERY_IDENT, (new_rules.clone(), None::<u32>))
                    .build(),
                sigs.clone(),
            );
        }
        if let Some(ac) = acs.get(2).cloned() {
            w.run(shard, "ac_lock_primary", b().call_method(ac, ACCESS_CONTROLLER_LOCK_PRIMARY_ROLE_IDENT, ()).build(), sigs.clone());
        }
        if let Some(ac) = acs.get(3).cloned() {
            w.run(
                shard,
                "ac_badge_withdraw",
                b().call_method(ac, ACCESS_CONTROLLER_INITIATE_BADGE_WITHDRAW_ATTEMPT_AS_PRIMARY_IDENT, ())
                    .call_method(ac, ACCESS_CONTROLLER_INITIATE_BADGE_WITHDRAW_ATTEMPT_AS_RECOVERY_IDENT, ())
                    .call_method(ac, ACCESS_CONTROLLER_MINT_RECOVERY_BADGES_IDENT, (indexset!(NonFungibleLocalId::integer(1), NonFungibleLocalId::integer(2)),))
                    .try_deposit_entire_worktop_or_abort(a0, None)
                    .build(),
                sigs.clone(),
            );
        }
        if let Some(ac) = acs.first().cloned() {
            w.run(
                shard,
                "ac_fee",
                b().withdraw_from_account(a0, XRD, dec!(50)).take_all_from_worktop(XRD, "x").call_method(ac, ACCESS_CONTROLLER_CONTRIBUTE_RECOVERY_FEE_IDENT, (ManifestBucket(0),)).build(),
                sigs.clone(),
            );
        }

        // ---- account lockers
        let none: Option<ManifestAddressReservation> = None;
        if let Some(r) = w.run(
            shard,
            "locker",
            b().call_function(LOCKER_PACKAGE, ACCOUNT_LOCKER_BLUEPRINT, ACCOUNT_LOCKER_INSTANTIATE_IDENT, (OwnerRole::Fixed(k0.rule()), k0.rule(), k0.rule(), k0.rule(), k0.rule(), none)).build(),
            vec![],
        ) {
            let l = r.expect_commit(true).new_component_addresses()[0];
            w.affinity.insert(*l.as_node_id(), vec![f18, ni, f0]);
            w.run(
                shard,
                "locker_store",
                b().withdraw_from_account(a0, f18, dec!(30))
                    .take_from_worktop(f18, dec!(10), "b0")
                    .call_method(l, ACCOUNT_LOCKER_STORE_IDENT, (k1.account, ManifestBucket(0), false))
                    .take_from_worktop(f18, dec!(10), "b1")
                    .call_method(l, ACCOUNT_LOCKER_STORE_IDENT, (k2.account, ManifestBucket(1), true))
                    .withdraw_non_fungibles_from_account(a0, ni, [int(2)])
                    .take_all_from_worktop(ni, "b2")
                    .call_method(l, ACCOUNT_LOCKER_STORE_IDENT, (k2.account, ManifestBucket(2), false))
                    .try_deposit_entire_worktop_or_abort(a0, None)
                    .build(),
                sigs.clone(),
            );
        }
        if let Some(r) = w.run(shard, "locker_simple", b().call_function(LOCKER_PACKAGE, ACCOUNT_LOCKER_BLUEPRINT, ACCOUNT_LOCKER_INSTANTIATE_SIMPLE_IDENT, (true,)).try_deposit_entire_worktop_or_abort(a0, None).build(), vec![]) {
            let c = r.expect_commit(true);
            if let Some(badge) = c.new_resource_addresses().first() {
                if badge.as_node_id().entity_type() == Some(EntityType::GlobalFungibleResourceManager) {
                    w.fungibles.push(*badge);
                    w.badges.push((*badge, None));
                }
            }
        }

        // ---- a published WASM package owned by key 0 (the faucet code)
        let code = include_bytes!("/repo/radix-engine/assets/faucet.wasm").to_vec();
        if let Ok(def) = manifest_decode::<ManifestPackageDefinition>(include_bytes!("/repo/radix-engine/assets/faucet.rpd")) {
            if let Ok(def) = def.try_into_typed() {
                if let Some(r) = w.run(shard, "publish_package", b().publish_package_advanced(None, code, def, metadata_init!("name" => "fz-package".to_string(), updatable;), OwnerRole::Fixed(k0.rule())).build(), vec![]) {
                    if let Some(p) = r.expect_commit(true).new_package_addresses().first() {
                        w.affinity.insert(*p.as_node_id(), vec![XRD]);
                    }
                }
            }
        }

        // ---- proxy component with own vaults
        let vault_res: Vec<ResourceAddress> = vec![XRD, f18, f0, f6, ni, ns, nb];
        if let Some(r) = w.run(shard, "proxy_new", b().call_function(proxy_pkg, proxy::BP, "new_global", (vault_res.clone(), true)).build(), vec![]) {
            w.proxy = r.expect_commit(true).new_component_addresses()[0];
            let p = w.proxy;
            w.run(
                shard,
                "proxy_fill",
                b().withdraw_from_account(a0, XRD, dec!(200))
                    .withdraw_from_account(a0, f18, dec!(500))
                    .withdraw_from_account(a0, f0, dec!(50))
                    .withdraw_from_account(a0, f6, dec!(50))
                    .withdraw_non_fungibles_from_account(a0, ni, [int(3), int(4)])
                    .withdraw_non_fungibles_from_account(a0, ns, [sid("b")])
                    .take_all_from_worktop(XRD, "v0")
                    .call_method(p, "call_vault", (0u32, "put", (ManifestBucket(0),)))
                    .take_all_from_worktop(f18, "v1")
                    .call_method(p, "call_vault", (1u32, "put", (ManifestBucket(1),)))
                    .take_all_from_worktop(f0, "v2")
                    .call_method(p, "call_vault", (2u32, "put", (ManifestBucket(2),)))
                    .take_all_from_worktop(f6, "v3")
                    .call_method(p, "call_vault", (3u32, "put", (ManifestBucket(3),)))
                    .take_all_from_worktop(ni, "v4")
                    .call_method(p, "call_vault", (4u32, "put", (ManifestBucket(4),)))
                    .take_all_from_worktop(ns, "v5")
                    .call_method(p, "call_vault", (5u32, "put", (ManifestBucket(5),)))
                    .build(),
                sigs.clone(),
            );
            w.run(shard, "proxy_royalty", b().set_component_royalty(p, "call_vault", RoyaltyAmount::Xrd(dec!(1))).build(), sigs.clone());
            for (i, r) in vault_res.iter().enumerate() {
                let v = w.vault_of(p, *r);
                w.proxy_vaults.push((*r, i as u32, v));
            }
            if let Some(v) = w.vault_of(p, f6) {
                w.run(shard, "proxy_freeze", b().freeze_withdraw(v).build(), sigs.clone());
            }
        } else {
            w.setup_failures.push("fatal: proxy missing".into());
        }

        w.discover();
        w
    }

    /// Find every object in the database and index it by blueprint.
    pub fn discover(&mut self) {
        let db = self.ledger.sim.substate_db();
        let mut by_bp: BTreeMap<String, Vec<NodeId>> = BTreeMap::new();
        let nodes: BTreeSet<NodeId> = self.ledger.sim.find_all_nodes().into_iter().collect();
        for n in nodes {
            let Some(bp) = blueprint_of(db, &n) else { continue };
            by_bp.entry(bp.blueprint_name.clone()).or_default().push(n);
            if n.is_global() {
                self.globals.push(n);
                if n.is_global_package() {
                    self.packages.push(n);
                } else if n.entity_type().map(|e| e.is_global_resource_manager()).unwrap_or(false) {
                    self.resources.push(n);
                } else {
                    self.components.push(n);
                }
            } else {
                self.internals.push(n);
            }
        }
        // vaults -> their resource
        for n in self.internals.clone() {
            if let Some(outer) = rv_ledger::decode::outer_object(db, &n) {
                if let Ok(r) = ResourceAddress::try_from(outer.as_node_id().0.as_slice()) {
                    self.affinity.entry(n).or_insert_with(|| vec![r]);
                }
            }
        }
        for r in self.resources.clone() {
            if let Ok(ra) = ResourceAddress::try_from(r.0.as_slice()) {
                self.affinity.entry(r).or_insert_with(|| vec![ra]);
            }
        }
        self.by_bp = by_bp;
        // owner badges held by account 0
        for badge in [VALIDATOR_OWNER_BADGE, IDENTITY_OWNER_BADGE, ACCOUNT_OWNER_BADGE, PACKAGE_OWNER_BADGE] {
            let ids = self.ids0(badge);
            if !ids.is_empty() {
                self.badges.push((badge, Some(ids)));
            }
        }
        let mut strings: BTreeSet<String> = BTreeSet::new();
        for s in [
            "", "a", "name", "symbol", "description", "k0", "k_locked", "k_url", "tags", "icon_url", "info_url", "owner_badge", "pool_unit", "validator", "minter", "minter_updater", "burner", "burner_updater",
            "freezer", "recaller", "withdrawer", "depositor", "depositor_updater", "non_fungible_data_updater", "_owner_", "_self_", "owner", "pool_manager_role", "primary", "recovery", "confirmation", "storer",
            "storer_updater", "recoverer", "securify", "metadata_setter", "metadata_setter_updater", "metadata_locker", "royalty_setter", "royalty_locker", "royalty_claimer", "stake", "counter", "fixed", "note",
            "nonexistent", "https://example.com/x", "https://example.com", "not a url", "call_vault", "free", "lock_fee", "*",
        ] {
            strings.insert(s.to_string());
        }
        self.strings = strings.into_iter().collect();
    }

    /// Balance of a fungible resource (or number of non-fungibles) held by account 0.
    pub fn balance0(&self, r: ResourceAddress) -> Decimal {
        self.balance_of(self.keys[0].account, r)
    }

    pub fn ids0(&self, r: ResourceAddress) -> Vec<NonFungibleLocalId> {
        let a0 = self.keys[0].account;
        self.vaults_of(a0, r).first().map(|v| rv_ledger::decode::non_fungible_vault_ids(self.ledger.db(), v)).unwrap_or_default()
    }
}
