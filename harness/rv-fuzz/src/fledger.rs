//! A monitored ledger whose simulator carries the FuzzProxy native-VM extension: a thin copy of
//! `rv_ledger::Ledger::run_observed` (rv-ledger's `Ledger` is not generic over the extension
//! type). Every transaction goes through `rv_ledger::monitors::observe`, i.e. all global monitors
//! (C11 native traps / system panics in receipts, C02, C03, C04, C06, C43, C44, C49, C51), and a
//! panic escaping the executor is reported as C11 `execute-panic@...` exactly as rv-ledger does.
use crate::proxy::*;
use radix_engine::vm::OverridePackageCode;
use rv_common::*;
use rv_ledger::decode::Db;
use rv_ledger::monitors::{observe, History, Obs, TxMeta};
use rv_ledger::prelude::*;
use rv_ledger::{Exec, HookStats, Ledger, HOOK_STATS};
use serde_json::json;

pub type FSim = LedgerSimulator<OverridePackageCode<ProxyInvoke>, InMemorySubstateDatabase>;

pub struct FLedger {
    pub sim: FSim,
    pub hist: History,
    pub limits: LimitParameters,
}

pub struct FExec {
    pub exec: Exec,
    pub marks: Vec<u32>,
}

impl FLedger {
    pub fn new() -> Self {
        let sim = LedgerSimulatorBuilder::new().with_custom_extension(OverridePackageCode::new(CODE_ID, ProxyInvoke)).build();
        // Ledger::from_sim installs the per-thread verif-hook sink (it is private to rv-ledger).
        let bridge = Ledger::from_sim(LedgerSimulatorBuilder::new().build_from_snapshot(sim.create_snapshot()));
        drop(bridge);
        FLedger { sim, hist: History::default(), limits: LimitParameters::babylon_genesis() }
    }

    pub fn db(&self) -> &Db {
        self.sim.substate_db()
    }

    /// Run the C04/C05 whole-database walkers over the current state.
    pub fn walk(&self, shard: &mut Shard, at: &str) {
        let mut bridge = Ledger::from_sim(LedgerSimulatorBuilder::new().build_from_snapshot(self.sim.create_snapshot()));
        bridge.hist = self.hist.clone();
        rv_ledger::walkers::walk_all(shard, &bridge, at);
    }

    pub fn snapshot(&self) -> (LedgerSimulatorSnapshot, History) {
        (self.sim.create_snapshot(), self.hist.clone())
    }
    pub fn restore(&mut self, snap: &(LedgerSimulatorSnapshot, History)) {
        self.sim.restore_snapshot(snap.0.clone());
        self.hist = snap.1.clone();
    }

    /// Execute a (test) manifest. `description` is what ends up in replay files.
    pub fn exec<M: BuildableManifest>(&mut self, shard: &mut Shard, label: &str, manifest: M, proofs: Vec<NonFungibleGlobalId>, description: String) -> FExec {
        self.exec_cfg(shard, label, manifest, proofs, description, false)
    }

    /// `auth_disabled`: run with the auth module switched off (as genesis transactions do); costing and limits stay on.
    pub fn exec_cfg<M: BuildableManifest>(&mut self, shard: &mut Shard, label: &str, manifest: M, proofs: Vec<NonFungibleGlobalId>, description: String, auth_disabled: bool) -> FExec {
        let mut config = ExecutionConfig::for_test_transaction();
        if auth_disabled {
            config.system_overrides = Some(SystemOverrides { disable_auth: true, network_definition: Some(NetworkDefinition::simulator()), ..Default::default() });
        }
        let nonce = self.sim.next_transaction_nonce();
        let executable = match catch_mut(|| manifest.into_executable_with_proofs(nonce, proofs.into_iter().collect(), self.sim.transaction_validator())) {
            Ok(Ok(e)) => e,
            Ok(Err(e)) => {
                // not encodable (depth / size): a harness-side rejection, nothing was executed
                shard.count("harness:manifest_not_convertible");
                shard.seen("harness:conversion_errors", &e.chars().take(80).collect::<String>());
                return FExec { exec: Exec { receipt: None, panic: None }, marks: vec![] };
            }
            Err(p) if p.message.contains("MaxDepthExceeded") || p.message.contains("MaxSize") => {
                // TestTransaction preparation (test tooling, not the path of submitted payloads) unwraps the
                // encoding of the in-memory manifest: an unencodable manifest is not a transaction
                shard.count("harness:manifest_not_encodable");
                return FExec { exec: Exec { receipt: None, panic: None }, marks: vec![] };
            }
            Err(p) => {
                let file = p.site().rsplit_once(':').map(|(f, _)| f.to_string()).unwrap_or_else(|| p.site());
                let msg: String = p.message.chars().filter(|c| !c.is_ascii_digit()).take(60).collect();
                shard.violation_for("C11", format!("prepare-panic@{file}:{}", msg.replace(' ', "_")), json!({"tx_label": label, "tx": description, "panic": p.summary()}));
                return FExec { exec: Exec { receipt: None, panic: Some(p) }, marks: vec![] };
            }
        };
        let limits = self.limits.clone();
        let pre: Db = self.sim.substate_db().clone();
        HOOK_STATS.with(|s| *s.borrow_mut() = HookStats::default());
        clear_swallowed_panic();
        marks_reset();
        shard.eval();
        let sim = &mut self.sim;
        let result = catch_mut(|| sim.execute_transaction(executable, config));
        let marks = marks_take();
        let hooks = HOOK_STATS.with(|s| s.borrow().clone());
        shard.add("hook:frames_entered", hooks.frames);
        let meta = TxMeta {
            label: label.to_string(),
            is_system: false,
            description,
            limits,
            max_depth: if hooks.frames > 0 { Some(hooks.max_depth) } else { None },
            max_invoke_payload: if hooks.frames > 0 { Some(hooks.max_payload) } else { None },
        };
        match result {
            Err(p) => {
                let file = p.site().rsplit_once(':').map(|(f, _)| f.to_string()).unwrap_or_else(|| p.site());
                let sig = if p.message.contains("Locked fee does not cover transaction cost") {
                    format!("execute-panic:locked-fee-does-not-cover-cost@{file}")
                } else {
                    let msg: String = p.message.chars().filter(|c| !c.is_ascii_digit()).take(60).collect();
                    format!("execute-panic@{file}:{}", msg.replace(' ', "_"))
                };
                shard.count("tx:panicked");
                shard.violation_for("C11", sig, json!({"tx_label": meta.label, "tx": meta.description, "panic": p.summary()}));
                FExec { exec: Exec { receipt: None, panic: Some(p) }, marks }
            }
            Ok(receipt) => {
                {
                    let obs = Obs { pre: &pre, post: self.sim.substate_db(), receipt: &receipt, meta: &meta };
                    observe(shard, &mut self.hist, &obs);
                }
                FExec { exec: Exec { receipt: Some(receipt), panic: None }, marks }
            }
        }
    }
}
