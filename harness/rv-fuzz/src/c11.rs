//! C11 workload: schema-driven fuzzing of every function and method of every blueprint found in
//! the database. The refuting events (a panic escaping the executor; a receipt carrying a native
//! trap or a SystemPanic) are detected by the rv-ledger monitor pipeline for every transaction
//! (`fledger.rs`); this module is the workload and the coverage accounting.
//!
//! One case = one transaction:  lock fee | [owner-badge proofs] | set-up instructions creating the
//! buckets / proofs / address reservations the arguments refer to | mark(1) | THE CALL | mark(2) |
//! deposit worktop, drop proofs.  The two marks (thread-local trace of the FuzzProxy extension,
//! surviving failed transactions) tell whether set-up succeeded and whether the call returned; a
//! call that failed is classified by its error as stopped before the blueprint body (auth,
//! argument type check, unknown receiver ...) or inside it.
use crate::catalog::*;
use crate::gen::*;
use crate::proxy;
use crate::world::*;
use rv_common::*;
use rv_ledger::prelude::*;
use serde_json::{json, Value};
use std::collections::{BTreeMap, BTreeSet};
use std::sync::Mutex;
use std::time::Duration;

#[derive(Default, Clone)]
pub struct Row {
    pub calls: u64,
    pub setup_failed: u64,
    pub no_receipt: u64,
    pub pre_body: u64,
    pub body_error: u64,
    pub ok: u64,
    pub indirect: u64,
    pub classes: BTreeMap<String, u64>,
    pub routes: BTreeSet<String>,
    pub modes: BTreeSet<String>,
}
impl Row {
    fn merge(&mut self, o: &Row) {
        self.calls += o.calls;
        self.setup_failed += o.setup_failed;
        self.no_receipt += o.no_receipt;
        self.pre_body += o.pre_body;
        self.body_error += o.body_error;
        self.ok += o.ok;
        self.indirect += o.indirect;
        for (k, v) in &o.classes {
            *self.classes.entry(k.clone()).or_insert(0) += v;
        }
        self.routes.extend(o.routes.iter().cloned());
        self.modes.extend(o.modes.iter().cloned());
    }
    fn class(&mut self, c: &str) {
        if self.classes.len() < 40 || self.classes.contains_key(c) {
            *self.classes.entry(c.to_string()).or_insert(0) += 1;
        } else {
            *self.classes.entry("(other)".to_string()).or_insert(0) += 1;
        }
    }
    pub fn reached_direct(&self) -> u64 {
        self.ok + self.body_error
    }
}

pub type Table = BTreeMap<String, Row>;

/// How the call under test is issued.
#[derive(Clone, Debug)]
enum Route {
    Function,
    FunctionViaProxy,
    Method(NodeId),
    MethodViaProxy(NodeId),
    Module(NodeId, u8),
    ModuleViaProxy(NodeId, u8),
    Direct(NodeId),
    DirectViaProxy(NodeId),
    ProxyVault(u32),
    OwnedBucket(bool),
    OwnedProof(bool),
    AuthZone,
    /// the manifest instruction that is implemented by this method (worktop / auth zone)
    Instruction,
}
impl Route {
    fn name(&self) -> &'static str {
        match self {
            Route::Function => "function",
            Route::FunctionViaProxy => "function-via-component",
            Route::Method(_) => "method",
            Route::MethodViaProxy(_) => "method-via-component",
            Route::Module(..) => "module-method",
            Route::ModuleViaProxy(..) => "module-method-via-component",
            Route::Direct(_) => "direct-access",
            Route::DirectViaProxy(_) => "direct-access-via-component",
            Route::ProxyVault(_) => "owned-vault",
            Route::OwnedBucket(_) => "owned-bucket",
            Route::OwnedProof(_) => "owned-proof",
            Route::AuthZone => "auth-zone-of-component",
            Route::Instruction => "manifest-instruction",
        }
    }
}

fn module_kind(bp: &str) -> Option<u8> {
    match bp {
        "Metadata" => Some(1),
        "ComponentRoyalty" => Some(2),
        "RoleAssignment" => Some(3),
        _ => None,
    }
}

const PRE_BODY_MARKERS: [&str; 22] = [
    "AuthError",
    "InvalidReference",
    "BlueprintDoesNotExist",
    "FnNotFound",
    "NotAnObject",
    "NoBlueprintDefinition",
    "ObjectModuleDoesNotExist",
    "ModuleDoesNotExist",
    "InvalidModuleType",
    "TransactionProcessorError",
    "InvalidDirectAccess",
    "GlobalAddressDoesNotExist",
    "NodeNotFound",
    "RefNotFound",
    "NotAMethod",
    "ReceiverNotMatch",
    "PayloadValidationAgainstSchemaError",
    "InvalidInput",
    "fuzzproxy",
    "InvalidReceiver",
    "DirectRefNotAllowed",
    "OwnNotFound",
];

/// (blueprint, function) whose authorization failed, from the Debug rendering of an AuthError
fn auth_failed_for(full: &str) -> Option<(String, String)> {
    let i = full.find("fn_identifier")?;
    let rest = &full[i..];
    // BlueprintId renders as `<package address>:<BlueprintName>`
    let bp = rest.split(":<").nth(1)?.split('>').next()?.to_string();
    // FnIdentifier renders as `<blueprint id>:"ident"`
    let ident = rest.split(">:\"").nth(1)?.split('"').next()?.to_string();
    Some((bp, ident))
}

/// true if the failure of the call under test arose before the blueprint body was entered
fn is_pre_body(class: &str, full: &str, t: &Target) -> bool {
    if full.contains("Trap") && full.contains("Native") {
        return false;
    }
    if class.contains("AuthError") {
        // an authorization failure of a *nested* call means the body under test was running
        if let Some((bp, ident)) = auth_failed_for(full) {
            if bp != t.blueprint || ident != t.function {
                return false;
            }
        }
        return true;
    }
    if class.contains("TypeCheckError") {
        // input payload validation happens before dispatch, output validation after the body ran
        return !full.contains("Output");
    }
    full.contains("fuzzproxy") || PRE_BODY_MARKERS.iter().any(|m| class.contains(*m))
}

fn error_text(receipt: &TransactionReceipt) -> String {
    match &receipt.result {
        TransactionResult::Commit(c) => match &c.outcome {
            TransactionOutcome::Success(_) => String::new(),
            TransactionOutcome::Failure(e) => format!("{:?}", e),
        },
        TransactionResult::Reject(r) => format!("{:?}", r.reason),
        TransactionResult::Abort(a) => format!("{:?}", a.reason),
    }
}

pub struct Fuzzer<'a> {
    pub cat: &'a Catalog,
    pub table: Table,
}

fn tuple(fields: Vec<MV>) -> MV {
    MV::Tuple { fields }
}

fn call_method(addr: &NodeId, method: &str, args: MV) -> InstructionV1 {
    InstructionV1::CallMethod(CallMethod { address: ManifestGlobalAddress::Static(GlobalAddress::new_or_panic(addr.0)), method_name: method.to_string(), args })
}

fn call_function(package: PackageAddress, bp: &str, f: &str, args: MV) -> InstructionV1 {
    InstructionV1::CallFunction(CallFunction { package_address: ManifestPackageAddress::Static(package), blueprint_name: bp.to_string(), function_name: f.to_string(), args })
}

fn mark(w: &World, n: u32) -> InstructionV1 {
    call_function(w.proxy_pkg, proxy::BP, "mark", tuple(vec![MV::U32 { value: n }]))
}

fn nfids(ids: &[NonFungibleLocalId]) -> MV {
    MV::Array { element_value_kind: MK::Custom(ManifestCustomValueKind::NonFungibleLocalId), elements: ids.iter().map(mnfid).collect() }
}

pub struct CaseId {
    pub seed: u64,
    pub shard: usize,
    pub world: u64,
    pub epoch: u64,
    pub index: u64,
}

impl<'a> Fuzzer<'a> {
    pub fn new(cat: &'a Catalog) -> Self {
        Fuzzer { cat, table: Table::new() }
    }

    fn pick_route(&self, w: &World, t: &Target, rng: &mut Rng) -> Option<Route> {
        let bp = t.blueprint.as_str();
        if !t.is_method() {
            return Some(if rng.chance(1, 12) { Route::FunctionViaProxy } else { Route::Function });
        }
        match bp {
            "Worktop" => return Some(Route::Instruction),
            "AuthZone" => return Some(if rng.bool() && instruction_for(t).is_some() { Route::Instruction } else { Route::AuthZone }),
            "FungibleBucket" => return Some(Route::OwnedBucket(true)),
            "NonFungibleBucket" => return Some(Route::OwnedBucket(false)),
            "FungibleProof" => return Some(Route::OwnedProof(true)),
            "NonFungibleProof" => return Some(Route::OwnedProof(false)),
            "FungibleVault" | "NonFungibleVault" => {
                let fungible = bp == "FungibleVault";
                // vaults of the world's AllowAll resources are preferred (recall / freeze are authorised there)
                let all: Vec<NodeId> = w.by_bp.get(bp).cloned().unwrap_or_default();
                let mine: Vec<NodeId> = all.iter().filter(|v| w.affinity.get(*v).map(|a| a.iter().any(|r| w.my_resources.contains(r))).unwrap_or(false)).cloned().collect();
                let any_vault = |rng: &mut Rng| -> Option<NodeId> {
                    if !mine.is_empty() && rng.chance(3, 4) {
                        Some(*rng.pick(&mine))
                    } else if !all.is_empty() {
                        Some(*rng.pick(&all))
                    } else {
                        None
                    }
                };
                let own: Vec<u32> = w.proxy_vaults.iter().filter(|(r, _, _)| (r.as_node_id().entity_type() == Some(EntityType::GlobalFungibleResourceManager)) == fungible).map(|(_, i, _)| *i).collect();
                let direct_only = t.direct_access() && !t.normal_access();
                let roll = rng.below(20);
                return match (direct_only, roll) {
                    (true, 0..=15) | (false, 14..=16) => any_vault(rng).map(Route::Direct),
                    (true, 16..=17) | (false, 17) => any_vault(rng).map(Route::DirectViaProxy),
                    (false, 0..=13) if !own.is_empty() => Some(Route::ProxyVault(*rng.pick(&own))),
                    // a vault of the other kind / a wrong index / a direct-only method through a normal reference
                    _ => Some(Route::ProxyVault(rng.below(w.proxy_vaults.len() as u64 + 1) as u32)),
                };
            }
            _ => {}
        }
        if let Some(kind) = module_kind(bp) {
            // module methods on every kind of global entity (owned ones preferred)
            let n = if kind == 2 && rng.chance(3, 4) {
                // only the proxy component carries a royalty module
                *w.proxy.as_node_id()
            } else if rng.chance(2, 3) {
                let mut owned: Vec<NodeId> = w.keys.iter().map(|k| *k.account.as_node_id()).collect();
                owned.extend(w.affinity.keys().filter(|n| n.is_global()).cloned());
                owned.push(*w.proxy.as_node_id());
                *rng.pick(&owned)
            } else {
                *rng.pick(&w.globals)
            };
            return Some(if rng.chance(1, 10) { Route::ModuleViaProxy(n, kind) } else { Route::Module(n, kind) });
        }
        // main-module method of a global blueprint
        let instances: Vec<NodeId> = w.by_bp.get(bp).map(|v| v.iter().filter(|n| n.is_global()).cloned().collect()).unwrap_or_default();
        let receiver = if instances.is_empty() || rng.chance(1, 25) {
            // wrong kind of receiver
            *rng.pick(&w.globals)
        } else if bp == ACCOUNT_BLUEPRINT && rng.chance(9, 10) {
            *rng.pick(&w.keys).account.as_node_id()
        } else {
            // prefer entities the world owns (those with an affinity entry)
            let is_rm = bp.ends_with("ResourceManager");
            let owned: Vec<NodeId> = instances
                .iter()
                .filter(|n| if is_rm { ResourceAddress::try_from(n.0.as_slice()).map(|r| w.my_resources.contains(&r)).unwrap_or(false) } else { w.affinity.contains_key(n) })
                .cloned()
                .collect();
            if !owned.is_empty() && rng.chance(4, 5) {
                *rng.pick(&owned)
            } else {
                *rng.pick(&instances)
            }
        };
        Some(if rng.chance(1, 15) { Route::MethodViaProxy(receiver) } else { Route::Method(receiver) })
    }

    /// Build and run one fuzz case against target `ti`.
    pub fn case(&mut self, w: &mut World, shard: &mut Shard, rng: &mut Rng, ti: usize, id: &CaseId) {
        let cat = self.cat;
        let t = &cat.targets[ti];
        let key = t.key();
        let Some(route) = self.pick_route(w, t, rng) else {
            shard.count("cases:no_route");
            return;
        };
        // ---- signers
        let signer_kind = if t.system_only && rng.chance(3, 5) {
            "auth-disabled"
        } else {
            match rng.below(100) {
            0..=59 => "owners",
            60..=81 => "owners+system",
            82..=90 => "none",
            _ => "other-key",
            }
        };
        let auth_disabled = signer_kind == "auth-disabled";
        let mut proofs: Vec<NonFungibleGlobalId> = match signer_kind {
            "owners" | "owners+system" | "auth-disabled" => w.all_proofs(),
            "none" => vec![],
            _ => vec![w.keys[2].badge()],
        };
        if signer_kind == "owners+system" {
            proofs.push(system_execution(SystemExecution::Protocol));
            proofs.push(system_execution(SystemExecution::Validator));
        }
        // ---- arguments
        let by_design_panic = t.blueprint == "TestUtils" && t.function == "panic";
        let mut g = Gen::new(w, rng);
        g.bp_hint = Some((t.package, t.blueprint.clone()));
        g.names = cat.targets.iter().filter(|x| x.blueprint == t.blueprint).map(|x| x.function.clone()).collect();
        {
            // role names the receiver (and its modules) declare
            let receiver_bp: Option<String> = match &route {
                Route::Method(n) | Route::MethodViaProxy(n) | Route::Module(n, _) | Route::ModuleViaProxy(n, _) => blueprint_of(w.ledger.db(), n).map(|b| b.blueprint_name),
                _ => Some(t.blueprint.clone()),
            };
            let mut rn: Vec<String> = vec![];
            let mut pairs: Vec<(u8, String)> = vec![];
            for (module, bp) in receiver_bp.iter().map(|s| (0u8, s.as_str())).chain([(1u8, "Metadata"), (2u8, "ComponentRoyalty")]) {
                if let Some(r) = cat.roles.get(bp) {
                    rn.extend(r.iter().cloned());
                    pairs.extend(r.iter().map(|x| (module, x.clone())));
                }
            }
            g.role_names = rn;
            g.role_pairs = pairs;
        }
        g.affinity = match &route {
            Route::Method(n) | Route::MethodViaProxy(n) | Route::Module(n, _) | Route::ModuleViaProxy(n, _) | Route::Direct(n) | Route::DirectViaProxy(n) => w.affinity.get(n).cloned().unwrap_or_default(),
            Route::ProxyVault(i) => w.proxy_vaults.get(*i as usize).map(|(r, _, _)| vec![*r]).unwrap_or_default(),
            _ => vec![],
        };
        g.invalid_budget = match g.rng.below(20) {
            0..=5 => 0,
            6..=15 => 1,
            16..=18 => 3,
            _ => 1000,
        };
        match g.rng.below(10) {
            0 => {
                g.budget = 4000;
                g.max_depth = 16;
            }
            1 => g.hostility = 30,
            2 => g.hostility = 0,
            _ => {}
        }
        // the owned target of bucket / proof methods is created first (ids 0)
        let owned_target: Option<MV> = match &route {
            Route::OwnedBucket(fungible) => {
                let r = pick_resource(&mut g, *fungible);
                g.affinity = vec![r];
                Some(mbucket(g.new_bucket(Some(r))))
            }
            Route::OwnedProof(fungible) => {
                let r = pick_resource(&mut g, *fungible);
                g.affinity = vec![r];
                Some(mproof(g.new_proof()))
            }
            _ => None,
        };
        let seeds = w.seeds.get(&key);
        let mode_roll = g.rng.below(100);
        let (mut args, mut mode): (MV, &'static str) = if by_design_panic {
            (tuple(vec![mstr("rv-fuzz-by-design")]), "fixed")
        } else {
            match (seeds, mode_roll) {
                (Some(s), 0..=11) if !s.is_empty() => {
                    let seed = g.rng.pick(s).clone();
                    (g.from_seed(&seed, false), "seed")
                }
                (Some(s), 12..=29) if !s.is_empty() => {
                    let seed = g.rng.pick(s).clone();
                    (g.from_seed(&seed, true), "seed+leaf")
                }
                _ => match &t.input {
                    Some((schema, ty)) => (g.value(schema.v1(), *ty, 0, "", false), "schema"),
                    None => (g.any_value(0), "any"),
                },
            }
        };
        // the instruction route needs well-typed operands: no byte mutants there
        if !by_design_panic && !matches!(route, Route::Instruction) && g.rng.chance(1, 5) {
            if let Ok(enc) = manifest_encode(&args) {
                if let Some(m) = byte_mutant(g.rng, &enc) {
                    args = m;
                    mode = match mode {
                        "schema" => "schema+bytes",
                        "seed" => "seed+bytes",
                        "seed+leaf" => "seed+leaf+bytes",
                        _ => "any+bytes",
                    };
                }
            }
        }
        // ---- the call under test
        let pp = w.proxy;
        let method = t.function.as_str();
        let mut v2_constraints: Option<(bool, ManifestResourceConstraints)> = None;
        let call: Vec<InstructionV1> = match &route {
            Route::Function => vec![call_function(t.package, &t.blueprint, method, args.clone())],
            Route::FunctionViaProxy => vec![call_function(w.proxy_pkg, proxy::BP, "call_function", tuple(vec![maddr(t.package.as_node_id()), mstr(&t.blueprint), mstr(method), args.clone()]))],
            Route::Method(n) => vec![call_method(n, method, args.clone())],
            Route::MethodViaProxy(n) => vec![call_function(w.proxy_pkg, proxy::BP, "call_ref", tuple(vec![maddr(n), MV::U8 { value: 0 }, mstr(method), args.clone()]))],
            Route::Module(n, kind) => {
                let address = ManifestGlobalAddress::Static(GlobalAddress::new_or_panic(n.0));
                vec![match kind {
                    1 => InstructionV1::CallMetadataMethod(CallMetadataMethod { address, method_name: method.to_string(), args: args.clone() }),
                    2 => InstructionV1::CallRoyaltyMethod(CallRoyaltyMethod { address, method_name: method.to_string(), args: args.clone() }),
                    _ => InstructionV1::CallRoleAssignmentMethod(CallRoleAssignmentMethod { address, method_name: method.to_string(), args: args.clone() }),
                }]
            }
            Route::ModuleViaProxy(n, kind) => vec![call_function(w.proxy_pkg, proxy::BP, "call_ref", tuple(vec![maddr(n), MV::U8 { value: *kind }, mstr(method), args.clone()]))],
            Route::Direct(n) => vec![InstructionV1::CallDirectVaultMethod(CallDirectVaultMethod { address: InternalAddress::new_or_panic(n.0), method_name: method.to_string(), args: args.clone() })],
            Route::DirectViaProxy(n) => vec![call_function(w.proxy_pkg, proxy::BP, "call_ref", tuple(vec![maddr(n), MV::U8 { value: 4 }, mstr(method), args.clone()]))],
            Route::ProxyVault(i) => vec![call_method(pp.as_node_id(), "call_vault", tuple(vec![MV::U32 { value: *i }, mstr(method), args.clone()]))],
            Route::OwnedBucket(_) | Route::OwnedProof(_) => vec![call_function(w.proxy_pkg, proxy::BP, "call_owned", tuple(vec![owned_target.clone().unwrap(), mstr(method), args.clone()]))],
            Route::AuthZone => vec![call_function(w.proxy_pkg, proxy::BP, "call_auth_zone", tuple(vec![mstr(method), args.clone()]))],
            Route::Instruction => match instruction_call(&mut g, t, &args) {
                Some(InstrCall::V1(i)) => i,
                Some(InstrCall::V2(only, c)) => {
                    v2_constraints = Some((only, c));
                    vec![]
                }
                None => {
                    shard.count("cases:no_instruction_form");
                    return;
                }
            },
        };
        let used: Vec<&'static str> = g.used.clone();
        let pre = std::mem::take(&mut g.pre);
        let blobs = std::mem::take(&mut g.blobs);
        let auth_zone_target = t.blueprint == "AuthZone" && matches!(route, Route::Instruction);
        drop(g);
        // ---- assemble
        let a0 = w.keys[0].account;
        let mut ins: Vec<InstructionV1> = vec![call_method(FAUCET.as_node_id(), "lock_fee", tuple(vec![mdec(dec!(5000))]))];
        let signed_by_owner = signer_kind.starts_with("owners") || auth_disabled;
        if signed_by_owner && (rng.chance(1, 2) || t.blueprint == "Validator" || t.blueprint == "Identity" || t.blueprint == "AccountLocker") {
            for (res, ids) in &w.badges {
                match ids {
                    Some(ids) => ins.push(call_method(a0.as_node_id(), ACCOUNT_CREATE_PROOF_OF_NON_FUNGIBLES_IDENT, tuple(vec![maddr(res.as_node_id()), nfids(ids)]))),
                    None => ins.push(call_method(a0.as_node_id(), ACCOUNT_CREATE_PROOF_OF_AMOUNT_IDENT, tuple(vec![maddr(res.as_node_id()), mdec(Decimal::ONE)]))),
                }
            }
        }
        if auth_zone_target && signed_by_owner {
            // proofs of several kinds in the zone
            for _ in 0..rng.below(4) {
                let (r, fungible) = if rng.bool() { (*rng.pick(&w.fungibles), true) } else if !w.nfs.is_empty() { (rng.pick(&w.nfs).0, false) } else { (XRD, true) };
                if fungible {
                    ins.push(call_method(a0.as_node_id(), ACCOUNT_CREATE_PROOF_OF_AMOUNT_IDENT, tuple(vec![maddr(r.as_node_id()), mdec(Decimal::ONE)])));
                } else {
                    let ids: Vec<NonFungibleLocalId> = w.ids0(r).into_iter().take(2).collect();
                    ins.push(call_method(a0.as_node_id(), ACCOUNT_CREATE_PROOF_OF_NON_FUNGIBLES_IDENT, tuple(vec![maddr(r.as_node_id()), nfids(&ids)])));
                }
            }
        }
        ins.extend(pre);
        ins.push(mark(w, 1));
        let call_index = ins.len();
        ins.extend(call);
        ins.push(mark(w, 2));
        ins.push(call_method(a0.as_node_id(), ACCOUNT_TRY_DEPOSIT_BATCH_OR_ABORT_IDENT, tuple(vec![MV::Custom { value: ManifestCustomValue::Expression(ManifestExpression::EntireWorktop) }, MV::Enum { discriminator: 0, fields: vec![] }])));
        ins.push(InstructionV1::DropAllProofs(DropAllProofs));
        let blob_map: IndexMap<Hash, Vec<u8>> = blobs.into_iter().map(|b| (hash(&b), b)).collect();
        let header = format!(
            "rv-fuzz case seed={} shard={} world={} epoch={} index={} target={}::{} route={} mode={} signers={} call_instruction_index={}",
            id.seed, id.shard, id.world, id.epoch, id.index, t.package_name, key, route.name(), mode, signer_kind, call_index
        );
        let label = format!("fuzz:{}{}", route.name(), if auth_disabled { ":auth-disabled" } else { "" });
        // ---- execute. Calls made with the auth module switched off are observed on a scratch shard: what
        // the monitors say about them is logged, not counted as a violation (no transaction can make them)
        let mut scratch = Shard::new(shard.index, &shard.prop, shard.tier, shard.deadline);
        let sh: &mut Shard = if auth_disabled { &mut scratch } else { &mut *shard };
        let r = if let Some((only, constraints)) = v2_constraints {
            // V2-only instruction: a fixed small manifest around it
            let mut mb = ManifestBuilder::new_v2().lock_fee_from_faucet();
            for r in [XRD, w.fungibles[w.fungibles.len().min(2) - 1]] {
                mb = mb.withdraw_from_account(a0, r, dec!(1));
            }
            mb = mb.call_function(w.proxy_pkg, proxy::BP, "mark", (1u32,));
            mb = if only { mb.assert_worktop_resources_only(constraints.clone()) } else { mb.assert_worktop_resources_include(constraints.clone()) };
            mb = mb.call_function(w.proxy_pkg, proxy::BP, "mark", (2u32,)).try_deposit_entire_worktop_or_abort(a0, None);
            let m = mb.build_no_validate();
            let desc = format!("{header}\nV2 manifest: ASSERT_WORKTOP_RESOURCES_{} {:?}", if only { "ONLY" } else { "INCLUDE" }, constraints);
            w.ledger.exec_cfg(sh, &label, m, proofs, desc, auth_disabled)
        } else {
            let manifest = TransactionManifestV1 { instructions: ins, blobs: blob_map, object_names: ManifestObjectNames::Unknown };
            if manifest_encode(&manifest.instructions).is_err() {
                // deeper / larger than the manifest encoding allows: not a transaction
                sh.count("cases:not_encodable");
                return;
            }
            let desc = describe(sh, &header, &manifest, &proofs);
            w.ledger.exec_cfg(sh, &label, manifest, proofs, desc, auth_disabled)
        };
        if auth_disabled {
            let ev = scratch.evaluations;
            let logged: Vec<(String, String)> = scratch.violations.iter().map(|v| (v.prop.clone(), v.signature.clone())).collect();
            shard.evaluations += ev;
            for (p, sig) in logged {
                shard.count(&format!("logged:auth-disabled:{p}:{sig}"));
                shard.seen("observations_with_auth_disabled", &format!("{p}:{sig} [{key}]"));
            }
        }
        // ---- classify
        shard.count("cases");
        shard.count(&format!("mode:{mode}"));
        shard.count(&format!("route:{}", route.name()));
        shard.count(&format!("signers:{signer_kind}"));
        for u in used {
            shard.count(&format!("setup:{u}"));
        }
        let row = self.table.entry(key.clone()).or_default();
        row.calls += 1;
        row.routes.insert(route.name().to_string());
        row.modes.insert(mode.to_string());
        let Some(receipt) = &r.exec.receipt else {
            row.no_receipt += 1;
            row.class("no-receipt");
            shard.count("phase:no_receipt");
            return;
        };
        let cls = rv_ledger::outcome_class(receipt);
        let full = error_text(receipt);
        let breakdown: BTreeSet<String> = receipt.fee_details.as_ref().map(|f| f.execution_cost_breakdown.keys().cloned().collect()).unwrap_or_default();
        let has_export = |e: &str| breakdown.contains(&format!("RunNativeCode::{e}")) || breakdown.contains(&format!("RunWasmCode::{e}"));
        let m1 = r.marks.contains(&1);
        let m2 = r.marks.contains(&2);
        if let Ok(tr) = std::env::var("RVFUZZ_TRACE") {
            if key.contains(&tr) {
                eprintln!("[trace] {header}\n        marks={:?} outcome={cls}\n        error={}", r.marks, full.chars().take(700).collect::<String>());
            }
        }
        let phase = if m2 {
            row.ok += 1;
            row.class("ok");
            "ok"
        } else if m1 {
            let short = cls.splitn(2, ':').nth(1).unwrap_or(&cls).to_string();
            if is_pre_body(&cls, &full, t) || (!t.export.is_empty() && !has_export(&t.export)) {
                row.pre_body += 1;
                row.class(&format!("before-body:{short}"));
                "before_body"
            } else {
                row.body_error += 1;
                row.class(&format!("in-body:{short}"));
                "in_body_error"
            }
        } else {
            row.setup_failed += 1;
            row.class(&format!("setup-failed:{}", cls.splitn(2, ':').nth(1).unwrap_or(&cls)));
            "setup_failed"
        };
        shard.count(&format!("phase:{phase}"));
        shard.seen("outcome_classes_c11", &format!("{phase}:{}", cls));
        shard.nontrivial(&(key.as_str(), route.name(), mode, phase, cls.as_str()));
        // the transaction processor's `run` is RootOnly (not callable), but it *is* what executes every
        // manifest of this workload: count a case whose instructions started executing as a run of it
        if m1 || m2 {
            self.table.entry("TransactionProcessor::run".to_string()).or_default().indirect += 1;
        }
        // ---- indirect coverage: uniquely named exports that ran somewhere in this transaction
        for k in &breakdown {
            let e = match k.strip_prefix("RunNativeCode::").or_else(|| k.strip_prefix("RunWasmCode::")) {
                Some(e) => e,
                None => continue,
            };
            if e == t.export {
                continue;
            }
            if let Some(ix) = cat.by_export.get(e) {
                if ix.len() == 1 {
                    let k2 = cat.targets[ix[0]].key();
                    self.table.entry(k2).or_default().indirect += 1;
                }
            }
        }
        if shard.want_sample() && phase == "in_body_error" {
            let h = header.clone();
            shard.sample(|| json!({"case": h, "outcome": cls}));
        }
    }
}

fn pick_resource(g: &mut Gen, fungible: bool) -> ResourceAddress {
    if fungible {
        *g.rng.pick(&g.w.fungibles)
    } else if g.w.nfs.is_empty() {
        XRD
    } else {
        g.rng.pick(&g.w.nfs).0
    }
}

fn describe(shard: &mut Shard, header: &str, manifest: &TransactionManifestV1, proofs: &[NonFungibleGlobalId]) -> String {
    let text = match catch(std::panic::AssertUnwindSafe(|| decompile(manifest, &NetworkDefinition::simulator()))) {
        Ok(Ok(t)) => t.chars().take(6000).collect::<String>(),
        Ok(Err(e)) => format!("<decompile failed: {:?}>", e).chars().take(300).collect(),
        Err(p) => {
            shard.count("harness:decompile_panicked");
            format!("<decompile panicked: {}>", p.summary())
        }
    };
    let hex = manifest_encode(&manifest.instructions).map(|b| rv_common::hex(&b)).unwrap_or_default();
    let hex: String = hex.chars().take(40_000).collect();
    format!("{header}\nproofs={:?}\n{text}\ninstructions_manifest_sbor_hex={hex}", proofs.iter().map(|p| format!("{:?}", p)).collect::<Vec<_>>())
}

enum InstrCall {
    V1(Vec<InstructionV1>),
    V2(bool, ManifestResourceConstraints),
}

fn instruction_for(t: &Target) -> Option<&'static str> {
    Some(match (t.blueprint.as_str(), t.function.as_str()) {
        ("Worktop", "Worktop_take") => "TakeFromWorktop",
        ("Worktop", "Worktop_take_all") => "TakeAllFromWorktop",
        ("Worktop", "Worktop_take_non_fungibles") => "TakeNonFungiblesFromWorktop",
        ("Worktop", "Worktop_put") => "ReturnToWorktop",
        ("Worktop", "Worktop_assert_contains") => "AssertWorktopContainsAny",
        ("Worktop", "Worktop_assert_contains_amount") => "AssertWorktopContains",
        ("Worktop", "Worktop_assert_contains_non_fungibles") => "AssertWorktopContainsNonFungibles",
        ("Worktop", "Worktop_drain") => "ENTIRE_WORKTOP",
        ("Worktop", "Worktop_assert_resources_only") => "AssertWorktopResourcesOnly",
        ("Worktop", "Worktop_assert_resources_include") => "AssertWorktopResourcesInclude",
        ("AuthZone", "push") => "PushToAuthZone",
        ("AuthZone", "pop") => "PopFromAuthZone",
        ("AuthZone", "create_proof_of_amount") => "CreateProofFromAuthZoneOfAmount",
        ("AuthZone", "create_proof_of_non_fungibles") => "CreateProofFromAuthZoneOfNonFungibles",
        ("AuthZone", "create_proof_of_all") => "CreateProofFromAuthZoneOfAll",
        ("AuthZone", "drop_proofs") => "DropAuthZoneProofs",
        ("AuthZone", "drop_signature_proofs") => "DropAuthZoneSignatureProofs",
        ("AuthZone", "drop_regular_proofs") => "DropAuthZoneRegularProofs",
        ("AuthZone", "drain") => "ENTIRE_AUTH_ZONE",
        _ => return None,
    })
}

/// The manifest instruction(s) whose execution calls the worktop / auth-zone method `t`, with
/// hostile operands. `args` (generated from the method's input schema) supplies the operands
/// where they are plain data.
fn instruction_call(g: &mut Gen, t: &Target, args: &MV) -> Option<InstrCall> {
    let form = instruction_for(t)?;
    let r = g.any_resource();
    let dec = |g: &mut Gen| Decimal::try_from(g.decimal_raw().as_slice()).unwrap_or(Decimal::ONE);
    let ids = |g: &mut Gen, r: ResourceAddress| -> Vec<NonFungibleLocalId> { (0..g.rng.below(4)).map(|_| g.nf_id_for(Some(r))).collect() };
    // something on the worktop for the worktop forms
    if t.blueprint == "Worktop" && g.rng.chance(3, 4) {
        let _ = g.new_bucket(Some(r));
        let b = g.n_buckets - 1;
        g.pre.push(InstructionV1::ReturnToWorktop(ReturnToWorktop { bucket_id: ManifestBucket(b) }));
    }
    let a0 = g.w.keys[0].account;
    Some(InstrCall::V1(match form {
        "TakeFromWorktop" => vec![InstructionV1::TakeFromWorktop(TakeFromWorktop { resource_address: r, amount: dec(g) })],
        "TakeAllFromWorktop" => vec![InstructionV1::TakeAllFromWorktop(TakeAllFromWorktop { resource_address: r })],
        "TakeNonFungiblesFromWorktop" => vec![InstructionV1::TakeNonFungiblesFromWorktop(TakeNonFungiblesFromWorktop { resource_address: r, ids: ids(g, r) })],
        "ReturnToWorktop" => {
            let MV::Custom { value: ManifestCustomValue::Bucket(b) } = g.bucket(None) else { return None };
            vec![InstructionV1::ReturnToWorktop(ReturnToWorktop { bucket_id: b })]
        }
        "AssertWorktopContainsAny" => vec![InstructionV1::AssertWorktopContainsAny(AssertWorktopContainsAny { resource_address: r })],
        "AssertWorktopContains" => vec![InstructionV1::AssertWorktopContains(AssertWorktopContains { resource_address: r, amount: dec(g) })],
        "AssertWorktopContainsNonFungibles" => vec![InstructionV1::AssertWorktopContainsNonFungibles(AssertWorktopContainsNonFungibles { resource_address: r, ids: ids(g, r) })],
        "ENTIRE_WORKTOP" => vec![call_method(a0.as_node_id(), ACCOUNT_TRY_DEPOSIT_BATCH_OR_ABORT_IDENT, MV::Tuple { fields: vec![MV::Custom { value: ManifestCustomValue::Expression(ManifestExpression::EntireWorktop) }, MV::Enum { discriminator: 0, fields: vec![] }] })],
        "AssertWorktopResourcesOnly" | "AssertWorktopResourcesInclude" => {
            // operands come from the schema-generated input tuple: (constraints,)
            let MV::Tuple { fields } = args else { return None };
            let c = fields.first()?;
            let c: ManifestResourceConstraints = manifest_decode(&manifest_encode(c).ok()?).ok()?;
            return Some(InstrCall::V2(form == "AssertWorktopResourcesOnly", c));
        }
        "PushToAuthZone" => {
            let MV::Custom { value: ManifestCustomValue::Proof(p) } = g.proof() else { return None };
            vec![InstructionV1::PushToAuthZone(PushToAuthZone { proof_id: p })]
        }
        "PopFromAuthZone" => vec![InstructionV1::PopFromAuthZone(PopFromAuthZone); 1 + g.rng.below(3) as usize],
        "CreateProofFromAuthZoneOfAmount" => vec![InstructionV1::CreateProofFromAuthZoneOfAmount(CreateProofFromAuthZoneOfAmount { resource_address: r, amount: dec(g) })],
        "CreateProofFromAuthZoneOfNonFungibles" => vec![InstructionV1::CreateProofFromAuthZoneOfNonFungibles(CreateProofFromAuthZoneOfNonFungibles { resource_address: r, ids: ids(g, r) })],
        "CreateProofFromAuthZoneOfAll" => vec![InstructionV1::CreateProofFromAuthZoneOfAll(CreateProofFromAuthZoneOfAll { resource_address: r })],
        "DropAuthZoneProofs" => vec![InstructionV1::DropAuthZoneProofs(DropAuthZoneProofs)],
        "DropAuthZoneSignatureProofs" => vec![InstructionV1::DropAuthZoneSignatureProofs(DropAuthZoneSignatureProofs)],
        "DropAuthZoneRegularProofs" => vec![InstructionV1::DropAuthZoneRegularProofs(DropAuthZoneRegularProofs)],
        "ENTIRE_AUTH_ZONE" => vec![call_function(g.w.proxy_pkg, proxy::BP, "mark", MV::Tuple { fields: vec![MV::U32 { value: 9 }, MV::Custom { value: ManifestCustomValue::Expression(ManifestExpression::EntireAuthZone) }] })],
        _ => return None,
    }))
}

// ---------------------------------------------------------------------------------------------
// driver
// ---------------------------------------------------------------------------------------------
pub struct Plan {
    pub epoch_len: u64,
    pub epochs_per_world: u64,
    pub cases_per_shard: u64,
}

pub fn plan(args: &Args) -> Plan {
    let total = scaled(args, args.tier.pick(20_000, 1_000_000));
    let per_shard = (total / args.threads as u64).max(50);
    Plan { epoch_len: args.tier.pick(125, 250), epochs_per_world: args.tier.pick(1000, 40), cases_per_shard: per_shard }
}

/// Runs cases `0..=upto` of one epoch (used by the main loop and by replay).
fn run_epoch(fz: &mut Fuzzer, w: &mut World, snap: &(LedgerSimulatorSnapshot, rv_ledger::History), shard: &mut Shard, seed: u64, shard_ix: usize, world_ix: u64, epoch: u64, cases: u64) -> u64 {
    w.ledger.restore(snap);
    let mut rng = Rng::from_parts(seed ^ 0x00C1_1F22, ((shard_ix as u64) << 24) | world_ix, epoch);
    let n = fz.cat.targets.len();
    let mut order: Vec<usize> = (0..n).collect();
    rng.shuffle(&mut order);
    let offset = rng.usize_below(n);
    let mut done = 0;
    for i in 0..cases {
        if shard.time_up() {
            break;
        }
        // round-robin over a shuffled order so that every function gets its share of calls
        let ti = order[(offset + i as usize) % n];
        let id = CaseId { seed, shard: shard_ix, world: world_ix, epoch, index: i };
        fz.case(w, shard, &mut rng, ti, &id);
        done += 1;
    }
    done
}

pub fn build_world(shard: &mut Shard, seed: u64, shard_ix: usize, world_ix: u64) -> World {
    let mut rng = Rng::from_parts(seed ^ 0x0BAD_5EED, shard_ix as u64, world_ix);
    World::build(shard, &mut rng)
}

pub fn run(args: &Args) -> i32 {
    // number of targets (for the floors): from a plain genesis
    let n_targets = {
        let l = rv_ledger::Ledger::new();
        Catalog::build(&l.sim, &[]).targets.len() as u64
    };
    let thorough = args.tier == Tier::Thorough;
    let mut spec = Spec::new(
        "C11",
        "exploration",
        "every function and method of every blueprint stored in the genesis database (enumerated from the package definitions) is called with arguments generated from its input schema (extreme numbers / decimals, empty and long collections, every enum variant, duplicate keys, real and wrong-kind addresses, real / empty / foreign / re-used / dangling buckets, proofs and address reservations, existing / burned / wrong-type non-fungible ids), with arguments of successful set-up calls (verbatim and with one hostile leaf) and with byte-level mutants that still decode, on receivers in usual and unusual states, as a manifest call, a module call, a direct-access call and from inside a component; a case is non-trivial when the transaction was executed; distinct = distinct (function, route, argument mode, phase reached, outcome class); any panic escaping the executor and any receipt carrying a native trap / SystemPanic is a violation (detected by the ledger monitor pipeline)",
    )
    .assume("transactions are test transactions (no notarisation, manifests are not statically validated before execution, so manifests a real client could not submit - dangling bucket ids - reach the transaction processor as well); costing and limits are the genesis defaults")
    .assume("TestUtils::panic (test-only native blueprint whose specified behaviour is to panic) is called once per world with a fixed message; it is a by-design native trap and is reported under its own stable signature")
    .assume("bucket / proof / vault / auth-zone methods are not addressable from a manifest: they are called with arbitrary payloads through a native test blueprint (FuzzProxy) standing for a WASM component calling object_call; worktop methods only through the manifest instructions implemented by them")
    .assume("'reached the blueprint body' is decided from two marks around the call (did it start / did it return) and, for failures, from the error class (auth / input type check / unknown receiver = before the body) plus the presence of the function's export in the cost breakdown")
    .floor("cases", args.tier.pick(8_000, 300_000))
    .floor("phase:ok", args.tier.pick(1_000, 30_000))
    .floor("phase:in_body_error", args.tier.pick(1_000, 30_000))
    .floor("mode:schema+bytes", args.tier.pick(300, 10_000))
    .floor("functions_called", n_targets)
    .explain("per-function table under coverage.functions: calls, how many were stopped before the body, failed inside it, returned; outcome classes; routes; indirect = the function ran as part of another call");
    spec = if thorough { spec.floor("functions_reached", n_targets) } else { spec.floor("functions_reached", n_targets * 3 / 4) };
    let mut report = Report::new(args, spec);
    if let Some(path) = &args.replay {
        return replay(args, path, report);
    }
    let plan = plan(args);
    let budget = Duration::from_secs(budget_secs(args.tier, 75, 1500));
    let global: Mutex<Table> = Mutex::new(Table::new());
    let setup_notes: Mutex<BTreeSet<String>> = Mutex::new(BTreeSet::new());
    let seed = args.seed;
    report.run_shards(11, args.threads, budget, |shard_ix, _rng, shard| {
        let mut done = 0u64;
        let mut world_ix = 0u64;
        let mut local = Table::new();
        while done < plan.cases_per_shard && !shard.time_up() {
            let mut w = build_world(shard, seed, shard_ix, world_ix);
            shard.count("worlds");
            shard.add("world:setup_transactions", w.setup_transactions);
            shard.add("world:setup_failures", w.setup_failures.len() as u64);
            {
                let mut notes = setup_notes.lock().unwrap();
                for f in &w.setup_failures {
                    if notes.len() < 40 {
                        notes.insert(f.clone());
                    }
                }
            }
            shard.max("world:entities", (w.globals.len() + w.internals.len()) as u64);
            shard.max("world:blueprints_with_instances", w.by_bp.len() as u64);
            shard.max("world:seeded_functions", w.seeds.len() as u64);
            let cat = Catalog::build(&w.ledger.sim, &[w.proxy_pkg]);
            let snap = w.ledger.snapshot();
            let mut fz = Fuzzer::new(&cat);
            // functions that ran while the world was set up (monitored transactions as well)
            for e in &w.setup_exports {
                if let Some(ix) = cat.by_export.get(e) {
                    if ix.len() == 1 {
                        fz.table.entry(cat.targets[ix[0]].key()).or_default().indirect += 1;
                    }
                }
            }
            for epoch in 0..plan.epochs_per_world {
                if done >= plan.cases_per_shard || shard.time_up() {
                    break;
                }
                let n = plan.epoch_len.min(plan.cases_per_shard - done);
                done += run_epoch(&mut fz, &mut w, &snap, shard, seed, shard_ix, world_ix, epoch, n);
                shard.count("epochs");
            }
            if world_ix == 0 {
                w.ledger.walk(shard, "end of first fuzz world");
            }
            for (k, r) in &fz.table {
                local.entry(k.clone()).or_default().merge(r);
            }
            world_ix += 1;
        }
        let mut g = global.lock().unwrap();
        for (k, r) in &local {
            g.entry(k.clone()).or_default().merge(r);
        }
    });
    // ---- per-function evidence
    let table = global.into_inner().unwrap();
    let cat_keys: Vec<(String, String)> = {
        let l = rv_ledger::Ledger::new();
        Catalog::build(&l.sim, &[]).targets.iter().map(|t| (t.key(), t.package_name.clone())).collect()
    };
    let mut functions = serde_json::Map::new();
    let (mut called, mut reached, mut reached_direct) = (0u64, 0u64, 0u64);
    let mut unreached: Vec<String> = vec![];
    let mut only_indirect: Vec<String> = vec![];
    for (key, pkg) in &cat_keys {
        let row = table.get(key).cloned().unwrap_or_default();
        if row.calls > 0 || row.indirect > 0 {
            called += 1;
        }
        let direct = row.reached_direct();
        if direct > 0 {
            reached_direct += 1;
        }
        if direct > 0 || row.indirect > 0 {
            reached += 1;
            if direct == 0 {
                only_indirect.push(key.clone());
            }
        } else {
            unreached.push(key.clone());
        }
        let mut classes: Vec<(String, u64)> = row.classes.iter().map(|(k, v)| (k.clone(), *v)).collect();
        classes.sort_by(|a, b| b.1.cmp(&a.1));
        functions.insert(
            key.clone(),
            json!({"package": pkg, "calls": row.calls, "returned": row.ok, "failed_in_body": row.body_error, "stopped_before_body": row.pre_body, "setup_failed": row.setup_failed, "no_receipt": row.no_receipt,
                   "ran_indirectly": row.indirect, "routes": row.routes, "modes": row.modes, "outcome_classes": classes.iter().take(14).map(|(k, v)| format!("{k} x{v}")).collect::<Vec<_>>()}),
        );
    }
    report.counters.insert("functions_total".into(), cat_keys.len() as u64);
    report.counters.insert("functions_called".into(), called);
    report.counters.insert("functions_reached".into(), reached);
    report.counters.insert("functions_reached_directly".into(), reached_direct);
    report.counters.insert("functions_unreached".into(), unreached.len() as u64);
    report.extra.insert("functions_unreached".into(), json!(unreached));
    report.extra.insert("functions_reached_only_indirectly".into(), json!(only_indirect));
    report.extra.insert("functions".into(), Value::Object(functions));
    let notes = setup_notes.into_inner().unwrap();
    if !notes.is_empty() {
        report.extra.insert("world_setup_failures".into(), json!(notes));
    }
    println!("functions: total={} called={} reached={} (directly {}) unreached={:?}", cat_keys.len(), called, reached, reached_direct, unreached);
    report.finish()
}

fn replay(args: &Args, path: &std::path::Path, mut report: Report) -> i32 {
    let doc: Value = serde_json::from_str(&std::fs::read_to_string(path).expect("replay file")).expect("json");
    let tx = doc["detail"]["tx"].as_str().unwrap_or("");
    let field = |name: &str| -> Option<u64> { tx.split_whitespace().find_map(|tok| tok.strip_prefix(&format!("{name}="))).and_then(|v| v.parse().ok()) };
    let (Some(seed), Some(shard_ix), Some(world_ix), Some(epoch), Some(index)) = (field("seed"), field("shard"), field("world"), field("epoch"), field("index")) else {
        println!("replay file does not describe an rv-fuzz case (no 'rv-fuzz case seed=.. shard=.. world=.. epoch=.. index=..' line); tx: {}", tx.chars().take(200).collect::<String>());
        return 2;
    };
    let want = doc["signature"].as_str().unwrap_or("").to_string();
    let tier = if doc["tier"].as_str() == Some("thorough") { Tier::Thorough } else { Tier::Quick };
    let mut a2 = args.clone();
    a2.tier = tier;
    let plan = plan(&a2);
    let mut shard = Shard::new(shard_ix as usize, "C11", tier, std::time::Instant::now() + Duration::from_secs(3600));
    let mut w = build_world(&mut shard, seed, shard_ix as usize, world_ix);
    let cat = Catalog::build(&w.ledger.sim, &[w.proxy_pkg]);
    let snap = w.ledger.snapshot();
    let mut fz = Fuzzer::new(&cat);
    // epochs are independent (state restored, rng re-derived): run the recorded one up to the case
    let total = plan.epoch_len;
    let _ = total;
    run_epoch(&mut fz, &mut w, &snap, &mut shard, seed, shard_ix as usize, world_ix, epoch, index + 1);
    let hit = shard.violations.iter().filter(|v| v.signature == want).count();
    println!("replayed epoch {epoch} of world {world_ix} of shard {shard_ix} (seed {seed}) up to case {index}: {} violation(s), {} with the recorded signature", shard.violations.len(), hit);
    for v in &shard.violations {
        println!("  {} {}", v.prop, v.signature);
    }
    report.merge(shard);
    report.finish()
}
