//! Catalog of fuzz targets, enumerated from the package definitions stored in the (genesis)
//! database: every function / method of every blueprint of every package, with the schema of
//! its input payload. Nothing here is hard-wired to a particular function, so functions added by
//! a protocol update are picked up automatically.
use rv_ledger::decode::Db;
use radix_blueprint_schema_init::*;
use rv_ledger::prelude::*;
use std::collections::BTreeMap;
use std::rc::Rc;

#[derive(Clone)]
pub struct Target {
    pub package: PackageAddress,
    pub package_name: String,
    pub blueprint: String,
    pub function: String,
    pub export: String,
    pub receiver: Option<ReceiverInfo>,
    pub is_inner: bool,
    pub is_transient: bool,
    pub is_wasm: bool,
    /// no user transaction can call it directly whatever it signs with (RootOnly / deny_all function,
    /// OuterObjectOnly / OwnPackageOnly / role-less method): genesis reaches these with auth switched off
    pub system_only: bool,
    /// schema + type id of the input tuple (None: generic / unresolvable -> treated as Any)
    pub input: Option<(Rc<VersionedScryptoSchema>, LocalTypeId)>,
}

impl Target {
    pub fn key(&self) -> String {
        format!("{}::{}", self.blueprint, self.function)
    }
    pub fn is_method(&self) -> bool {
        self.receiver.is_some()
    }
    pub fn direct_access(&self) -> bool {
        self.receiver.as_ref().map(|r| r.ref_types.contains(RefTypes::DIRECT_ACCESS)).unwrap_or(false)
    }
    pub fn normal_access(&self) -> bool {
        self.receiver.as_ref().map(|r| r.ref_types.contains(RefTypes::NORMAL)).unwrap_or(false)
    }
}

pub struct Catalog {
    pub targets: Vec<Target>,
    /// export name -> indices of targets (export names are not unique across packages)
    pub by_export: BTreeMap<String, Vec<usize>>,
    pub by_key: BTreeMap<String, usize>,
    /// role names declared by each blueprint's auth template (candidate role-key strings)
    pub roles: BTreeMap<String, Vec<String>>,
}

pub fn well_known_package_name(p: &PackageAddress) -> String {
    let names: [(PackageAddress, &str); 17] = [
        (PACKAGE_PACKAGE, "package"),
        (RESOURCE_PACKAGE, "resource"),
        (ACCOUNT_PACKAGE, "account"),
        (IDENTITY_PACKAGE, "identity"),
        (CONSENSUS_MANAGER_PACKAGE, "consensus_manager"),
        (ACCESS_CONTROLLER_PACKAGE, "access_controller"),
        (POOL_PACKAGE, "pool"),
        (TRANSACTION_PROCESSOR_PACKAGE, "transaction_processor"),
        (METADATA_MODULE_PACKAGE, "metadata"),
        (ROYALTY_MODULE_PACKAGE, "royalty"),
        (ROLE_ASSIGNMENT_MODULE_PACKAGE, "role_assignment"),
        (TRANSACTION_TRACKER_PACKAGE, "transaction_tracker"),
        (LOCKER_PACKAGE, "locker"),
        (FAUCET_PACKAGE, "faucet"),
        (GENESIS_HELPER_PACKAGE, "genesis_helper"),
        (TEST_UTILS_PACKAGE, "test_utils"),
        (TEST_UTILS_PACKAGE, "test_utils"),
    ];
    names.iter().find(|(a, _)| a == p).map(|(_, n)| n.to_string()).unwrap_or_else(|| format!("package_{}", hex::encode(&p.as_node_id().0[..6])))
}

fn package_is_wasm(db: &Db, package: &PackageAddress) -> bool {
    let reader = SystemDatabaseReader::new(db);
    let Ok(iter) = reader.collection_iter(package.as_node_id(), ModuleId::Main, PackageCollection::CodeVmTypeKeyValue.collection_index()) else { return false };
    for (_k, v) in iter {
        if let Ok(vm) = scrypto_decode::<PackageCodeVmTypeEntryPayload>(&v) {
            if vm.fully_update_and_into_latest_version().vm_type == VmType::ScryptoV1 {
                return true;
            }
        }
    }
    false
}

impl Catalog {
    /// Enumerate all packages present in `db`, skipping the ones in `skip` (the harness' own proxy).
    pub fn build<E: NativeVmExtension>(sim: &LedgerSimulator<E, InMemorySubstateDatabase>, skip: &[PackageAddress]) -> Catalog {
        let db = sim.substate_db();
        let reader = SystemDatabaseReader::new(db);
        let mut packages = sim.find_all_packages();
        packages.sort();
        let mut targets = vec![];
        let mut roles: BTreeMap<String, Vec<String>> = BTreeMap::new();
        for package in packages {
            if skip.contains(&package) {
                continue;
            }
            let is_wasm = package_is_wasm(db, &package);
            let package_name = well_known_package_name(&package);
            let auth: BTreeMap<String, AuthConfig> = reader
                .collection_iter(package.as_node_id(), ModuleId::Main, PackageCollection::BlueprintVersionAuthConfigKeyValue.collection_index())
                .map(|it| {
                    it.filter_map(|(k, v)| {
                        let key: BlueprintVersionKey = scrypto_decode(&k.into_map()).ok()?;
                        let cfg: PackageBlueprintVersionAuthConfigEntryPayload = scrypto_decode(&v).ok()?;
                        Some((key.blueprint, cfg.fully_update_and_into_latest_version()))
                    })
                    .collect()
                })
                .unwrap_or_default();
            for (bp, cfg) in &auth {
                if let MethodAuthTemplate::StaticRoleDefinition(d) = &cfg.method_auth {
                    if let RoleSpecification::Normal(m) = &d.roles {
                        roles.entry(bp.clone()).or_default().extend(m.keys().map(|k| k.key.clone()));
                    }
                }
            }
            let defs = sim.get_package_blueprint_definitions(&package);
            let mut defs: Vec<_> = defs.into_iter().collect();
            defs.sort_by(|a, b| a.0.blueprint.cmp(&b.0.blueprint));
            for (key, def) in defs {
                let mut fns: Vec<_> = def.interface.functions.iter().collect();
                fns.sort_by(|a, b| a.0.cmp(b.0));
                for (name, fs) in fns {
                    let export = def.function_exports.get(name).map(|e| e.export_name.clone()).unwrap_or_default();
                    let input = match &fs.input {
                        BlueprintPayloadDef::Static(ScopedTypeId(hash, ty)) => reader.get_schema(package.as_node_id(), hash).ok().map(|s| (s, *ty)),
                        BlueprintPayloadDef::Generic(_) => None,
                    };
                    let system_only = match auth.get(&key.blueprint) {
                        None => false,
                        Some(cfg) => {
                            if fs.receiver.is_none() {
                                match &cfg.function_auth {
                                    FunctionAuth::AllowAll => false,
                                    FunctionAuth::RootOnly => true,
                                    FunctionAuth::AccessRules(m) => matches!(m.get(name), Some(AccessRule::DenyAll) | None),
                                }
                            } else {
                                match &cfg.method_auth {
                                    MethodAuthTemplate::AllowAll => false,
                                    MethodAuthTemplate::StaticRoleDefinition(d) => match d.methods.get(&MethodKey::new(name.as_str())) {
                                        Some(MethodAccessibility::Public) => false,
                                        Some(MethodAccessibility::RoleProtected(l)) => l.list.is_empty(),
                                        Some(MethodAccessibility::OuterObjectOnly) | Some(MethodAccessibility::OwnPackageOnly) => true,
                                        None => true,
                                    },
                                }
                            }
                        }
                    };
                    targets.push(Target {
                        package,
                        package_name: package_name.clone(),
                        blueprint: key.blueprint.clone(),
                        function: name.clone(),
                        export,
                        receiver: fs.receiver.clone(),
                        is_inner: matches!(def.interface.blueprint_type, BlueprintType::Inner { .. }),
                        is_transient: def.interface.is_transient,
                        is_wasm,
                        system_only,
                        input,
                    });
                }
            }
        }
        let mut by_export: BTreeMap<String, Vec<usize>> = BTreeMap::new();
        let mut by_key = BTreeMap::new();
        for (i, t) in targets.iter().enumerate() {
            by_export.entry(t.export.clone()).or_default().push(i);
            by_key.insert(t.key(), i);
        }
        Catalog { targets, by_export, by_key, roles }
    }
}

/// Human-readable rendering of a type (bounded depth) for the `list` mode.
pub fn render_type(schema: &VersionedScryptoSchema, ty: LocalTypeId, depth: usize) -> String {
    let s = schema.v1();
    let Some(kind) = s.resolve_type_kind(ty) else { return "?".into() };
    let name = s.resolve_type_name_from_metadata(ty).unwrap_or("");
    if depth == 0 {
        return format!("{name}..");
    }
    match kind {
        TypeKind::Array { element_type } => format!("[{}]", render_type(schema, *element_type, depth - 1)),
        TypeKind::Tuple { field_types } => format!("{name}({})", field_types.iter().map(|f| render_type(schema, *f, depth - 1)).collect::<Vec<_>>().join(", ")),
        TypeKind::Enum { variants } => format!("{name}<enum {}>", variants.len()),
        TypeKind::Map { key_type, value_type } => format!("{{{}: {}}}", render_type(schema, *key_type, depth - 1), render_type(schema, *value_type, depth - 1)),
        TypeKind::Custom(c) => {
            let v = s.resolve_type_validation(ty);
            match v {
                Some(TypeValidation::Custom(cv)) => format!("{name}:{:?}", cv),
                _ => format!("{name}:{:?}", c),
            }
        }
        k => {
            if name.is_empty() {
                format!("{:?}", k.label())
            } else {
                format!("{name}:{:?}", k.label())
            }
        }
    }
}
