//! C37 (pure half) - resource assertions accept exactly the balances they describe.
//!
//! Oracle: the mathematical meaning of every constraint evaluated directly on exact integers (attos as
//! BigInt) and on bit masks over a 7-id universe (plus "fresh" ids that no constraint mentions):
//!   NonZeroAmount: amount > 0;  ExactAmount(d): amount == d;  AtLeastAmount(d): amount >= d;
//!   ExactNonFungibles(X): ids == X;  AtLeastNonFungibles(X): X subset of ids;
//!   General{required, lower, upper, allowed}: lower(amount) and upper(amount) and required subset of ids and
//!     (allowed == Any or ids subset of allowlist), NonZero meaning amount > 0, Unbounded meaning no limit;
//!   for non-fungibles amount = |ids|; a fungible balance has no ids.
//! `normalize()` of a constraint the code declares valid must not change the accepted set; a constraint
//! (or constraint set) the code declares valid must be accepted for a constructed witness balance.
use num_bigint::BigInt;
use num_traits::{One, Signed, Zero};
use radix_common::prelude::*;
use rv_common::{catch, Args, Report, Rng, Shard, Spec};
use serde_json::{json, Value};
use std::str::FromStr;
use std::time::Duration;

const U: usize = 7; // universe size
const FULL: u8 = (1 << U) - 1;

fn uid(i: usize) -> NonFungibleLocalId {
    match i {
        0 => NonFungibleLocalId::integer(1),
        1 => NonFungibleLocalId::integer(2),
        2 => NonFungibleLocalId::string("a").unwrap(),
        3 => NonFungibleLocalId::bytes(vec![0u8]).unwrap(),
        4 => NonFungibleLocalId::ruid([1u8; 32]),
        5 => NonFungibleLocalId::integer(u64::MAX),
        6 => NonFungibleLocalId::string("A").unwrap(),
        _ => unreachable!(),
    }
}
fn fresh_id(i: usize) -> NonFungibleLocalId {
    NonFungibleLocalId::integer(1_000_000 + i as u64)
}

fn ids_of(mask: u8, order_seed: u64) -> IndexSet<NonFungibleLocalId> {
    // insertion order varies: IndexSet semantics must not depend on it
    let mut v: Vec<usize> = (0..U).filter(|i| mask >> i & 1 == 1).collect();
    if order_seed & 1 == 1 {
        v.reverse();
    }
    if order_seed & 2 == 2 && v.len() > 2 {
        v.swap(0, 1);
    }
    v.into_iter().map(uid).collect()
}

fn balance_ids(mask: u8, fresh: usize) -> IndexSet<NonFungibleLocalId> {
    let mut s = ids_of(mask, 0);
    for i in 0..fresh {
        s.insert(fresh_id(i));
    }
    s
}

fn one_e18() -> BigInt {
    BigInt::from(10u64.pow(18))
}
fn max_attos() -> BigInt {
    (BigInt::one() << 191) - 1
}

fn dec(a: &BigInt) -> Decimal {
    let d = Decimal::from_attos(I192::from_str(&a.to_string()).expect("harness: attos out of I192 range"));
    debug_assert_eq!(&attos_of(&d), a);
    d
}
fn attos_of(d: &Decimal) -> BigInt {
    BigInt::from_str(&d.attos().to_string()).expect("harness: attos string")
}

#[derive(Clone, Debug, PartialEq)]
pub enum MLower {
    NonZero,
    Incl(BigInt),
}
#[derive(Clone, Debug, PartialEq)]
pub enum MUpper {
    Incl(BigInt),
    Unbounded,
}
#[derive(Clone, Debug, PartialEq)]
pub struct MGeneral {
    required: u8,
    lower: MLower,
    upper: MUpper,
    allowed: Option<u8>,
}
#[derive(Clone, Debug, PartialEq)]
pub enum MC {
    NonZero,
    Exact(BigInt),
    AtLeast(BigInt),
    ExactIds(u8),
    AtLeastIds(u8),
    General(MGeneral),
}

impl MLower {
    fn sat(&self, a: &BigInt) -> bool {
        match self {
            MLower::NonZero => a.is_positive(),
            MLower::Incl(d) => a >= d,
        }
    }
    fn to_code(&self) -> LowerBound {
        match self {
            MLower::NonZero => LowerBound::NonZero,
            MLower::Incl(d) => LowerBound::Inclusive(dec(d)),
        }
    }
}
impl MUpper {
    fn sat(&self, a: &BigInt) -> bool {
        match self {
            MUpper::Unbounded => true,
            MUpper::Incl(d) => a <= d,
        }
    }
    fn to_code(&self) -> UpperBound {
        match self {
            MUpper::Unbounded => UpperBound::Unbounded,
            MUpper::Incl(d) => UpperBound::Inclusive(dec(d)),
        }
    }
}

impl MGeneral {
    fn to_code(&self, order: u64) -> GeneralResourceConstraint {
        GeneralResourceConstraint {
            required_ids: ids_of(self.required, order),
            lower_bound: self.lower.to_code(),
            upper_bound: self.upper.to_code(),
            allowed_ids: match self.allowed {
                None => AllowedIds::Any,
                Some(m) => AllowedIds::Allowlist(ids_of(m, order >> 2)),
            },
        }
    }
}

impl MC {
    fn to_code(&self, order: u64) -> ManifestResourceConstraint {
        match self {
            MC::NonZero => ManifestResourceConstraint::NonZeroAmount,
            MC::Exact(d) => ManifestResourceConstraint::ExactAmount(dec(d)),
            MC::AtLeast(d) => ManifestResourceConstraint::AtLeastAmount(dec(d)),
            MC::ExactIds(m) => ManifestResourceConstraint::ExactNonFungibles(ids_of(*m, order)),
            MC::AtLeastIds(m) => ManifestResourceConstraint::AtLeastNonFungibles(ids_of(*m, order)),
            MC::General(g) => ManifestResourceConstraint::General(g.to_code(order)),
        }
    }
    fn kind(&self) -> &'static str {
        match self {
            MC::NonZero => "NonZeroAmount",
            MC::Exact(_) => "ExactAmount",
            MC::AtLeast(_) => "AtLeastAmount",
            MC::ExactIds(_) => "ExactNonFungibles",
            MC::AtLeastIds(_) => "AtLeastNonFungibles",
            MC::General(_) => "General",
        }
    }
    /// meaning on a fungible balance of `a` attos (no ids)
    fn sat_fungible(&self, a: &BigInt) -> bool {
        match self {
            MC::NonZero => a.is_positive(),
            MC::Exact(d) => a == d,
            MC::AtLeast(d) => a >= d,
            // id constraints on a balance without ids: exact/at-least of the empty set would be
            // vacuous, but the code documents them as not applicable to fungibles; they are never
            // valid for fungible use, so they are outside the accept-iff domain.
            MC::ExactIds(_) | MC::AtLeastIds(_) => false,
            MC::General(g) => g.lower.sat(a) && g.upper.sat(a) && g.required == 0,
        }
    }
    /// meaning on a non-fungible balance: universe mask + number of ids outside the universe
    fn sat_nf(&self, mask: u8, fresh: usize) -> bool {
        let n = BigInt::from(mask.count_ones() as usize + fresh) * one_e18();
        match self {
            MC::NonZero => n.is_positive(),
            MC::Exact(d) => &n == d,
            MC::AtLeast(d) => &n >= d,
            MC::ExactIds(m) => fresh == 0 && mask == *m,
            MC::AtLeastIds(m) => mask & m == *m,
            MC::General(g) => {
                g.lower.sat(&n)
                    && g.upper.sat(&n)
                    && mask & g.required == g.required
                    && match g.allowed {
                        None => true,
                        Some(al) => fresh == 0 && mask & !al == 0,
                    }
            }
        }
    }
    fn numbers(&self) -> Vec<BigInt> {
        match self {
            MC::Exact(d) | MC::AtLeast(d) => vec![d.clone()],
            MC::General(g) => {
                let mut v = vec![];
                if let MLower::Incl(d) = &g.lower {
                    v.push(d.clone());
                }
                if let MUpper::Incl(d) = &g.upper {
                    v.push(d.clone());
                }
                v
            }
            _ => vec![],
        }
    }

    fn to_json(&self) -> Value {
        match self {
            MC::NonZero => json!({"k": "nonzero"}),
            MC::Exact(d) => json!({"k": "exact", "a": d.to_string()}),
            MC::AtLeast(d) => json!({"k": "atleast", "a": d.to_string()}),
            MC::ExactIds(m) => json!({"k": "exact_ids", "ids": m}),
            MC::AtLeastIds(m) => json!({"k": "atleast_ids", "ids": m}),
            MC::General(g) => json!({
                "k": "general", "req": g.required,
                "lo": match &g.lower { MLower::NonZero => "nonzero".to_string(), MLower::Incl(d) => d.to_string() },
                "hi": match &g.upper { MUpper::Unbounded => "unbounded".to_string(), MUpper::Incl(d) => d.to_string() },
                "allow": g.allowed,
            }),
        }
    }
    fn from_json(v: &Value) -> Option<MC> {
        let big = |k: &str| v.get(k).and_then(|x| x.as_str()).and_then(|s| BigInt::from_str(s).ok());
        let mask = |k: &str| v.get(k).and_then(|x| x.as_u64()).map(|x| x as u8);
        Some(match v.get("k")?.as_str()? {
            "nonzero" => MC::NonZero,
            "exact" => MC::Exact(big("a")?),
            "atleast" => MC::AtLeast(big("a")?),
            "exact_ids" => MC::ExactIds(mask("ids")?),
            "atleast_ids" => MC::AtLeastIds(mask("ids")?),
            "general" => MC::General(MGeneral {
                required: mask("req")?,
                lower: match v.get("lo")?.as_str()? {
                    "nonzero" => MLower::NonZero,
                    s => MLower::Incl(BigInt::from_str(s).ok()?),
                },
                upper: match v.get("hi")?.as_str()? {
                    "unbounded" => MUpper::Unbounded,
                    s => MUpper::Incl(BigInt::from_str(s).ok()?),
                },
                allowed: match v.get("allow") {
                    Some(Value::Null) | None => None,
                    Some(x) => Some(x.as_u64()? as u8),
                },
            }),
            _ => return None,
        })
    }
}

fn amount_grid(c: &MC) -> Vec<BigInt> {
    let e = one_e18();
    let mx = max_attos();
    let mut v: Vec<BigInt> = vec![
        BigInt::zero(),
        BigInt::one(),
        BigInt::from(2),
        &e - 1,
        e.clone(),
        &e + 1,
        &e * 7,
        &e * 7 + 1,
        mx.clone(),
        &mx - 1,
    ];
    for n in c.numbers() {
        v.push(&n - 1);
        v.push(n.clone());
        v.push(&n + 1);
    }
    v.retain(|a| !a.is_negative() && a <= &mx);
    v.sort();
    v.dedup();
    v
}

fn code_accepts_fungible(c: &ManifestResourceConstraint, a: &BigInt) -> Result<bool, rv_common::PanicInfo> {
    let c = c.clone();
    let d = dec(a);
    catch(move || c.validate_fungible(d).is_ok())
}
fn code_accepts_nf(c: &ManifestResourceConstraint, ids: &IndexSet<NonFungibleLocalId>) -> Result<bool, rv_common::PanicInfo> {
    let c = c.clone();
    let ids = ids.clone();
    catch(move || c.validate_non_fungible(&ids).is_ok())
}

/// Witness balance for a fungible constraint under the mathematical meaning.
fn witness_fungible(c: &MC) -> Option<BigInt> {
    let cands: Vec<BigInt> = {
        let mut v = vec![BigInt::zero(), BigInt::one()];
        v.extend(c.numbers());
        v
    };
    let mx = max_attos();
    cands.into_iter().find(|a| !a.is_negative() && a <= &mx && c.sat_fungible(a))
}

/// Witness (mask, fresh) for a non-fungible constraint; Err(()) when a witness would need too many ids.
fn witness_nf(c: &MC) -> Result<Option<(u8, usize)>, ()> {
    // smallest balances first: try every universe subset with 0..=MAXF fresh ids
    const MAXF: usize = 40;
    // quick bound: if the constraint's numbers ask for more than 7+MAXF ids we cannot build it
    for fresh in 0..=MAXF {
        for mask in 0..=FULL {
            if c.sat_nf(mask, fresh) {
                return Ok(Some((mask, fresh)));
            }
        }
        // fresh ids only help when an amount needs them
        if c.numbers().is_empty() && fresh >= 1 {
            break;
        }
    }
    let e = one_e18();
    let limit_n = BigInt::from(U + MAXF);
    let ceil_n = |d: &BigInt| -> BigInt {
        if d.is_negative() {
            BigInt::zero()
        } else {
            (d + &e - 1) / &e
        }
    };
    // nothing found among balances of up to 7 + MAXF ids: can a larger balance satisfy it?
    match c {
        MC::Exact(d) => {
            if !d.is_negative() && (d % &e).is_zero() && d / &e > limit_n {
                Err(())
            } else {
                Ok(None)
            }
        }
        MC::AtLeast(d) => {
            if ceil_n(d) > limit_n {
                Err(())
            } else {
                Ok(None)
            }
        }
        MC::General(g) if g.allowed.is_none() => {
            let lo_n = match &g.lower {
                MLower::NonZero => BigInt::one(),
                MLower::Incl(d) => ceil_n(d),
            };
            let n_min = lo_n.max(BigInt::from(g.required.count_ones()));
            if n_min > limit_n && g.upper.sat(&(&n_min * &e)) {
                Err(())
            } else {
                Ok(None)
            }
        }
        // an allow-list caps the balance at universe ids: the search above was exhaustive
        _ => Ok(None),
    }
}

fn lower_class(l: &MLower) -> u8 {
    match l {
        MLower::NonZero => 0,
        MLower::Incl(d) if d.is_zero() => 1,
        MLower::Incl(d) if d.is_negative() => 2,
        MLower::Incl(d) if (d % one_e18()).is_zero() => 3,
        MLower::Incl(_) => 4,
    }
}
fn upper_class(u: &MUpper) -> u8 {
    match u {
        MUpper::Unbounded => 0,
        MUpper::Incl(d) if d.is_zero() => 1,
        MUpper::Incl(d) if d.is_negative() => 2,
        MUpper::Incl(d) if (d % one_e18()).is_zero() => 3,
        MUpper::Incl(_) => 4,
    }
}

/// Full check of one constraint against one resource kind.
pub fn check_single(c: &MC, fungible: bool, order: u64, shard: &mut Shard) {
    let case = json!({"case": "single", "fungible": fungible, "constraint": c.to_json(), "order": order});
    let code = c.to_code(order);
    let valid = {
        let code = code.clone();
        match catch(move || if fungible { code.is_valid_for_fungible_use() } else { code.is_valid_for_non_fungible_use() }) {
            Ok(v) => v,
            Err(p) => {
                shard.violation("validity-check-panic", json!({"case": case, "panic": p.summary()}));
                return;
            }
        }
    };
    let rk = if fungible { "fungible" } else { "nonfungible" };
    shard.count(&format!("constraints:{}:{rk}:{}", c.kind(), if valid { "valid" } else { "invalid" }));
    shard.seen("constraint_kinds", c.kind());

    // normalised twin (general constraints declared valid)
    let normalized: Option<ManifestResourceConstraint> = match (&code, valid) {
        (ManifestResourceConstraint::General(g), true) => {
            let mut g2 = g.clone();
            match catch(std::panic::AssertUnwindSafe(|| {
                g2.normalize();
                g2
            })) {
                Ok(g2) => {
                    shard.count("normalized_constraints");
                    if &g2 != g {
                        shard.count("normalize_changed_fields");
                    }
                    let still_valid = if fungible { g2.is_valid_for_fungible_use() } else { g2.is_valid_for_non_fungible_use() };
                    if !still_valid {
                        shard.count("normalized_form_not_valid(informational)");
                    }
                    Some(ManifestResourceConstraint::General(g2))
                }
                Err(p) => {
                    shard.violation("normalize-panic", json!({"case": case, "panic": p.summary()}));
                    None
                }
            }
        }
        _ => None,
    };

    let mut accepted = 0u32;
    let mut total = 0u32;
    let mut judge = |shard: &mut Shard, bal: Value, want: bool, got: Result<bool, rv_common::PanicInfo>, gotn: Option<Result<bool, rv_common::PanicInfo>>| {
        shard.eval();
        total += 1;
        match got {
            Err(p) => {
                if valid {
                    shard.violation(format!("validate-panic:{}", c.kind()), json!({"case": case, "balance": bal, "panic": p.summary()}));
                } else {
                    shard.count("invalid_constraint_validate_panics(informational)");
                }
            }
            Ok(got) => {
                if got {
                    accepted += 1;
                }
                if valid {
                    shard.count(if want { "valid:should-accept" } else { "valid:should-reject" });
                    if got != want {
                        let dir = if got { "accepts-unsatisfying-balance" } else { "rejects-satisfying-balance" };
                        shard.violation(format!("{}:{rk}:{dir}", c.kind()), json!({"case": case, "balance": bal, "meaning": want, "code": got}));
                    }
                } else if got != want {
                    shard.count("invalid_constraint_differs_from_meaning(informational)");
                }
            }
        }
        if let Some(gn) = gotn {
            shard.eval();
            shard.count("normalize_comparisons");
            match gn {
                Err(p) => shard.violation("normalize:normalized-validate-panic", json!({"case": case, "balance": bal, "panic": p.summary()})),
                Ok(gn) => {
                    if gn != want {
                        let dir = if gn { "widens" } else { "narrows" };
                        // shape of the constraint, so that one known defect does not mask others
                        let shape = match c {
                            MC::General(g) if fungible && g.allowed == Some(0) && g.upper.sat(&BigInt::one()) => "empty-allowlist-with-positive-upper-bound",
                            MC::General(g) if g.allowed.is_some() => "allowlist",
                            _ => "no-allowlist",
                        };
                        shard.violation(
                            format!("normalize:{rk}:{shape}:{dir}-accepted-set"),
                            json!({"case": case, "balance": bal, "meaning_of_original": want, "normalized_accepts": gn,
                                   "normalized": format!("{:?}", normalized)}),
                        );
                    }
                }
            }
        }
    };

    if fungible {
        for a in amount_grid(c) {
            let want = c.sat_fungible(&a);
            let got = code_accepts_fungible(&code, &a);
            let gotn = normalized.as_ref().map(|n| code_accepts_fungible(n, &a));
            judge(shard, json!({"amount_attos": a.to_string()}), want, got, gotn);
        }
    } else {
        for fresh in 0..3usize {
            for mask in 0..=FULL {
                let ids = balance_ids(mask, fresh);
                let want = c.sat_nf(mask, fresh);
                let got = code_accepts_nf(&code, &ids);
                let gotn = normalized.as_ref().map(|n| code_accepts_nf(n, &ids));
                judge(shard, json!({"ids_mask": mask, "fresh_ids": fresh}), want, got, gotn);
            }
        }
    }
    drop(judge);

    // valid => satisfiable (witness), checked against the code as well
    if valid {
        if fungible {
            match witness_fungible(c) {
                Some(a) => {
                    shard.count("witness_built");
                    match code_accepts_fungible(&code, &a) {
                        Ok(true) => {}
                        other => shard.violation(
                            format!("{}:fungible:rejects-satisfying-balance", c.kind()),
                            json!({"case": case, "balance": {"amount_attos": a.to_string()}, "code": format!("{other:?}")}),
                        ),
                    }
                }
                None => shard.violation(format!("valid-but-unsatisfiable:fungible:{}", c.kind()), json!({"case": case})),
            }
        } else {
            match witness_nf(c) {
                Ok(Some((mask, fresh))) => {
                    shard.count("witness_built");
                    shard.max("witness_fresh_ids", fresh as u64);
                    match code_accepts_nf(&code, &balance_ids(mask, fresh)) {
                        Ok(true) => {}
                        other => shard.violation(
                            format!("{}:nonfungible:rejects-satisfying-balance", c.kind()),
                            json!({"case": case, "balance": {"ids_mask": mask, "fresh_ids": fresh}, "code": format!("{other:?}")}),
                        ),
                    }
                }
                Ok(None) => shard.violation(format!("valid-but-unsatisfiable:nonfungible:{}", c.kind()), json!({"case": case})),
                Err(()) => shard.count("witness_needs_too_many_ids_skipped"),
            }
        }
    }

    let sig = match c {
        MC::General(g) => (
            c.kind(), fungible, valid, lower_class(&g.lower), upper_class(&g.upper),
            g.required.count_ones(), g.allowed.map(|a| a.count_ones() + 1).unwrap_or(0), accepted, total,
        ),
        MC::Exact(d) | MC::AtLeast(d) => (c.kind(), fungible, valid, lower_class(&MLower::Incl(d.clone())), 0, 0, 0, accepted, total),
        MC::ExactIds(m) | MC::AtLeastIds(m) => (c.kind(), fungible, valid, 0, 0, m.count_ones(), 0, accepted, total),
        MC::NonZero => (c.kind(), fungible, valid, 0, 0, 0, 0, accepted, total),
    };
    shard.nontrivial(&sig);
    if valid && accepted > 0 && accepted < total {
        shard.count("valid_constraints_with_mixed_outcomes");
    }
}

// ---------------------------------------------------------------------------------------------
// Constraint sets
// ---------------------------------------------------------------------------------------------
fn resource(i: usize) -> ResourceAddress {
    // 0,1 fungible; 2,3 non-fungible; 4 fungible never specified; 5 non-fungible never specified
    let mut b = [0u8; 30];
    b[0] = if matches!(i, 0 | 1 | 4) { 93 } else { 154 };
    b[29] = i as u8 + 1;
    b[1] = 0x5a;
    ResourceAddress::try_from(b).expect("harness: resource address")
}
fn is_fungible_res(i: usize) -> bool {
    matches!(i, 0 | 1 | 4)
}

#[derive(Clone, Debug)]
pub struct MBalances {
    fungible: Vec<(usize, BigInt)>, // adds in order (may repeat a resource)
    nf: Vec<(usize, u8, usize)>,    // adds: (resource, mask, fresh)
}

pub fn check_plural(cs: &[(usize, MC)], balance_seed: u64, order: u64, shard: &mut Shard) {
    let case = json!({"case": "plural", "constraints": cs.iter().map(|(r, c)| json!([r, c.to_json()])).collect::<Vec<_>>(),
                      "balance_seed": balance_seed.to_string(), "order": order});
    let build = || {
        let mut m = ManifestResourceConstraints::new();
        for (r, c) in cs {
            m = m.with_unchecked(resource(*r), c.to_code(order));
        }
        m
    };
    let set = build();
    let valid = match catch(std::panic::AssertUnwindSafe(|| set.is_valid())) {
        Ok(v) => v,
        Err(p) => {
            shard.violation("validity-check-panic", json!({"case": case, "panic": p.summary()}));
            return;
        }
    };
    shard.count(if valid { "constraint_sets:valid" } else { "constraint_sets:invalid" });
    if !valid {
        return;
    }
    shard.max("constraint_set_size", cs.len() as u64);
    let mut rng = Rng::new(balance_seed);
    // witness first, then random balances around it
    let mut witness: Option<MBalances> = Some(MBalances { fungible: vec![], nf: vec![] });
    for (r, c) in cs {
        if is_fungible_res(*r) {
            match witness_fungible(c) {
                Some(a) => {
                    if let Some(w) = &mut witness {
                        w.fungible.push((*r, a))
                    }
                }
                None => {
                    shard.violation(format!("valid-but-unsatisfiable:fungible:{}", c.kind()), json!({"case": case, "resource": r}));
                    witness = None;
                }
            }
        } else {
            match witness_nf(c) {
                Ok(Some((m, f))) => {
                    if let Some(w) = &mut witness {
                        w.nf.push((*r, m, f))
                    }
                }
                Ok(None) => {
                    shard.violation(format!("valid-but-unsatisfiable:nonfungible:{}", c.kind()), json!({"case": case, "resource": r}));
                    witness = None;
                }
                Err(()) => {
                    shard.count("witness_needs_too_many_ids_skipped");
                    witness = None;
                }
            }
        }
    }
    let mut balances: Vec<(&'static str, MBalances)> = vec![];
    if let Some(w) = &witness {
        shard.count("set_witness_built");
        balances.push(("witness", w.clone()));
        // witness + something unspecified
        let mut w2 = w.clone();
        if rng.bool() {
            w2.fungible.push((4, if rng.bool() { BigInt::one() } else { one_e18() }));
        } else {
            w2.nf.push((5, 1 << rng.below(7), 0));
        }
        balances.push(("witness+unspecified", w2));
        // witness with a zero add of an unspecified resource (must not matter)
        let mut w3 = w.clone();
        w3.fungible.push((4, BigInt::zero()));
        w3.nf.push((5, 0, 0));
        balances.push(("witness+empty-unspecified", w3));
    }
    for _ in 0..12 {
        let mut b = witness.clone().filter(|_| rng.bool()).unwrap_or(MBalances { fungible: vec![], nf: vec![] });
        // perturb: drop one entry, add amounts, add ids
        if !b.fungible.is_empty() && rng.chance(1, 3) {
            let i = rng.usize_below(b.fungible.len());
            b.fungible.remove(i);
        }
        if !b.nf.is_empty() && rng.chance(1, 3) {
            let i = rng.usize_below(b.nf.len());
            b.nf.remove(i);
        }
        for _ in 0..rng.below(3) {
            let r = *rng.pick(&[0usize, 1, 4]);
            let a = match rng.below(5) {
                0 => BigInt::zero(),
                1 => BigInt::one(),
                2 => one_e18() * rng.below(9),
                3 => one_e18() * rng.below(9) + 1,
                _ => {
                    let nums: Vec<BigInt> = cs.iter().flat_map(|(_, c)| c.numbers()).filter(|n| !n.is_negative() && n < &(max_attos() >> 3)).collect();
                    if nums.is_empty() { BigInt::from(rng.below(1000)) } else { rng.pick(&nums).clone() }
                }
            };
            b.fungible.push((r, a));
        }
        for _ in 0..rng.below(3) {
            let r = *rng.pick(&[2usize, 3, 5]);
            b.nf.push((r, rng.u8() & FULL & rng.u8(), rng.below(2) as usize));
        }
        balances.push(("random", b));
    }

    for (what, b) in balances {
        // model totals
        let mut famt: Vec<BigInt> = vec![BigInt::zero(); 6];
        let mut nmask = [0u8; 6];
        let mut nfresh = [0usize; 6];
        let mut overflow = false;
        for (r, a) in &b.fungible {
            famt[*r] += a;
            if famt[*r] > max_attos() {
                overflow = true;
            }
        }
        if overflow {
            continue;
        }
        for (r, m, f) in &b.nf {
            nmask[*r] |= m;
            nfresh[*r] = nfresh[*r].max(*f); // fresh ids are fresh_id(0..f): union = max
        }
        let spec_ok = cs.iter().all(|(r, c)| if is_fungible_res(*r) { c.sat_fungible(&famt[*r]) } else { c.sat_nf(nmask[*r], nfresh[*r]) });
        let unspecified_zero = (0..6).all(|r| {
            cs.iter().any(|(cr, _)| *cr == r) || if is_fungible_res(r) { famt[r].is_zero() } else { nmask[r] == 0 && nfresh[r] == 0 }
        });
        for only in [false, true] {
            let want = spec_ok && (!only || unspecified_zero);
            // AggregateResourceBalances is consumed: rebuild it for the second mode
            let agg2 = {
                let mut a2 = AggregateResourceBalances::new();
                for (r, a) in &b.fungible {
                    a2.add_fungible(resource(*r), dec(a));
                }
                for (r, m, f) in &b.nf {
                    a2.add_non_fungible(resource(*r), balance_ids(*m, *f));
                }
                a2
            };
            let set = build();
            let got = catch(std::panic::AssertUnwindSafe(move || if only { agg2.validate_only(set).is_ok() } else { agg2.validate_includes(set).is_ok() }));
            shard.eval();
            shard.count(if only { "set_evaluations:only" } else { "set_evaluations:includes" });
            let bal = json!({"kind": what, "fungible": b.fungible.iter().map(|(r, a)| json!([r, a.to_string()])).collect::<Vec<_>>(),
                             "nf": b.nf.iter().map(|(r, m, f)| json!([r, m, f])).collect::<Vec<_>>(), "only": only});
            match got {
                Err(p) => shard.violation("set-validate-panic", json!({"case": case, "balance": bal, "panic": p.summary()})),
                Ok(got) => {
                    shard.count(if want { "set:should-accept" } else { "set:should-reject" });
                    shard.nontrivial(&("set", cs.len(), only, want, what, spec_ok, unspecified_zero));
                    if got != want {
                        let dir = if got { "accepts-unsatisfying-balances" } else { "rejects-satisfying-balances" };
                        shard.violation(format!("constraint-set:{}:{dir}", if only { "only" } else { "includes" }),
                            json!({"case": case, "balance": bal, "meaning": want, "code": got}));
                    }
                }
            }
        }
    }
}

// ---------------------------------------------------------------------------------------------
// Generators
// ---------------------------------------------------------------------------------------------
fn gen_amount(rng: &mut Rng, integral_bias: bool) -> BigInt {
    let e = one_e18();
    match rng.below(if integral_bias { 14 } else { 20 }) {
        0 => BigInt::zero(),
        1..=7 => &e * rng.below(10),
        8 => &e * rng.range(40, 60),
        9 => max_attos(),
        10 => (max_attos() / &e) * &e, // largest integral
        11 => &e * rng.below(10),
        12 => BigInt::from(-1),
        13 => -&e * rng.range(1, 3),
        14 => BigInt::one(),
        15 => BigInt::from(2),
        16 => &e * rng.below(10) + 1,
        17 => &e * rng.range(1, 9) - 1,
        18 => &e / 2 + &e * rng.below(3),
        _ => BigInt::from(rng.u128() >> rng.below(100)) >> 1,
    }
}

fn gen_mask(rng: &mut Rng) -> u8 {
    match rng.below(6) {
        0 => 0,
        1 => FULL,
        2 => 1 << rng.below(7),
        _ => rng.u8() & FULL,
    }
}

fn gen_general(rng: &mut Rng, fungible: bool) -> MGeneral {
    let plausible = rng.chance(3, 4);
    let required = if fungible && rng.chance(9, 10) { 0 } else if rng.chance(1, 3) { 0 } else { gen_mask(rng) & gen_mask(rng) | (rng.chance(1, 2) as u8) << rng.below(7) };
    let allowed = if fungible {
        match rng.below(10) {
            0..=5 => None,
            6..=8 => Some(0),
            _ => Some(gen_mask(rng)),
        }
    } else {
        match rng.below(3) {
            0 => None,
            _ => Some(if plausible { gen_mask(rng) | required } else { gen_mask(rng) }),
        }
    };
    let lower = match rng.below(5) {
        0 => MLower::NonZero,
        1 => MLower::Incl(BigInt::zero()),
        _ => MLower::Incl(gen_amount(rng, !fungible)),
    };
    let upper = match rng.below(4) {
        0 => MUpper::Unbounded,
        _ => {
            let mut u = gen_amount(rng, !fungible);
            if plausible {
                if let MLower::Incl(l) = &lower {
                    if &u < l {
                        u = l + one_e18() * rng.below(4);
                        if u > max_attos() {
                            u = max_attos();
                        }
                    }
                }
                let need = one_e18() * required.count_ones();
                if u < need && rng.chance(2, 3) {
                    u = need + one_e18() * rng.below(3);
                }
            }
            MUpper::Incl(u)
        }
    };
    MGeneral { required, lower, upper, allowed }
}

fn gen_constraint(rng: &mut Rng, fungible: bool) -> MC {
    match rng.below(12) {
        0 => MC::NonZero,
        1 => MC::Exact(gen_amount(rng, !fungible)),
        2 => MC::AtLeast(gen_amount(rng, !fungible)),
        3 => MC::ExactIds(gen_mask(rng)),
        4 => MC::AtLeastIds(gen_mask(rng)),
        _ => MC::General(gen_general(rng, fungible)),
    }
}

/// All "small" general constraints: exhaustive sweep over a compact parameter grid.
fn sweep_general(idx: usize, threads: usize, shard: &mut Shard) {
    let e = one_e18();
    let lowers: Vec<MLower> = vec![
        MLower::NonZero,
        MLower::Incl(BigInt::zero()),
        MLower::Incl(BigInt::one()),
        MLower::Incl(e.clone()),
        MLower::Incl(&e * 2),
        MLower::Incl(&e * 3),
        MLower::Incl(&e * 7),
        MLower::Incl(&e * 8),
    ];
    let uppers: Vec<MUpper> = vec![
        MUpper::Unbounded,
        MUpper::Incl(BigInt::zero()),
        MUpper::Incl(BigInt::one()),
        MUpper::Incl(e.clone()),
        MUpper::Incl(&e * 2),
        MUpper::Incl(&e * 3),
        MUpper::Incl(&e * 7),
        MUpper::Incl(max_attos()),
    ];
    let masks: [u8; 6] = [0, 0b1, 0b11, 0b0110, 0b111, FULL];
    let mut n = 0usize;
    for l in &lowers {
        for u in &uppers {
            for req in masks {
                for al in [None, Some(0u8), Some(0b1), Some(0b11), Some(0b111), Some(0b1110), Some(FULL)] {
                    n += 1;
                    if n % threads != idx {
                        continue;
                    }
                    let g = MGeneral { required: req, lower: l.clone(), upper: u.clone(), allowed: al };
                    shard.count("sweep_constraints");
                    check_single(&MC::General(g.clone()), false, n as u64, shard);
                    if req == 0 {
                        check_single(&MC::General(g), true, n as u64, shard);
                    }
                }
            }
        }
    }
}

pub fn run(args: &Args) -> i32 {
    let spec = Spec::new(
        "C37",
        "exploration",
        "for every constraint the code declares valid for the resource kind: validate_fungible / validate_non_fungible accept a \
         balance iff the exact-integer meaning holds (all 128 subsets of a 7-id universe x {0,1,2} foreign ids; amount grid with \
         0, 1 atto, every bound +-1 atto, MAX); normalize() leaves the accepted set unchanged; declared-valid => a witness \
         balance exists and is accepted; constraint sets: validate_only / validate_includes agree with the conjunction",
    )
    .assume("accept-iff is demanded only for constraints the code itself declares valid for the resource kind (validate_* document validity as a precondition; the static manifest validator enforces it)")
    .assume("a fungible balance has no ids: required ids must be empty and an allow-list is vacuous for it")
    .assume("balances are non-negative and at most Decimal::MAX")
    .floor("evaluations", args.tier.pick(16666666, 250000000))
    .floor("normalize_comparisons", args.tier.pick(4166666, 66666666))
    .floor("normalize_changed_fields", args.tier.pick(8333, 116666))
    .floor("witness_built", args.tier.pick(33333, 500000))
    .floor("valid:should-accept", args.tier.pick(2500000, 33333333))
    .floor("valid:should-reject", args.tier.pick(5000000, 83333333))
    .floor("valid_constraints_with_mixed_outcomes", args.tier.pick(25000, 333333))
    .floor("constraints:General:nonfungible:valid", args.tier.pick(10000, 166666))
    .floor("constraints:General:fungible:valid", args.tier.pick(5000, 83333))
    .floor("set:should-accept", args.tier.pick(83333, 1333333))
    .floor("set:should-reject", args.tier.pick(166666, 2500000))
    .explain("evaluations = (constraint, balance) validations compared with the meaning (original and normalised form counted separately); \
              distinct_nontrivial = distinct (constraint kind, resource kind, validity, bound classes, |required|, |allowlist|, accepted/total) behaviours");
    let mut report = Report::new(args, spec);

    if let Some(path) = &args.replay {
        let detail = crate::load_replay_detail(path);
        let case = detail.get("case").cloned().unwrap_or(Value::Null);
        let order = case.get("order").and_then(|o| o.as_u64()).unwrap_or(0);
        return crate::replay_with("C37", |shard| match case.get("case").and_then(|c| c.as_str()) {
            Some("single") => {
                if let Some(c) = MC::from_json(&case["constraint"]) {
                    check_single(&c, case["fungible"].as_bool().unwrap_or(false), order, shard);
                }
            }
            Some("plural") => {
                let cs: Vec<(usize, MC)> = case["constraints"]
                    .as_array()
                    .map(|a| a.iter().filter_map(|p| Some((p.get(0)?.as_u64()? as usize, MC::from_json(p.get(1)?)?))).collect())
                    .unwrap_or_default();
                let seed = case["balance_seed"].as_str().and_then(|s| s.parse().ok()).unwrap_or(0);
                check_plural(&cs, seed, order, shard);
            }
            other => eprintln!("unknown replay case {other:?}"),
        });
    }

    let total = rv_common::scaled(args, args.tier.pick(300_000_000, 8_000_000_000));
    let per_shard = total / args.threads as u64 + 1;
    let budget = Duration::from_secs(rv_common::budget_secs(args.tier, 45, 720));
    let threads = args.threads;
    report.run_shards(37, args.threads, budget, |idx, rng, shard| {
        sweep_general(idx, threads, shard);
        while shard.evaluations < per_shard && !shard.time_up() {
            let order = rng.u64();
            if rng.chance(1, 6) {
                // constraint set
                let n = rng.range(1, 4) as usize;
                let mut rs = vec![0usize, 1, 2, 3];
                rng.shuffle(&mut rs);
                let cs: Vec<(usize, MC)> = rs[..n].iter().map(|r| {
                    // bias towards constraints valid for the resource kind
                    let f = is_fungible_res(*r);
                    let mut c = gen_constraint(rng, f);
                    for _ in 0..6 {
                        let code = c.to_code(0);
                        if code.is_valid_for(&resource(*r)) {
                            break;
                        }
                        c = gen_constraint(rng, f);
                    }
                    (*r, c)
                }).collect();
                check_plural(&cs, rng.u64(), order, shard);
            } else {
                let fungible = rng.chance(1, 3);
                let c = gen_constraint(rng, fungible);
                check_single(&c, fungible, order, shard);
                if shard.want_sample() && rng.chance(1, 2000) {
                    shard.sample(|| json!({"fungible": fungible, "constraint": c.to_json()}));
                }
            }
        }
    });
    report.finish()
}
