//! Independent Bech32 / Bech32m reference (BIP-173 / BIP-350), written from the BIPs.
//! Used as the oracle for "encodes to Bech32m text" and to craft hostile texts.

const CHARSET: &[u8; 32] = b"qpzry9x8gf2tvdw0s3jn54khce6mua7l";
pub const BECH32M_CONST: u32 = 0x2bc830a3;
pub const BECH32_CONST: u32 = 1;

fn polymod(values: &[u8]) -> u32 {
    const GEN: [u32; 5] = [0x3b6a57b2, 0x26508e6d, 0x1ea119fa, 0x3d4233dd, 0x2a1462b3];
    let mut chk: u32 = 1;
    for v in values {
        let b = chk >> 25;
        chk = ((chk & 0x1ffffff) << 5) ^ (*v as u32);
        for (i, g) in GEN.iter().enumerate() {
            if (b >> i) & 1 == 1 {
                chk ^= g;
            }
        }
    }
    chk
}

fn hrp_expand(hrp: &str) -> Vec<u8> {
    let mut v: Vec<u8> = hrp.bytes().map(|b| b >> 5).collect();
    v.push(0);
    v.extend(hrp.bytes().map(|b| b & 31));
    v
}

pub fn to_5bit(data: &[u8]) -> Vec<u8> {
    let mut acc: u32 = 0;
    let mut bits = 0;
    let mut out = vec![];
    for b in data {
        acc = (acc << 8) | *b as u32;
        bits += 8;
        while bits >= 5 {
            bits -= 5;
            out.push(((acc >> bits) & 31) as u8);
        }
    }
    if bits > 0 {
        out.push(((acc << (5 - bits)) & 31) as u8);
    }
    out
}

/// 5-bit groups to bytes, strict padding rules of BIP-173 (at most 4 zero padding bits).
pub fn from_5bit(data: &[u8]) -> Option<Vec<u8>> {
    let mut acc: u32 = 0;
    let mut bits = 0;
    let mut out = vec![];
    for v in data {
        acc = ((acc << 5) | *v as u32) & 0xfff;
        bits += 5;
        if bits >= 8 {
            bits -= 8;
            out.push(((acc >> bits) & 0xff) as u8);
        }
    }
    if bits >= 5 || (acc & ((1 << bits) - 1)) != 0 {
        return None;
    }
    Some(out)
}

/// Encodes with an arbitrary checksum constant (lower-case hrp expected).
pub fn encode_with_const(hrp: &str, data: &[u8], constant: u32) -> String {
    let d5 = to_5bit(data);
    let mut values = hrp_expand(hrp);
    values.extend_from_slice(&d5);
    values.extend_from_slice(&[0; 6]);
    let pm = polymod(&values) ^ constant;
    let mut s = String::from(hrp);
    s.push('1');
    for v in &d5 {
        s.push(CHARSET[*v as usize] as char);
    }
    for i in 0..6 {
        s.push(CHARSET[((pm >> (5 * (5 - i))) & 31) as usize] as char);
    }
    s
}

#[derive(Debug, Clone, PartialEq, Eq)]
pub struct Decoded {
    pub hrp: String,
    pub data: Vec<u8>,
    /// checksum residue: BECH32M_CONST for Bech32m, 1 for Bech32
    pub residue: u32,
}

/// Reference decoder: None when the text is not well formed Bech32(m) (any checksum constant is
/// reported through `residue`). Follows the BIP rules: length <= 90 is NOT enforced here because
/// Radix addresses are longer than 90 characters for some HRPs (the bech32 crate does not enforce it
/// either); everything else (charset, case, separator, padding) is.
pub fn decode(text: &str) -> Option<Decoded> {
    if !text.is_ascii() {
        return None;
    }
    let has_lower = text.bytes().any(|b| b.is_ascii_lowercase());
    let has_upper = text.bytes().any(|b| b.is_ascii_uppercase());
    if has_lower && has_upper {
        return None;
    }
    let lower = text.to_ascii_lowercase();
    let pos = lower.rfind('1')?;
    let (hrp, rest) = (&lower[..pos], &lower[pos + 1..]);
    if hrp.is_empty() || rest.len() < 6 {
        return None;
    }
    if hrp.bytes().any(|b| !(33..=126).contains(&b)) {
        return None;
    }
    let mut d5 = vec![];
    for c in rest.bytes() {
        d5.push(CHARSET.iter().position(|x| *x == c)? as u8);
    }
    let mut values = hrp_expand(hrp);
    values.extend_from_slice(&d5);
    let residue = polymod(&values);
    let payload = &d5[..d5.len() - 6];
    let data = from_5bit(payload)?;
    Some(Decoded { hrp: hrp.to_string(), data, residue })
}

pub fn split_hrp(text: &str) -> Option<(&str, &str)> {
    let pos = text.rfind('1')?;
    Some((&text[..pos], &text[pos + 1..]))
}

pub fn charset() -> &'static [u8; 32] {
    CHARSET
}
