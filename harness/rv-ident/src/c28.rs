//! C28 - Addresses and identifiers have lossless, network-bound text forms.
//!
//! Oracles (independent of the code under test):
//!  * `bech.rs`: Bech32/Bech32m reference written from BIP-173/350 - the encoder's output must be
//!    lower-case Bech32m whose payload is exactly the 30 address bytes; anything the decoder accepts
//!    must be accepted by the reference with the same payload and the HRP of that entity on that network;
//!  * an entity-type class table written from the documentation of the entity bytes (which typed
//!    address may hold which entity byte);
//!  * a grammar + printer for non-fungible local ids written from the documented forms
//!    (`<[_0-9a-zA-Z]{1,64}>`, `#canonical u64#`, `[hex of 1..64 bytes]`, `{4 x 16 hex}`).
use crate::bech;
use radix_common::address::{AddressBech32Decoder, AddressBech32Encoder};
use radix_common::network::NetworkDefinition;
use radix_common::prelude::*;
use rv_common::{catch, hex as hx, unhex, Args, Report, Rng, Shard, Spec};
use serde_json::{json, Value};
use std::borrow::Cow;
use std::str::FromStr;
use std::time::Duration;

// ---------------------------------------------------------------------------------------------
// Networks
// ---------------------------------------------------------------------------------------------
const CUSTOM_SUFFIXES: &[&str] = &[
    "sim1", "si", "simm", "sim_", "_sim", "rdx1", "rdx_", "rd", "tdx_2", "tdx_21_", "tdx_2_1", "tdx_2__", "x", "1",
    "11", "sim1sim", "tdx_20_", "tdx_3_", "loc1loc", "q", "simq", "abcdefghijklmnopqrstuvwxyz0123456789_abcdefghijklmn",
];

pub struct Nets {
    pub defs: Vec<NetworkDefinition>,
    pub enc: Vec<AddressBech32Encoder>,
    pub dec: Vec<AddressBech32Decoder>,
    /// hrp_of[net][entity byte] for valid entity bytes (taken from honest encodings; only used to
    /// craft hostile texts and to name the expected HRP of an accepted text)
    pub hrp_of: Vec<Vec<Option<String>>>,
}

impl Nets {
    pub fn new() -> Nets {
        let mut defs = vec![
            NetworkDefinition::mainnet(),
            NetworkDefinition::stokenet(),
            NetworkDefinition::simulator(),
            NetworkDefinition::localnet(),
            NetworkDefinition::adapanet(),
            NetworkDefinition::nebunet(),
        ];
        for (i, s) in CUSTOM_SUFFIXES.iter().enumerate() {
            defs.push(NetworkDefinition {
                id: 100 + i as u8,
                logical_name: Cow::Owned(format!("custom{i}")),
                hrp_suffix: Cow::Owned(s.to_string()),
            });
        }
        let enc: Vec<_> = defs.iter().map(AddressBech32Encoder::new).collect();
        let dec: Vec<_> = defs.iter().map(AddressBech32Decoder::new).collect();
        let mut hrp_of = vec![];
        for e in &enc {
            let mut row = vec![None; 256];
            for (b, _) in ENTITIES {
                let mut data = [0u8; 30];
                data[0] = *b;
                if let Ok(t) = e.encode(&data) {
                    if let Some((h, _)) = bech::split_hrp(&t) {
                        row[*b as usize] = Some(h.to_string());
                    }
                }
            }
            hrp_of.push(row);
        }
        Nets { defs, enc, dec, hrp_of }
    }
    fn differs(&self, i: usize, j: usize) -> bool {
        self.defs[i].hrp_suffix != self.defs[j].hrp_suffix
    }
}

// ---------------------------------------------------------------------------------------------
// Entity classes (from the documentation of the entity type bytes)
// ---------------------------------------------------------------------------------------------
#[derive(Clone, Copy, PartialEq, Eq, Debug)]
pub enum Class {
    Package,
    Resource,
    Component,
    Internal,
}

pub const ENTITIES: &[(u8, Class)] = &[
    (13, Class::Package),
    (93, Class::Resource),
    (154, Class::Resource),
    (134, Class::Component),
    (131, Class::Component),
    (130, Class::Component),
    (192, Class::Component),
    (193, Class::Component),
    (194, Class::Component),
    (195, Class::Component),
    (196, Class::Component),
    (197, Class::Component),
    (198, Class::Component),
    (104, Class::Component),
    (209, Class::Component),
    (210, Class::Component),
    (81, Class::Component),
    (82, Class::Component),
    (88, Class::Internal),
    (152, Class::Internal),
    (248, Class::Internal),
    (176, Class::Internal),
];

fn class_of(b: u8) -> Option<Class> {
    ENTITIES.iter().find(|(e, _)| *e == b).map(|(_, c)| *c)
}

const TYPED: &[&str] = &["package", "resource", "component", "internal", "global"];

fn typed_accepts(typed: &str, c: Class) -> bool {
    match typed {
        "package" => c == Class::Package,
        "resource" => c == Class::Resource,
        "component" => c == Class::Component,
        "internal" => c == Class::Internal,
        "global" => c != Class::Internal,
        _ => unreachable!(),
    }
}

/// (parsed bytes, text printed back by the typed address) or None
fn typed_parse(typed: &str, dec: &AddressBech32Decoder, enc: &AddressBech32Encoder, s: &str) -> Option<(Vec<u8>, String)> {
    match typed {
        "package" => PackageAddress::try_from_bech32(dec, s).map(|a| (a.to_vec(), a.to_string(enc))),
        "resource" => ResourceAddress::try_from_bech32(dec, s).map(|a| (a.to_vec(), a.to_string(enc))),
        "component" => ComponentAddress::try_from_bech32(dec, s).map(|a| (a.to_vec(), a.to_string(enc))),
        "internal" => InternalAddress::try_from_bech32(dec, s).map(|a| (a.to_vec(), a.to_string(enc))),
        "global" => GlobalAddress::try_from_bech32(dec, s).map(|a| (a.to_vec(), a.to_string(enc))),
        _ => unreachable!(),
    }
}

// ---------------------------------------------------------------------------------------------
// Address checks
// ---------------------------------------------------------------------------------------------
fn addr_detail(e: u8, body: &[u8], net: usize) -> Value {
    json!({"case": "address", "entity": e, "body": hx(body), "net": net})
}

pub fn check_address(e: u8, body: &[u8], net: usize, nets: &Nets, rng: &mut Rng, shard: &mut Shard) {
    let mut data = vec![e];
    data.extend_from_slice(body);
    let class = class_of(e);
    let detail = addr_detail(e, body, net);
    shard.eval();
    shard.count("address_cases");
    let encoded = catch({
        let data = data.clone();
        let enc = &nets.enc[net];
        std::panic::AssertUnwindSafe(move || enc.encode(&data))
    });
    let text = match (encoded, class) {
        (Err(p), _) => {
            shard.violation("address:encode-panic", json!({"case": detail, "panic": p.summary()}));
            return;
        }
        (Ok(Err(_)), None) => {
            shard.count("address_invalid_entity_encode_rejected");
            shard.nontrivial(&("addr-invalid-entity", e));
            return;
        }
        (Ok(Ok(_)), None) => {
            shard.count("address_invalid_entity_encode_accepted(informational)");
            return;
        }
        (Ok(Err(err)), Some(_)) => {
            shard.violation("address:encode-failed", json!({"case": detail, "error": format!("{err:?}")}));
            return;
        }
        (Ok(Ok(t)), Some(_)) => t,
    };
    let class = class.unwrap();
    shard.nontrivial(&("addr", e, net, body.first().copied().unwrap_or(0) >> 5));
    shard.seen("entity_bytes", &e.to_string());
    shard.seen("networks", &nets.defs[net].hrp_suffix);

    // (1) the text is lower-case Bech32m over exactly the address bytes (reference decoder)
    match bech::decode(&text) {
        Some(d) if d.residue == bech::BECH32M_CONST && d.data == data && text == text.to_ascii_lowercase() => {}
        other => {
            shard.violation(
                "address:text-not-bech32m-of-address",
                json!({"case": detail, "text": text, "reference": format!("{other:?}")}),
            );
        }
    }
    let hrp = bech::split_hrp(&text).map(|x| x.0.to_string()).unwrap_or_default();
    if !hrp.ends_with(nets.defs[net].hrp_suffix.as_ref()) {
        shard.count("hrp_without_network_suffix(informational)");
    }

    // (2) decode on the same network returns the same address
    shard.eval();
    match catch(std::panic::AssertUnwindSafe(|| nets.dec[net].validate_and_decode(&text))) {
        Ok(Ok((et, d))) if d == data && et as u8 == e => shard.count("address_roundtrip_ok"),
        other => shard.violation(
            "address:roundtrip",
            json!({"case": detail, "text": text, "got": format!("{other:?}")}),
        ),
    }
    // upper-case form (allowed by Bech32): if accepted it must denote the same address
    let upper = text.to_ascii_uppercase();
    if let Ok(Ok((_, d))) = catch(std::panic::AssertUnwindSafe(|| nets.dec[net].validate_and_decode(&upper))) {
        shard.count("address_uppercase_accepted");
        if d != data {
            shard.violation("address:uppercase-denotes-other-address", json!({"case": detail, "text": upper}));
        }
    }

    // (3) typed addresses on the same network: accepted exactly by the matching types
    for typed in TYPED {
        shard.eval();
        let want = typed_accepts(typed, class);
        let got = catch(std::panic::AssertUnwindSafe(|| typed_parse(typed, &nets.dec[net], &nets.enc[net], &text)));
        match got {
            Err(p) => shard.violation("address:typed-parse-panic", json!({"case": detail, "typed": typed, "panic": p.summary()})),
            Ok(Some((bytes, printed))) => {
                if !want {
                    shard.violation(
                        "address:mismatched-entity-type-accepted",
                        json!({"case": detail, "typed": typed, "text": text}),
                    );
                } else if bytes != data || printed != text {
                    shard.violation(
                        "address:typed-roundtrip",
                        json!({"case": detail, "typed": typed, "text": text, "printed": printed, "bytes": hx(&bytes)}),
                    );
                } else {
                    shard.count("typed_accept_ok");
                }
            }
            Ok(None) => {
                if want {
                    shard.violation("address:typed-roundtrip", json!({"case": detail, "typed": typed, "text": text, "got": "None"}));
                } else {
                    shard.count("typed_mismatch_rejected");
                }
            }
        }
    }

    // (4) every other network rejects the text (untyped and typed)
    for j in 0..nets.defs.len() {
        if !nets.differs(net, j) {
            continue;
        }
        shard.eval();
        match catch(std::panic::AssertUnwindSafe(|| nets.dec[j].validate_and_decode(&text))) {
            Ok(Err(_)) => shard.count("other_network_rejected"),
            other => shard.violation(
                "address:accepted-on-other-network",
                json!({"case": detail, "text": text, "other_net": j, "other_suffix": nets.defs[j].hrp_suffix, "got": format!("{other:?}")}),
            ),
        }
    }
    // typed on a few other networks
    for _ in 0..3 {
        let j = rng.usize_below(nets.defs.len());
        if !nets.differs(net, j) {
            continue;
        }
        for typed in TYPED {
            shard.eval();
            match catch(std::panic::AssertUnwindSafe(|| typed_parse(typed, &nets.dec[j], &nets.enc[j], &text))) {
                Ok(None) => shard.count("other_network_rejected"),
                other => shard.violation(
                    "address:accepted-on-other-network",
                    json!({"case": detail, "text": text, "typed": typed, "other_net": j, "got": format!("{:?}", other.map(|o| o.map(|x| hx(&x.0))))}),
                ),
            }
        }
    }

    // (5) crafted texts with a valid checksum but the HRP of another entity class / network / variant
    let crafted: Vec<(&str, String)> = {
        let mut v = vec![];
        // other entity's hrp on this network
        for _ in 0..2 {
            let (e2, _) = *rng.pick(ENTITIES);
            if let Some(h2) = &nets.hrp_of[net][e2 as usize] {
                if *h2 != hrp {
                    v.push(("mismatched-entity-hrp", bech::encode_with_const(h2, &data, bech::BECH32M_CONST)));
                }
            }
        }
        // same entity's hrp of another network, checksum valid
        let j = rng.usize_below(nets.defs.len());
        if nets.differs(net, j) {
            if let Some(h2) = &nets.hrp_of[j][e as usize] {
                v.push(("other-network-hrp", bech::encode_with_const(h2, &data, bech::BECH32M_CONST)));
            }
        }
        // hrp truncated / extended by one char
        if hrp.len() > 1 {
            v.push(("hrp-truncated", bech::encode_with_const(&hrp[..hrp.len() - 1], &data, bech::BECH32M_CONST)));
            v.push(("hrp-truncated", bech::encode_with_const(&hrp[1..], &data, bech::BECH32M_CONST)));
        }
        v.push(("hrp-extended", bech::encode_with_const(&format!("{hrp}_"), &data, bech::BECH32M_CONST)));
        v.push(("hrp-extended", bech::encode_with_const(&format!("{hrp}1"), &data, bech::BECH32M_CONST)));
        // original Bech32 checksum instead of Bech32m
        v.push(("bech32-not-m", bech::encode_with_const(&hrp, &data, bech::BECH32_CONST)));
        v.push(("checksum-constant-0", bech::encode_with_const(&hrp, &data, 0)));
        v
    };
    for (what, t) in crafted {
        shard.eval();
        shard.count(&format!("crafted:{what}"));
        match catch(std::panic::AssertUnwindSafe(|| nets.dec[net].validate_and_decode(&t))) {
            Ok(Err(_)) => {}
            other => shard.violation(
                format!("address:{what}-accepted"),
                json!({"case": {"case": "address-text", "text": t, "net": net}, "origin": detail, "got": format!("{other:?}")}),
            ),
        }
        for typed in TYPED {
            if let Ok(Some(_)) | Err(_) = catch(std::panic::AssertUnwindSafe(|| typed_parse(typed, &nets.dec[net], &nets.enc[net], &t))) {
                shard.violation(
                    format!("address:{what}-accepted"),
                    json!({"case": {"case": "address-text", "text": t, "net": net}, "typed": typed, "origin": detail}),
                );
            }
        }
    }

    // (6) random mutations of the text
    for _ in 0..6 {
        let (kind, m) = mutate_address_text(&text, rng);
        check_address_text(&m, net, nets, shard, kind);
    }
}

fn mutate_address_text(text: &str, rng: &mut Rng) -> (&'static str, String) {
    let mut b: Vec<u8> = text.bytes().collect();
    let n = b.len();
    let cs = bech::charset();
    match rng.below(10) {
        0 => {
            let i = rng.usize_below(n);
            b[i] = cs[rng.usize_below(32)];
            ("subst", String::from_utf8_lossy(&b).into_owned())
        }
        1 => {
            let i = rng.usize_below(n);
            b[i] = b[i].to_ascii_uppercase();
            ("one-upper", String::from_utf8_lossy(&b).into_owned())
        }
        2 => {
            b.truncate(rng.usize_below(n));
            ("truncate", String::from_utf8_lossy(&b).into_owned())
        }
        3 => {
            b.push(cs[rng.usize_below(32)]);
            ("extend", String::from_utf8_lossy(&b).into_owned())
        }
        4 => {
            let (i, j) = (rng.usize_below(n), rng.usize_below(n));
            b.swap(i, j);
            ("swap", String::from_utf8_lossy(&b).into_owned())
        }
        5 => {
            // checksum edit (last six characters)
            let i = n - 1 - rng.usize_below(6.min(n));
            b[i] = cs[rng.usize_below(32)];
            ("checksum-edit", String::from_utf8_lossy(&b).into_owned())
        }
        6 => {
            let i = rng.usize_below(n);
            let mut s = String::from_utf8_lossy(&b[..i]).into_owned();
            s.push(*rng.pick(&['é', '١', ' ', '\0', '\n', 'b', 'i', 'o', '1', 'I']));
            s.push_str(&String::from_utf8_lossy(&b[i..]));
            ("insert-foreign", s)
        }
        7 => {
            // separator games
            let s = text.replacen('1', *rng.pick(&["", "11", "_", "l"]), 1);
            ("separator", s)
        }
        8 => {
            let i = rng.usize_below(n);
            b.remove(i);
            ("delete", String::from_utf8_lossy(&b).into_owned())
        }
        _ => {
            let s: String = text
                .chars()
                .map(|c| if rng.bool() { c.to_ascii_uppercase() } else { c })
                .collect();
            ("mixed-case", s)
        }
    }
}

/// Arbitrary text against the decoder of network `net`: must not panic; if accepted, the reference
/// must accept it as Bech32m with the same payload, a valid entity byte and that entity's HRP.
pub fn check_address_text(text: &str, net: usize, nets: &Nets, shard: &mut Shard, kind: &str) {
    shard.eval();
    shard.count("address_text_cases");
    let case = json!({"case": "address-text", "text": text, "net": net});
    let r = catch(std::panic::AssertUnwindSafe(|| nets.dec[net].validate_and_decode(text)));
    let reference = bech::decode(text);
    match r {
        Err(p) => shard.violation("address:decode-panic", json!({"case": case, "panic": p.summary()})),
        Ok(Err(_)) => {
            shard.count("address_text_rejected");
            shard.nontrivial(&("addr-text-rej", kind, text.len() / 8));
        }
        Ok(Ok((et, d))) => {
            shard.count("address_text_accepted");
            shard.nontrivial(&("addr-text-acc", kind, text.len() / 8));
            let ok = match &reference {
                Some(rf) => {
                    rf.residue == bech::BECH32M_CONST
                        && rf.data == d
                        && !d.is_empty()
                        && d[0] == et as u8
                        && class_of(d[0]).is_some()
                        && nets.hrp_of[net][d[0] as usize].as_deref() == Some(rf.hrp.as_str())
                }
                None => false,
            };
            if !ok {
                shard.violation(
                    "address:decode-accepts-invalid-text",
                    json!({"case": case, "mutation": kind, "decoded": hx(&d), "reference": format!("{reference:?}")}),
                );
            }
        }
    }
    for typed in TYPED {
        match catch(std::panic::AssertUnwindSafe(|| typed_parse(typed, &nets.dec[net], &nets.enc[net], text))) {
            Err(p) => shard.violation("address:typed-parse-panic", json!({"case": case, "typed": typed, "panic": p.summary()})),
            Ok(Some((bytes, _))) => {
                let ok = match &reference {
                    Some(rf) => {
                        rf.residue == bech::BECH32M_CONST
                            && rf.data == bytes
                            && bytes.len() == 30
                            && class_of(bytes[0]).map(|c| typed_accepts(typed, c)).unwrap_or(false)
                            && nets.hrp_of[net][bytes[0] as usize].as_deref() == Some(rf.hrp.as_str())
                    }
                    None => false,
                };
                if !ok {
                    shard.violation(
                        "address:decode-accepts-invalid-text",
                        json!({"case": case, "typed": typed, "mutation": kind, "decoded": hx(&bytes)}),
                    );
                }
            }
            Ok(None) => {}
        }
    }
}

// ---------------------------------------------------------------------------------------------
// Local id model, printer and grammar
// ---------------------------------------------------------------------------------------------
#[derive(Clone, Debug, PartialEq, Eq)]
pub enum MId {
    Str(String),
    Int(u64),
    Bytes(Vec<u8>),
    Ruid([u8; 32]),
}

fn lower_hex(b: &[u8]) -> String {
    const D: &[u8; 16] = b"0123456789abcdef";
    let mut s = String::new();
    for x in b {
        s.push(D[(x >> 4) as usize] as char);
        s.push(D[(x & 15) as usize] as char);
    }
    s
}

pub fn model_text(m: &MId) -> String {
    match m {
        MId::Str(s) => format!("<{s}>"),
        MId::Int(v) => {
            // own decimal printer
            let mut digits = vec![];
            let mut x = *v;
            loop {
                digits.push(b'0' + (x % 10) as u8);
                x /= 10;
                if x == 0 {
                    break;
                }
            }
            digits.reverse();
            format!("#{}#", String::from_utf8(digits).unwrap())
        }
        MId::Bytes(b) => format!("[{}]", lower_hex(b)),
        MId::Ruid(r) => {
            let h = lower_hex(r);
            format!("{{{}-{}-{}-{}}}", &h[0..16], &h[16..32], &h[32..48], &h[48..64])
        }
    }
}

fn model_valid(m: &MId) -> bool {
    match m {
        MId::Str(s) => {
            (1..=64).contains(&s.len()) && s.bytes().all(|b| b.is_ascii_alphanumeric() || b == b'_')
        }
        MId::Int(_) => true,
        MId::Bytes(b) => (1..=64).contains(&b.len()),
        MId::Ruid(_) => true,
    }
}

#[derive(Clone, Debug, PartialEq, Eq)]
pub enum G {
    /// canonical text of the id
    Valid(MId),
    /// hex with upper-case digits: denotes the id but is not the canonical text; a parser may accept or reject
    Grey(MId),
    Invalid,
}

fn hexval(c: u8) -> Option<(u8, bool)> {
    match c {
        b'0'..=b'9' => Some((c - b'0', false)),
        b'a'..=b'f' => Some((c - b'a' + 10, false)),
        b'A'..=b'F' => Some((c - b'A' + 10, true)),
        _ => None,
    }
}

/// (bytes, had upper-case digit)
fn parse_hex(s: &[u8]) -> Option<(Vec<u8>, bool)> {
    if s.len() % 2 != 0 {
        return None;
    }
    let mut out = vec![];
    let mut upper = false;
    for p in s.chunks(2) {
        let (h, u1) = hexval(p[0])?;
        let (l, u2) = hexval(p[1])?;
        upper |= u1 | u2;
        out.push(h << 4 | l);
    }
    Some((out, upper))
}

pub fn grammar(s: &str) -> G {
    let b = s.as_bytes();
    if b.len() < 2 {
        return G::Invalid;
    }
    let (first, last) = (b[0], b[b.len() - 1]);
    let inner = &b[1..b.len() - 1];
    match (first, last) {
        (b'<', b'>') => {
            if (1..=64).contains(&inner.len()) && inner.iter().all(|c| c.is_ascii_alphanumeric() || *c == b'_') {
                G::Valid(MId::Str(String::from_utf8(inner.to_vec()).unwrap()))
            } else {
                G::Invalid
            }
        }
        (b'#', b'#') => {
            if inner.is_empty() || !inner.iter().all(|c| c.is_ascii_digit()) {
                return G::Invalid;
            }
            if inner.len() > 1 && inner[0] == b'0' {
                return G::Invalid;
            }
            let mut v: u128 = 0;
            for c in inner {
                v = v * 10 + (*c - b'0') as u128;
                if v > u64::MAX as u128 {
                    return G::Invalid;
                }
            }
            G::Valid(MId::Int(v as u64))
        }
        (b'[', b']') => match parse_hex(inner) {
            Some((bytes, upper)) if (1..=64).contains(&bytes.len()) => {
                if upper {
                    G::Grey(MId::Bytes(bytes))
                } else {
                    G::Valid(MId::Bytes(bytes))
                }
            }
            _ => G::Invalid,
        },
        (b'{', b'}') => {
            if inner.len() != 67 || inner[16] != b'-' || inner[33] != b'-' || inner[50] != b'-' {
                return G::Invalid;
            }
            let mut hexs = vec![];
            for (i, c) in inner.iter().enumerate() {
                if i != 16 && i != 33 && i != 50 {
                    hexs.push(*c);
                }
            }
            match parse_hex(&hexs) {
                Some((bytes, upper)) if bytes.len() == 32 => {
                    let mut a = [0u8; 32];
                    a.copy_from_slice(&bytes);
                    if upper {
                        G::Grey(MId::Ruid(a))
                    } else {
                        G::Valid(MId::Ruid(a))
                    }
                }
                _ => G::Invalid,
            }
        }
        _ => G::Invalid,
    }
}

fn to_model(id: &NonFungibleLocalId) -> MId {
    match id {
        NonFungibleLocalId::String(v) => MId::Str(v.value().to_string()),
        NonFungibleLocalId::Integer(v) => MId::Int(v.value()),
        NonFungibleLocalId::Bytes(v) => MId::Bytes(v.value().to_vec()),
        NonFungibleLocalId::RUID(v) => MId::Ruid(*v.value()),
    }
}

fn build(m: &MId) -> Result<NonFungibleLocalId, String> {
    match m {
        MId::Str(s) => NonFungibleLocalId::string(s.as_str()).map_err(|e| format!("{e:?}")),
        MId::Int(v) => Ok(NonFungibleLocalId::integer(*v)),
        MId::Bytes(b) => NonFungibleLocalId::bytes(b.clone()).map_err(|e| format!("{e:?}")),
        MId::Ruid(r) => Ok(NonFungibleLocalId::ruid(*r)),
    }
}

fn mid_json(m: &MId) -> Value {
    match m {
        MId::Str(s) => json!({"str": s}),
        MId::Int(v) => json!({"int": v.to_string()}),
        MId::Bytes(b) => json!({"bytes": hx(b)}),
        MId::Ruid(r) => json!({"ruid": hx(r)}),
    }
}

fn mid_from_json(v: &Value) -> Option<MId> {
    if let Some(s) = v.get("str") {
        return Some(MId::Str(s.as_str()?.to_string()));
    }
    if let Some(s) = v.get("int") {
        return Some(MId::Int(s.as_str()?.parse().ok()?));
    }
    if let Some(s) = v.get("bytes") {
        return Some(MId::Bytes(unhex(s.as_str()?)));
    }
    if let Some(s) = v.get("ruid") {
        let b = unhex(s.as_str()?);
        if b.len() != 32 {
            return None;
        }
        let mut a = [0u8; 32];
        a.copy_from_slice(&b);
        return Some(MId::Ruid(a));
    }
    None
}

/// Value side: a model id (valid or just outside validity) through constructor, Display, FromStr, SBOR.
pub fn check_local_id_value(m: &MId, shard: &mut Shard) {
    shard.eval();
    shard.count("localid_value_cases");
    let case = json!({"case": "localid-value", "id": mid_json(m)});
    let built = catch({
        let m = m.clone();
        move || build(&m)
    });
    let valid = model_valid(m);
    let id = match built {
        Err(p) => {
            shard.violation("localid:constructor-panic", json!({"case": case, "panic": p.summary()}));
            return;
        }
        Ok(Err(_)) if !valid => {
            shard.count("localid_invalid_value_rejected");
            shard.nontrivial(&("lid-invalid-value", std::mem::discriminant(m), model_text(m).len()));
            return;
        }
        Ok(Err(e)) => {
            shard.violation("localid:valid-value-rejected", json!({"case": case, "error": e}));
            return;
        }
        Ok(Ok(_)) if !valid => {
            shard.violation("localid:invalid-value-accepted", json!({"case": case}));
            return;
        }
        Ok(Ok(id)) => id,
    };
    let text = model_text(m);
    shard.nontrivial(&("lid-value", std::mem::discriminant(m), text.len(), rv_common::h64(&text) & 0xff));
    shard.seen("localid_kinds", match m {
        MId::Str(_) => "string",
        MId::Int(_) => "integer",
        MId::Bytes(_) => "bytes",
        MId::Ruid(_) => "ruid",
    });
    let r = catch({
        let id = id.clone();
        let text = text.clone();
        move || -> Result<(), String> {
            let shown = id.to_string();
            if shown != text {
                return Err(format!("display:{shown}"));
            }
            if format!("{id:?}") != text {
                return Err("debug-differs".into());
            }
            match NonFungibleLocalId::from_str(&shown) {
                Ok(back) if back == id => {}
                other => return Err(format!("text-roundtrip:{other:?}")),
            }
            let sb = scrypto_encode(&id).map_err(|e| format!("scrypto-encode:{e:?}"))?;
            match scrypto_decode::<NonFungibleLocalId>(&sb) {
                Ok(back) if back == id => {}
                other => return Err(format!("scrypto-roundtrip:{other:?}")),
            }
            let mb = manifest_encode(&id).map_err(|e| format!("manifest-encode:{e:?}"))?;
            match manifest_decode::<NonFungibleLocalId>(&mb) {
                Ok(back) if back == id => {}
                other => return Err(format!("manifest-roundtrip:{other:?}")),
            }
            // raw body form (to_vec) is the scrypto payload without the two header bytes
            if id.to_vec() != sb[2..] {
                return Err("to_vec-differs-from-sbor-body".into());
            }
            Ok(())
        }
    });
    match r {
        Err(p) => shard.violation("localid:roundtrip-panic", json!({"case": case, "panic": p.summary()})),
        Ok(Err(e)) => {
            let class = e.split(':').next().unwrap_or("x").to_string();
            shard.violation(format!("localid:roundtrip:{class}"), json!({"case": case, "what": e, "text": text}));
        }
        Ok(Ok(())) => {
            shard.count("localid_roundtrips_ok");
            if to_model(&id) != *m {
                shard.violation("localid:accessor-differs", json!({"case": case}));
            }
        }
    }
}

/// Text side: arbitrary text against FromStr, judged by the grammar.
pub fn check_local_id_text(text: &str, shard: &mut Shard, origin: &str) {
    shard.eval();
    shard.count("localid_text_cases");
    let case = json!({"case": "localid-text", "text": text});
    let g = grammar(text);
    let r = catch({
        let t = text.to_string();
        move || NonFungibleLocalId::from_str(&t)
    });
    let gclass = match &g {
        G::Valid(_) => "valid",
        G::Grey(_) => "grey",
        G::Invalid => "invalid",
    };
    let first = text.bytes().next().unwrap_or(0);
    match r {
        Err(p) => {
            shard.violation("localid:parse-panic", json!({"case": case, "panic": p.summary(), "origin": origin}));
        }
        Ok(res) => {
            shard.count(&format!("localid_text:{gclass}:{}", if res.is_ok() { "accepted" } else { "rejected" }));
            if let Err(e) = &res {
                shard.seen("localid_parse_errors", &format!("{e:?}").chars().take(40).collect::<String>());
            }
            shard.nontrivial(&("lid-text", gclass, res.is_ok(), first, text.len().min(140), origin));
            match (&g, res) {
                (G::Valid(m), Ok(id)) => {
                    if to_model(&id) != *m {
                        shard.violation("localid:parsed-wrong-value", json!({"case": case, "expected": mid_json(m), "got": id.to_string()}));
                    } else if id.to_string() != text {
                        shard.violation("localid:display-not-canonical", json!({"case": case, "got": id.to_string()}));
                    }
                }
                (G::Valid(m), Err(e)) => {
                    shard.violation("localid:canonical-text-rejected", json!({"case": case, "expected": mid_json(m), "error": format!("{e:?}")}));
                }
                (G::Grey(m), Ok(id)) => {
                    shard.count("localid_uppercase_hex_accepted");
                    if to_model(&id) != *m {
                        shard.violation("localid:parsed-wrong-value", json!({"case": case, "expected": mid_json(m), "got": id.to_string()}));
                    }
                }
                (G::Grey(_), Err(_)) => {}
                (G::Invalid, Ok(id)) => {
                    let sub = if first == b'#' { "noncanonical-integer-accepted" } else { "invalid-text-accepted" };
                    shard.violation(format!("localid:{sub}"), json!({"case": case, "parsed_as": id.to_string(), "origin": origin}));
                }
                (G::Invalid, Err(_)) => {}
            }
        }
    }
}

/// Binary side: arbitrary bytes against the SBOR decoders.
pub fn check_local_id_bytes(bytes: &[u8], manifest: bool, shard: &mut Shard) {
    shard.eval();
    shard.count("localid_bytes_cases");
    let case = json!({"case": "localid-bytes", "bytes": hx(bytes), "manifest": manifest});
    let r = catch({
        let b = bytes.to_vec();
        move || {
            if manifest {
                manifest_decode::<NonFungibleLocalId>(&b).ok()
            } else {
                scrypto_decode::<NonFungibleLocalId>(&b).ok()
            }
        }
    });
    match r {
        Err(p) => shard.violation("localid:decode-panic", json!({"case": case, "panic": p.summary()})),
        Ok(None) => {
            shard.count("localid_bytes_rejected");
            shard.nontrivial(&("lid-bytes-rej", bytes.len(), bytes.get(2).copied()));
        }
        Ok(Some(id)) => {
            shard.count("localid_bytes_accepted");
            shard.nontrivial(&("lid-bytes-acc", bytes.len(), bytes.get(2).copied()));
            let m = to_model(&id);
            if !model_valid(&m) {
                shard.violation("localid:decode-yields-invalid-id", json!({"case": case, "id": mid_json(&m)}));
                return;
            }
            let text = id.to_string();
            match catch({
                let t = text.clone();
                move || NonFungibleLocalId::from_str(&t)
            }) {
                Ok(Ok(back)) if back == id && text == model_text(&m) => {}
                other => shard.violation(
                    "localid:decoded-id-text-roundtrip",
                    json!({"case": case, "text": text, "got": format!("{other:?}")}),
                ),
            }
            let re = if manifest { manifest_encode(&id).ok() } else { scrypto_encode(&id).ok() };
            if re.as_deref() != Some(bytes) {
                shard.count("localid_noncanonical_binary_accepted(informational)");
            }
        }
    }
}

// ---------------------------------------------------------------------------------------------
// Global ids
// ---------------------------------------------------------------------------------------------
pub fn check_global_id(e: u8, body: &[u8], m: &MId, net: usize, nets: &Nets, rng: &mut Rng, shard: &mut Shard) {
    shard.eval();
    shard.count("globalid_cases");
    let case = json!({"case": "globalid", "entity": e, "body": hx(body), "id": mid_json(m), "net": net});
    let mut data = vec![e];
    data.extend_from_slice(body);
    let (Ok(addr), Ok(lid)) = (ResourceAddress::try_from(data.as_slice()), build(m)) else {
        panic!("harness: global id generator produced invalid parts");
    };
    let gid = NonFungibleGlobalId::new(addr, lid.clone());
    let Ok(addr_text) = nets.enc[net].encode(&data) else {
        return; // reported by the address case
    };
    let expected = format!("{addr_text}:{}", model_text(m));
    shard.nontrivial(&("gid", e, net, std::mem::discriminant(m), expected.len()));
    let r = catch(std::panic::AssertUnwindSafe(|| -> Result<(), String> {
        let text = gid.to_canonical_string(&nets.enc[net]);
        if text != expected {
            return Err(format!("canonical-string:{text}"));
        }
        match NonFungibleGlobalId::try_from_canonical_string(&nets.dec[net], &text) {
            Ok(back) if back == gid => {}
            other => return Err(format!("text-roundtrip:{other:?}")),
        }
        if gid.resource_address() != addr || gid.local_id() != &lid {
            return Err("accessors".into());
        }
        let sb = scrypto_encode(&gid).map_err(|e| format!("scrypto-encode:{e:?}"))?;
        match scrypto_decode::<NonFungibleGlobalId>(&sb) {
            Ok(back) if back == gid => {}
            other => return Err(format!("scrypto-roundtrip:{other:?}")),
        }
        let mb = manifest_encode(&gid).map_err(|e| format!("manifest-encode:{e:?}"))?;
        match manifest_decode::<NonFungibleGlobalId>(&mb) {
            Ok(back) if back == gid => {}
            other => return Err(format!("manifest-roundtrip:{other:?}")),
        }
        Ok(())
    }));
    match r {
        Err(p) => shard.violation("globalid:roundtrip-panic", json!({"case": case, "panic": p.summary()})),
        Ok(Err(e)) => {
            let class = e.split(':').next().unwrap_or("x").to_string();
            shard.violation(format!("globalid:roundtrip:{class}"), json!({"case": case, "what": e, "expected_text": expected}));
        }
        Ok(Ok(())) => shard.count("globalid_roundtrips_ok"),
    }
    // other networks reject
    for j in 0..nets.defs.len() {
        if !nets.differs(net, j) {
            continue;
        }
        shard.eval();
        match catch(std::panic::AssertUnwindSafe(|| NonFungibleGlobalId::try_from_canonical_string(&nets.dec[j], &expected))) {
            Ok(Err(_)) => shard.count("other_network_rejected"),
            other => shard.violation(
                "globalid:accepted-on-other-network",
                json!({"case": case, "text": expected, "other_net": j, "got": format!("{other:?}")}),
            ),
        }
    }
    // hostile variants
    let id_text = model_text(m);
    let mut variants: Vec<(&str, String)> = vec![
        ("no-colon", format!("{addr_text}{id_text}")),
        ("three-parts", format!("{addr_text}:{id_text}:{id_text}")),
        ("double-colon", format!("{addr_text}::{id_text}")),
        ("empty-id", format!("{addr_text}:")),
        ("empty-address", format!(":{id_text}")),
        ("swapped", format!("{id_text}:{addr_text}")),
        ("space", format!("{addr_text}: {id_text}")),
        ("trailing-colon", format!("{expected}:")),
    ];
    // non-resource address with a valid checksum
    let (e2, c2) = *rng.pick(ENTITIES);
    if c2 != Class::Resource {
        let mut d2 = data.clone();
        d2[0] = e2;
        if let Ok(t2) = nets.enc[net].encode(&d2) {
            variants.push(("non-resource-address", format!("{t2}:{id_text}")));
        }
    }
    // resource hrp with a non-resource entity byte, valid checksum
    if let Some(h) = &nets.hrp_of[net][e as usize] {
        let mut d2 = data.clone();
        d2[0] = e2;
        if c2 != Class::Resource {
            variants.push(("resource-hrp-other-entity", format!("{}:{id_text}", bech::encode_with_const(h, &d2, bech::BECH32M_CONST))));
        }
        variants.push(("short-address", format!("{}:{id_text}", bech::encode_with_const(h, &data[..29], bech::BECH32M_CONST))));
        let mut long = data.clone();
        long.push(0);
        variants.push(("long-address", format!("{}:{id_text}", bech::encode_with_const(h, &long, bech::BECH32M_CONST))));
    }
    for (what, t) in variants {
        shard.eval();
        shard.count(&format!("globalid_variant:{what}"));
        match catch(std::panic::AssertUnwindSafe(|| NonFungibleGlobalId::try_from_canonical_string(&nets.dec[net], &t))) {
            Ok(Err(_)) => {}
            Err(p) => shard.violation("globalid:parse-panic", json!({"case": {"case": "globalid-text", "text": t, "net": net}, "panic": p.summary()})),
            Ok(Ok(g)) => shard.violation(
                format!("globalid:{what}-accepted"),
                json!({"case": {"case": "globalid-text", "text": t, "net": net}, "parsed": g.to_canonical_string(&nets.enc[net])}),
            ),
        }
    }
    // mutations of the canonical text judged by the reference
    for _ in 0..4 {
        let t = if rng.bool() {
            let (_, a) = mutate_address_text(&addr_text, rng);
            format!("{a}:{id_text}")
        } else {
            format!("{addr_text}:{}", mutate_id_text(&id_text, rng).1)
        };
        check_global_id_text(&t, net, nets, shard);
    }
}

pub fn check_global_id_text(text: &str, net: usize, nets: &Nets, shard: &mut Shard) {
    shard.eval();
    shard.count("globalid_text_cases");
    let case = json!({"case": "globalid-text", "text": text, "net": net});
    match catch(std::panic::AssertUnwindSafe(|| NonFungibleGlobalId::try_from_canonical_string(&nets.dec[net], text))) {
        Err(p) => shard.violation("globalid:parse-panic", json!({"case": case, "panic": p.summary()})),
        Ok(Err(_)) => {
            shard.count("globalid_text_rejected");
            shard.nontrivial(&("gid-text-rej", text.len()));
        }
        Ok(Ok(g)) => {
            shard.count("globalid_text_accepted");
            shard.nontrivial(&("gid-text-acc", text.len()));
            let parts: Vec<&str> = text.split(':').collect();
            let ok = parts.len() == 2
                && match bech::decode(parts[0]) {
                    Some(rf) => {
                        rf.residue == bech::BECH32M_CONST
                            && rf.data.len() == 30
                            && class_of(rf.data[0]) == Some(Class::Resource)
                            && nets.hrp_of[net][rf.data[0] as usize].as_deref() == Some(rf.hrp.as_str())
                            && rf.data == g.resource_address().to_vec()
                    }
                    None => false,
                }
                && match grammar(parts[1]) {
                    G::Valid(m) | G::Grey(m) => to_model(g.local_id()) == m,
                    G::Invalid => false,
                };
            if !ok {
                shard.violation("globalid:accepts-invalid-text", json!({"case": case}));
            }
        }
    }
}

// ---------------------------------------------------------------------------------------------
// Generators
// ---------------------------------------------------------------------------------------------
const ID_CHARS: &[u8] = b"abcdefghijklmnopqrstuvwxyzABCDEFGHIJKLMNOPQRSTUVWXYZ0123456789_";

pub fn gen_model(rng: &mut Rng) -> MId {
    match rng.below(4) {
        0 => {
            let len = match rng.below(6) {
                0 => 1,
                1 => 64,
                2 => 63,
                _ => rng.range(1, 64) as usize,
            };
            MId::Str((0..len).map(|_| *rng.pick(ID_CHARS) as char).collect())
        }
        1 => MId::Int(match rng.below(10) {
            0 => 0,
            1 => 1,
            2 => u64::MAX,
            3 => u64::MAX - 1,
            4 => 10u64.pow(rng.below(20) as u32),
            5 => 10u64.pow(rng.range(1, 19) as u32) - 1,
            6 => rng.below(1000),
            7 => 1u64 << rng.below(64),
            _ => rng.u64(),
        }),
        2 => {
            let len = match rng.below(6) {
                0 => 1,
                1 => 64,
                2 => 32,
                _ => rng.range(1, 64) as usize,
            };
            MId::Bytes(match rng.below(5) {
                0 => vec![0; len],
                1 => vec![0xFF; len],
                _ => rng.bytes(len),
            })
        }
        _ => {
            let mut a = [0u8; 32];
            match rng.below(5) {
                0 => {}
                1 => a = [0xFF; 32],
                _ => rng.fill(&mut a),
            }
            MId::Ruid(a)
        }
    }
}

/// Values just outside validity (constructor must reject).
fn gen_invalid_model(rng: &mut Rng) -> MId {
    match rng.below(5) {
        0 => MId::Str(String::new()),
        1 => MId::Str((0..rng.range(65, 200)).map(|_| *rng.pick(ID_CHARS) as char).collect()),
        2 => {
            let mut s: Vec<char> = (0..rng.range(1, 64)).map(|_| *rng.pick(ID_CHARS) as char).collect();
            let i = rng.usize_below(s.len());
            s[i] = *rng.pick(&[' ', '-', '.', '<', '>', '#', 'é', 'ß', '\0', '\n', ':', '١', '/', '@', '[', '`', '{', '^']);
            MId::Str(s.into_iter().collect())
        }
        3 => MId::Bytes(vec![]),
        _ => { let n = rng.range(65, 300) as usize; MId::Bytes(rng.bytes(n)) }
    }
}

const HOSTILE: &[&str] = &[
    "+", "-", " ", "0", "#", "<", ">", "[", "]", "{", "}", "_", "é", "١", "\0", "\n", "\t", "A", "F", "g", "G", "x", ":", "٠",
    "00", "0x", "１", "e", ".", ",", "𝟏", "\u{200b}", "\u{301}",
];

const SPECIAL_TEXTS: &[&str] = &[
    "", "#", "##", "###", "#0#", "#00#", "#01#", "#+1#", "#-1#", "#-0#", "#+0#", "# 1#", "#1 #", "#1#\n", " #1#", "#1",
    "1#", "#18446744073709551615#", "#18446744073709551616#", "#18446744073709551614#", "#99999999999999999999#",
    "#184467440737095516150#", "#018446744073709551615#", "#1e3#", "#0x10#", "#١#", "#１#", "#1_000#", "#1.0#", "#1#1#",
    "<", ">", "<>", "<<>", "<>>", "<a", "a>", "<a>", "<a>b>", "<a<b>", "< a>", "<a >", "<é>", "<a\0b>", "<->", "<#1#>",
    "[", "]", "[]", "[0]", "[00]", "[0g]", "[GG]", "[aB]", "[AB]", "[ab", "ab]", "[ ab]", "[0x00]", "[é]", "[aé]", "[éa]",
    "{", "}", "{}", "{-}", "{---}",
    "{1111111111111111-2222222222222222-3333333333333333-4444444444444444}",
    "{1111111111111111-2222222222222222-3333333333333333-444444444444444}",
    "{1111111111111111-2222222222222222-3333333333333333-44444444444444444}",
    "{1111111111111111-2222222222222222-3333333333333333_4444444444444444}",
    "{1111111111111111222222222222222233333333333333334444444444444444}",
    "{111111111111111-12222222222222222-3333333333333333-4444444444444444}",
    "{--------------4----8---------------1}",
    "{1111111111111111-2222222222222222-3333333333333333-444444444444444é}",
    "{é111111111111111-2222222222222222-3333333333333333-4444444444444444}",
    "{1111111111111111-2222222222222222-3333333333333333-44444444444444--}",
    "{AAAAAAAAAAAAAAAA-2222222222222222-3333333333333333-4444444444444444}",
    "<a>#1#", "#1#<a>", "[ab]{", "{[ab]}", "<#>", "#<#", "[#]", "#[#",
];

fn char_positions(s: &str) -> Vec<usize> {
    s.char_indices().map(|(i, _)| i).chain(std::iter::once(s.len())).collect()
}

pub fn mutate_id_text(text: &str, rng: &mut Rng) -> (&'static str, String) {
    let pos = char_positions(text);
    let chars: Vec<char> = text.chars().collect();
    match rng.below(13) {
        0 => {
            let i = *rng.pick(&pos);
            (
                "insert",
                format!("{}{}{}", &text[..i], rng.pick(HOSTILE), &text[i..]),
            )
        }
        1 if !chars.is_empty() => {
            let i = rng.usize_below(chars.len());
            let mut c = chars.clone();
            c.remove(i);
            ("delete", c.into_iter().collect())
        }
        2 if !chars.is_empty() => {
            let i = rng.usize_below(chars.len());
            let mut out = String::new();
            for (k, c) in chars.iter().enumerate() {
                if k == i {
                    out.push_str(*rng.pick(HOSTILE));
                } else {
                    out.push(*c);
                }
            }
            ("replace", out)
        }
        3 => ("upper", text.to_uppercase()),
        4 if !chars.is_empty() => {
            let i = rng.usize_below(chars.len());
            let mut c = chars.clone();
            c[i] = c[i].to_ascii_uppercase();
            ("one-upper", c.into_iter().collect())
        }
        5 if chars.len() >= 2 => {
            // leading zero / sign right after the opening delimiter
            let ins = *rng.pick(&["0", "+", "-", " ", "00"]);
            let first: String = chars[..1].iter().collect();
            let rest: String = chars[1..].iter().collect();
            ("after-open", format!("{first}{ins}{rest}"))
        }
        6 if chars.len() >= 2 => {
            // change delimiters
            let d = *rng.pick(&[('<', '>'), ('#', '#'), ('[', ']'), ('{', '}'), ('<', '#'), ('[', '}'), ('(', ')')]);
            let inner: String = chars[1..chars.len() - 1].iter().collect();
            ("delims", format!("{}{}{}", d.0, inner, d.1))
        }
        7 => {
            let w = *rng.pick(&[" ", "\n", "\t", "\u{a0}"]);
            if rng.bool() {
                ("ws-pre", format!("{w}{text}"))
            } else {
                ("ws-post", format!("{text}{w}"))
            }
        }
        8 if !chars.is_empty() => {
            let i = rng.usize_below(chars.len());
            let mut c = chars.clone();
            c.insert(i, chars[i]);
            ("dup", c.into_iter().collect())
        }
        9 if chars.len() >= 2 => {
            let (i, j) = (rng.usize_below(chars.len()), rng.usize_below(chars.len()));
            let mut c = chars.clone();
            c.swap(i, j);
            ("swap", c.into_iter().collect())
        }
        10 if chars.len() >= 2 => {
            // extend the inner part by one valid-looking char (length boundary)
            let inner_last = chars[chars.len() - 2];
            let mut c = chars.clone();
            c.insert(chars.len() - 1, inner_last);
            ("extend-inner", c.into_iter().collect())
        }
        11 => ("truncate", chars[..rng.usize_below(chars.len() + 1)].iter().collect()),
        _ => ("identity", text.to_string()),
    }
}

fn gen_integer_text(rng: &mut Rng) -> String {
    // numbers around u64::MAX and with non-canonical spellings
    let base: u128 = match rng.below(6) {
        0 => u64::MAX as u128 + rng.below(12) as u128,
        1 => u64::MAX as u128 - rng.below(12) as u128,
        2 => (u64::MAX as u128) * 10 + rng.below(10) as u128,
        3 => u128::MAX - rng.below(5) as u128,
        4 => rng.below(20) as u128,
        _ => rng.u128() >> rng.below(128),
    };
    let digits = base.to_string();
    match rng.below(8) {
        0 => format!("#0{digits}#"),
        1 => format!("#+{digits}#"),
        2 => format!("#-{digits}#"),
        3 => format!("#{digits}0#"),
        4 => format!("#{}#", digits.replace('1', "١")),
        5 => format!("#{digits} #"),
        _ => format!("#{digits}#"),
    }
}

fn random_hostile_text(rng: &mut Rng) -> String {
    let n = rng.range(0, 12);
    let mut s = String::new();
    for _ in 0..n {
        if rng.chance(1, 3) {
            s.push(*rng.pick(ID_CHARS) as char);
        } else {
            s.push_str(*rng.pick(HOSTILE));
        }
    }
    s
}

fn mutate_bytes(b: &[u8], rng: &mut Rng) -> Vec<u8> {
    let mut v = b.to_vec();
    match rng.below(8) {
        0 if !v.is_empty() => {
            let i = rng.usize_below(v.len());
            v[i] ^= 1 << rng.below(8);
        }
        1 if !v.is_empty() => {
            let i = rng.usize_below(v.len().min(5));
            v[i] = rng.u8();
        }
        2 => v.truncate(rng.usize_below(v.len() + 1)),
        3 => { let n = rng.range(1, 4) as usize; v.extend(rng.bytes(n)) }
        4 if v.len() > 3 => {
            // discriminator byte
            v[2] = *rng.pick(&[0u8, 1, 2, 3, 4, 255]);
        }
        5 if v.len() > 4 => {
            // length prefix of string/bytes ids
            v[3] = *rng.pick(&[0u8, 1, 63, 64, 65, 127, 128, 255]);
        }
        6 if v.len() > 4 => {
            // content byte to a forbidden character
            let i = 4 + rng.usize_below(v.len() - 4);
            v[i] = *rng.pick(&[b' ', b'-', 0, 0xC3, 0xFF, b'<', b'.']);
        }
        _ => {
            if v.len() > 4 {
                // set declared length = 0 and drop content (empty string / bytes id)
                v.truncate(4);
                v[3] = 0;
            }
        }
    }
    v
}

fn gen_body(rng: &mut Rng) -> Vec<u8> {
    match rng.below(6) {
        0 => vec![0u8; 29],
        1 => vec![0xFFu8; 29],
        _ => rng.bytes(29),
    }
}

pub fn run(args: &Args) -> i32 {
    let spec = Spec::new(
        "C28",
        "exploration",
        "addresses: encode is lower-case Bech32m of the 30 bytes (independent reference), decodes back on the same network, \
         is rejected on every network with another HRP suffix and by typed addresses of another entity class; anything the \
         decoder accepts is valid Bech32m with the entity's HRP; local/global ids: value<->text<->SBOR round trips, text \
         judged by an independent grammar (canonical integers only), no panics",
    )
    .assume("network definitions use lower-case HRP suffixes made of valid Bech32 HRP characters; two definitions are 'other networks' when their suffixes differ")
    .assume("upper-case hex inside [..] / {..} ids denotes the id but is not canonical: the parser may accept or reject it, the value must be right")
    .floor("evaluations", args.tier.pick(6250000, 100000000))
    .floor("address_roundtrip_ok", args.tier.pick(25000, 375000))
    .floor("other_network_rejected", args.tier.pick(1250000, 18750000))
    .floor("typed_mismatch_rejected", args.tier.pick(62500, 1000000))
    .floor("localid_roundtrips_ok", args.tier.pick(125000, 1875000))
    .floor("localid_text:invalid:rejected", args.tier.pick(500000, 7500000))
    .floor("localid_text:valid:accepted", args.tier.pick(125000, 1875000))
    .floor("localid_bytes_cases", args.tier.pick(187500, 2500000))
    .floor("globalid_roundtrips_ok", args.tier.pick(12500, 187500))
    .explain("evaluations = individual encode/decode/parse calls compared with an oracle; distinct_nontrivial = distinct (case kind, entity/network or grammar class, outcome, shape) behaviours");
    let mut report = Report::new(args, spec);
    let nets = Nets::new();
    report.extra.insert(
        "networks".into(),
        json!(nets.defs.iter().map(|d| d.hrp_suffix.to_string()).collect::<Vec<_>>()),
    );

    if let Some(path) = &args.replay {
        let detail = crate::load_replay_detail(path);
        let case = detail.get("case").cloned().unwrap_or(Value::Null);
        let kind = case.get("case").and_then(|c| c.as_str()).unwrap_or("").to_string();
        let net = case.get("net").and_then(|n| n.as_u64()).unwrap_or(0) as usize;
        let s = |k: &str| case.get(k).and_then(|x| x.as_str()).unwrap_or("").to_string();
        return crate::replay_with("C28", |shard| {
            let mut rng = Rng::new(1);
            match kind.as_str() {
                "address" => check_address(case["entity"].as_u64().unwrap_or(0) as u8, &unhex(&s("body")), net, &nets, &mut rng, shard),
                "address-text" => check_address_text(&s("text"), net, &nets, shard, "replay"),
                "localid-text" => check_local_id_text(&s("text"), shard, "replay"),
                "localid-value" => {
                    if let Some(m) = mid_from_json(&case["id"]) {
                        check_local_id_value(&m, shard)
                    }
                }
                "localid-bytes" => check_local_id_bytes(&unhex(&s("bytes")), case["manifest"].as_bool().unwrap_or(false), shard),
                "globalid" => {
                    if let Some(m) = mid_from_json(&case["id"]) {
                        check_global_id(case["entity"].as_u64().unwrap_or(93) as u8, &unhex(&s("body")), &m, net, &nets, &mut rng, shard)
                    }
                }
                "globalid-text" => check_global_id_text(&s("text"), net, &nets, shard),
                other => eprintln!("unknown replay case kind {other:?}"),
            }
        });
    }

    let total = rv_common::scaled(args, args.tier.pick(150_000_000, 3_000_000_000));
    let per_shard = total / args.threads as u64 + 1;
    let budget = Duration::from_secs(rv_common::budget_secs(args.tier, 45, 720));
    let nets = &nets;
    report.run_shards(28, args.threads, budget, |idx, rng, shard| {
        // deterministic sweeps first (split over shards): every entity byte x every network,
        // every special text, multi-byte char at every position of one id of each kind
        if idx == 0 {
            for t in SPECIAL_TEXTS {
                check_local_id_text(t, shard, "special");
            }
            for base in [
                "<abc_DEF_123>",
                "#1234567890#",
                "[deadbeef00ff]",
                "{1111111111111111-2222222222222222-3333333333333333-4444444444444444}",
            ] {
                for p in char_positions(base) {
                    for ins in ["é", "١", "\u{301}", "𝟏"] {
                        // insert and replace
                        check_local_id_text(&format!("{}{}{}", &base[..p], ins, &base[p..]), shard, "multibyte-insert");
                        if p < base.len() {
                            check_local_id_text(&format!("{}{}{}", &base[..p], ins, &base[p + 1..]), shard, "multibyte-replace");
                        }
                    }
                }
            }
        }
        for e in 0..=255u8 {
            for net in 0..nets.defs.len() {
                if (e as usize * nets.defs.len() + net) % args.threads == idx {
                    let body = gen_body(rng);
                    check_address(e, &body, net, nets, rng, shard);
                }
            }
        }
        while shard.evaluations < per_shard && !shard.time_up() {
            match rng.below(100) {
                0..=9 => {
                    // address
                    let e = if rng.chance(9, 10) { rng.pick(ENTITIES).0 } else { rng.u8() };
                    let net = rng.usize_below(nets.defs.len());
                    let body = gen_body(rng);
                    check_address(e, &body, net, nets, rng, shard);
                }
                10..=12 => {
                    let net = rng.usize_below(nets.defs.len());
                    // crafted valid-checksum texts with odd payload lengths / invalid entity bytes
                    let e = if rng.bool() { rng.pick(ENTITIES).0 } else { rng.u8() };
                    let len = *rng.pick(&[0usize, 1, 2, 28, 29, 30, 31, 32, 64]);
                    let mut data = rng.bytes(len);
                    if !data.is_empty() {
                        data[0] = e;
                    }
                    let hrp = nets.hrp_of[net][rng.pick(ENTITIES).0 as usize].clone().unwrap_or_else(|| "x".into());
                    let t = bech::encode_with_const(&hrp, &data, bech::BECH32M_CONST);
                    check_address_text(&t, net, nets, shard, "crafted-length-or-entity");
                }
                13..=26 => {
                    let m = gen_model(rng);
                    check_local_id_value(&m, shard);
                    let t = model_text(&m);
                    check_local_id_text(&t, shard, "canonical");
                }
                27..=30 => {
                    let m = gen_invalid_model(rng);
                    check_local_id_value(&m, shard);
                    // its would-be text must be rejected too
                    check_local_id_text(&model_text(&m), shard, "invalid-value-text");
                }
                31..=62 => {
                    let m = gen_model(rng);
                    let mut t = model_text(&m);
                    let mut tag = "mut1";
                    let k = 1 + rng.below(3);
                    for i in 0..k {
                        t = mutate_id_text(&t, rng).1;
                        if i > 0 {
                            tag = "mutN";
                        }
                    }
                    check_local_id_text(&t, shard, tag);
                }
                63..=70 => check_local_id_text(&gen_integer_text(rng), shard, "integer-boundary"),
                71..=75 => check_local_id_text(&random_hostile_text(rng), shard, "random-hostile"),
                76..=92 => {
                    let m = gen_model(rng);
                    if let Ok(id) = build(&m) {
                        let manifest = rng.bool();
                        let enc = if manifest { manifest_encode(&id).unwrap() } else { scrypto_encode(&id).unwrap() };
                        let mut b = mutate_bytes(&enc, rng);
                        if rng.chance(1, 4) {
                            b = mutate_bytes(&b, rng);
                        }
                        check_local_id_bytes(&b, manifest, shard);
                    }
                }
                _ => {
                    let e = *rng.pick(&[93u8, 154]);
                    let body = gen_body(rng);
                    let m = gen_model(rng);
                    let net = rng.usize_below(nets.defs.len());
                    check_global_id(e, &body, &m, net, nets, rng, shard);
                }
            }
            if shard.want_sample() && rng.chance(1, 5000) {
                let m = gen_model(rng);
                let t = model_text(&m);
                let net = rng.usize_below(nets.defs.len());
                let data = [&[93u8][..], &gen_body(rng)].concat();
                shard.sample(|| json!({"local_id_text": t, "network_suffix": nets.defs[net].hrp_suffix, "resource_text": nets.enc[net].encode(&data).ok()}));
            }
        }
    });
    report.finish()
}
