//! C16 - Database key mapping is reversible and preserves sorted-index order.
//!
//! Oracle (from the property text only):
//!  * round trip: from_db(to_db(k)) == k for node ids, partition numbers, field, map and sorted keys
//!    (both through the type-specific functions and through the generic SubstateKey helpers);
//!  * injectivity: in a *set* of pairwise distinct logical keys of one kind (what one partition
//!    holds) no two members share a database key - checked by sorting the db keys and comparing
//!    neighbours, on sets that are built to contain near-collisions;
//!  * order: for sorted keys a, b: a.prefix < b.prefix (2 bytes, big endian) => db(a) < db(b) bytewise.
//! The hash-prefix layout itself is *not* assumed by the oracle.
use radix_common::prelude::*;
use radix_substate_store_interface::db_key_mapper::{DatabaseKeyMapper, SpreadPrefixKeyMapper};
use radix_substate_store_interface::interface::{DbPartitionKey, DbSortKey};
use rv_common::{catch, hex as hx, unhex, Args, Report, Rng, Shard, Spec};
use serde_json::{json, Value};
use std::collections::BTreeSet;
use std::time::Duration;

type M = SpreadPrefixKeyMapper;

#[derive(Clone, Debug, PartialEq, Eq, PartialOrd, Ord, Hash)]
pub enum LKey {
    Field(u8),
    Map(Vec<u8>),
    Sorted([u8; 2], Vec<u8>),
    NodePart([u8; 30], u8),
}

impl LKey {
    fn kind(&self) -> &'static str {
        match self {
            LKey::Field(_) => "field",
            LKey::Map(_) => "map",
            LKey::Sorted(..) => "sorted",
            LKey::NodePart(..) => "node",
        }
    }
    fn to_json(&self) -> Value {
        match self {
            LKey::Field(b) => json!({"field": b}),
            LKey::Map(k) => json!({"map": hx(k)}),
            LKey::Sorted(p, k) => json!({"sorted": [hx(p), hx(k)]}),
            LKey::NodePart(n, p) => json!({"node": hx(n), "partition": p}),
        }
    }
    fn from_json(v: &Value) -> Option<LKey> {
        if let Some(b) = v.get("field") {
            return Some(LKey::Field(b.as_u64()? as u8));
        }
        if let Some(k) = v.get("map") {
            return Some(LKey::Map(unhex(k.as_str()?)));
        }
        if let Some(a) = v.get("sorted") {
            let p = unhex(a.get(0)?.as_str()?);
            if p.len() != 2 {
                return None;
            }
            return Some(LKey::Sorted([p[0], p[1]], unhex(a.get(1)?.as_str()?)));
        }
        if let Some(n) = v.get("node") {
            let b = unhex(n.as_str()?);
            if b.len() != 30 {
                return None;
            }
            let mut a = [0u8; 30];
            a.copy_from_slice(&b);
            return Some(LKey::NodePart(a, v.get("partition")?.as_u64()? as u8));
        }
        None
    }
}

/// Maps one logical key to its database bytes and back; returns the db bytes (for set checks).
/// Reports round-trip failures and panics.
fn map_and_roundtrip(k: &LKey, shard: &mut Shard) -> Option<Vec<u8>> {
    let kind = k.kind();
    let kk = k.clone();
    let r = catch(move || -> (Vec<u8>, bool, bool) {
        match &kk {
            LKey::Field(f) => {
                let db = M::field_to_db_sort_key(f);
                let back = M::field_from_db_sort_key(&db);
                let g = M::to_db_sort_key(&SubstateKey::Field(*f));
                let gback = M::from_db_sort_key::<FieldKey>(&g);
                let gref = M::to_db_sort_key_from_ref(SubstateKeyRef::Field(f));
                let inner = M::from_db_sort_key_to_inner::<FieldKey>(&db);
                (
                    db.0.clone(),
                    back == *f && inner == *f,
                    g == db && gref == db && gback == SubstateKey::Field(*f),
                )
            }
            LKey::Map(m) => {
                let db = M::map_to_db_sort_key(m);
                let back = M::map_from_db_sort_key(&db);
                let g = M::to_db_sort_key(&SubstateKey::Map(m.clone()));
                let gback = M::from_db_sort_key::<MapKey>(&g);
                let gref = M::to_db_sort_key_from_ref(SubstateKeyRef::Map(m));
                let inner = M::from_db_sort_key_to_inner::<MapKey>(&db);
                (
                    db.0.clone(),
                    back == *m && inner == *m,
                    g == db && gref == db && gback == SubstateKey::Map(m.clone()),
                )
            }
            LKey::Sorted(p, m) => {
                let sk: SortedKey = (*p, m.clone());
                let db = M::sorted_to_db_sort_key(&sk);
                let back = M::sorted_from_db_sort_key(&db);
                let g = M::to_db_sort_key(&SubstateKey::Sorted(sk.clone()));
                let gback = M::from_db_sort_key::<SortedKey>(&g);
                let gref = M::to_db_sort_key_from_ref(SubstateKeyRef::Sorted(&sk));
                let inner = M::from_db_sort_key_to_inner::<SortedKey>(&db);
                (
                    db.0.clone(),
                    back == sk && inner == sk,
                    g == db && gref == db && gback == SubstateKey::Sorted(sk.clone()),
                )
            }
            LKey::NodePart(n, p) => {
                let node = NodeId(*n);
                let part = PartitionNumber(*p);
                let dbk: DbPartitionKey = M::to_db_partition_key(&node, part);
                let (bn, bp) = M::from_db_partition_key(&dbk);
                let nk = M::to_db_node_key(&node);
                let bn2 = M::from_db_node_key(&nk);
                let pn = M::to_db_partition_num(part);
                let bp2 = M::from_db_partition_num(pn);
                // db bytes used for the set check: node key ++ partition byte (node keys of one
                // mapper have one length, asserted by the caller through `len` bookkeeping)
                let mut bytes = dbk.node_key.clone();
                bytes.push(dbk.partition_num);
                (
                    bytes,
                    bn == node && bp == part,
                    nk == dbk.node_key && pn == dbk.partition_num && bn2 == node && bp2 == part,
                )
            }
        }
    });
    shard.eval();
    shard.count(&format!("roundtrips:{kind}"));
    match r {
        Err(p) => {
            shard.violation(
                format!("panic:{kind}-mapping"),
                json!({"keys": [k.to_json()], "panic": p.summary()}),
            );
            None
        }
        Ok((db, specific_ok, generic_ok)) => {
            if !specific_ok {
                shard.violation(
                    format!("roundtrip:{kind}"),
                    json!({"keys": [k.to_json()], "db": hx(&db)}),
                );
            }
            if !generic_ok {
                shard.violation(
                    format!("roundtrip-generic:{kind}"),
                    json!({"keys": [k.to_json()], "db": hx(&db)}),
                );
            }
            Some(db)
        }
    }
}

fn class_of_bytes(b: &[u8]) -> (u8, u8) {
    let len_class = match b.len() {
        0 => 0,
        1 => 1,
        2..=19 => 2,
        20 => 3,
        21 => 4,
        22 => 5,
        23..=64 => 6,
        65..=1023 => 7,
        1024 => 8,
        _ => 9,
    };
    let pat = if b.is_empty() {
        0
    } else if b.iter().all(|x| *x == 0) {
        1
    } else if b.iter().all(|x| *x == 0xFF) {
        2
    } else {
        3 + (b[0] >> 6)
    };
    (len_class, pat)
}

/// One set = what a partition (or the node-key space) holds: pairwise distinct keys of one kind.
pub fn check_set(keys: &[LKey], shard: &mut Shard) {
    if keys.is_empty() {
        return;
    }
    let kind = keys[0].kind();
    let logical: BTreeSet<&LKey> = keys.iter().collect();
    let mut mapped: Vec<(Vec<u8>, &LKey)> = Vec::with_capacity(logical.len());
    for k in &logical {
        if k.kind() != kind {
            panic!("harness: mixed-kind set");
        }
        if let Some(db) = map_and_roundtrip(k, shard) {
            match k {
                LKey::Field(f) => shard.nontrivial(&("field", *f)),
                LKey::Map(m) => shard.nontrivial(&("map", class_of_bytes(m))),
                LKey::Sorted(p, m) => shard.nontrivial(&("sorted", p[0], class_of_bytes(m))),
                LKey::NodePart(n, p) => shard.nontrivial(&("node", class_of_bytes(n), *p)),
            }
            shard.max(&format!("key_len:{kind}"), match k {
                LKey::Map(m) | LKey::Sorted(_, m) => m.len() as u64,
                _ => 0,
            });
            mapped.push((db, k));
        }
    }
    // injectivity: sort by db key, compare neighbours
    mapped.sort();
    shard.count(&format!("sets:{kind}"));
    shard.add(&format!("set_members:{kind}"), mapped.len() as u64);
    shard.max(&format!("set_size:{kind}"), mapped.len() as u64);
    for w in mapped.windows(2) {
        shard.count("adjacent_db_compares");
        if w[0].0 == w[1].0 {
            shard.violation(
                format!("injectivity:{kind}"),
                json!({"keys": [w[0].1.to_json(), w[1].1.to_json()], "db": hx(&w[0].0)}),
            );
        }
    }
    // order: sorted keys - along ascending db order the 2-byte prefixes must never decrease
    if kind == "sorted" {
        for w in mapped.windows(2) {
            if let (LKey::Sorted(pa, _), LKey::Sorted(pb, _)) = (w[0].1, w[1].1) {
                let (a, b) = (u16::from_be_bytes(*pa), u16::from_be_bytes(*pb));
                if a != b {
                    shard.count("order_pairs_with_different_prefix");
                    if (a >> 8) != (b >> 8) {
                        shard.count("order_pairs_differing_in_high_byte");
                    }
                }
                // db(w0) <= db(w1) by sorting; if prefix(w0) > prefix(w1) then the pair
                // (w1, w0) has prefix(w1) < prefix(w0) but db(w1) >= db(w0): refuted.
                if a > b {
                    shard.violation(
                        "order:sorted-prefix",
                        json!({"keys": [w[1].1.to_json(), w[0].1.to_json()],
                               "db_lo": hx(&w[0].0), "db_hi": hx(&w[1].0)}),
                    );
                }
            }
        }
    }
}

/// Explicit pairwise order check (independent of the sort based one).
fn check_order_pair(a: &LKey, b: &LKey, shard: &mut Shard) {
    if let (LKey::Sorted(pa, ka), LKey::Sorted(pb, kb)) = (a, b) {
        let r = catch({
            let (pa, ka, pb, kb) = (*pa, ka.clone(), *pb, kb.clone());
            move || {
                (
                    M::sorted_to_db_sort_key(&(pa, ka)),
                    M::sorted_to_db_sort_key(&(pb, kb)),
                )
            }
        });
        shard.eval();
        shard.count("order_pair_checks");
        let Ok((da, db)): Result<(DbSortKey, DbSortKey), _> = r else {
            shard.violation("panic:sorted-mapping", json!({"keys": [a.to_json(), b.to_json()]}));
            return;
        };
        let (ua, ub) = (u16::from_be_bytes(*pa), u16::from_be_bytes(*pb));
        let viol = (ua < ub && !(da.0 < db.0)) || (ua > ub && !(da.0 > db.0));
        // Also the derived Ord of DbSortKey (what in-memory stores use) must agree with bytewise order
        let ord_mismatch = (da.0.cmp(&db.0)) != da.cmp(&db);
        if viol || ord_mismatch {
            shard.violation(
                "order:sorted-prefix",
                json!({"keys": [a.to_json(), b.to_json()], "db_a": hx(&da.0), "db_b": hx(&db.0),
                       "ord_mismatch": ord_mismatch}),
            );
        }
    }
}

// ---------------------------------------------------------------------------------------------
// Generators
// ---------------------------------------------------------------------------------------------
fn base_bytes(rng: &mut Rng) -> Vec<u8> {
    let len = match rng.below(20) {
        0 => 0,
        1 => 1,
        2 => 19,
        3 => 20,
        4 => 21,
        5 => 22,
        6 => 1024,
        7 => 1023,
        8 => rng.range(1025, 4096) as usize,
        9 | 10 => rng.range(23, 200) as usize,
        _ => rng.range(1, 40) as usize,
    };
    match rng.below(8) {
        0 => vec![0u8; len],
        1 => vec![0xFFu8; len],
        2 => {
            let b = rng.u8();
            vec![b; len]
        }
        _ => rng.bytes(len),
    }
}

fn hash20(b: &[u8]) -> Vec<u8> {
    // used only to *craft* adversarial inputs (keys that look like other keys' db form)
    hash(b).0[..20].to_vec()
}

/// A family of byte strings around `b` with prefix/suffix/extension/bit-flip relatives.
fn family(rng: &mut Rng, b: &[u8], out: &mut Vec<Vec<u8>>) {
    out.push(b.to_vec());
    let n = b.len();
    // prefixes and suffixes (few, spread)
    for _ in 0..4 {
        if n > 0 {
            let i = rng.usize_below(n + 1);
            out.push(b[..i].to_vec());
            out.push(b[i..].to_vec());
        }
    }
    if n > 0 {
        out.push(b[..n - 1].to_vec());
        out.push(b[1..].to_vec());
    }
    for ext in [0x00u8, 0xFF, 0x01, 0x5c] {
        let mut e = b.to_vec();
        e.push(ext);
        out.push(e);
        let mut e = vec![ext];
        e.extend_from_slice(b);
        out.push(e);
    }
    // bit flips / +-1 on last byte
    for _ in 0..4 {
        if n > 0 {
            let mut e = b.to_vec();
            let i = rng.usize_below(n);
            e[i] ^= 1 << rng.below(8);
            out.push(e);
        }
    }
    if n > 0 {
        let mut e = b.to_vec();
        e[n - 1] = e[n - 1].wrapping_add(1);
        out.push(e);
        let mut e = b.to_vec();
        e[n - 1] = e[n - 1].wrapping_sub(1);
        out.push(e);
    }
    // keys that look like database forms of relatives: hash20(b)||b, p||hash20(b)||b, b||hash20(b),
    // hash20(b) alone, and the db form of the db form
    let h = hash20(b);
    let mut hp = h.clone();
    hp.extend_from_slice(b);
    out.push(hp.clone());
    out.push(h.clone());
    let mut bh = b.to_vec();
    bh.extend_from_slice(&h);
    out.push(bh);
    let mut php = vec![rng.u8(), rng.u8()];
    php.extend_from_slice(&hp);
    out.push(php);
    let mut hhp = hash20(&hp);
    hhp.extend_from_slice(&hp);
    out.push(hhp);
    if hp.len() > 2 {
        out.push(hp[2..].to_vec());
    }
}

fn gen_inner_set(rng: &mut Rng, target: usize) -> Vec<Vec<u8>> {
    let mut out = vec![];
    // runs of 0x00 / 0xFF: every one is a prefix of the next
    let run = rng.range(0, 40) as usize;
    for l in 0..run {
        out.push(vec![0u8; l]);
        out.push(vec![0xFFu8; l]);
    }
    while out.len() < target {
        let b = base_bytes(rng);
        family(rng, &b, &mut out);
    }
    out
}

const PREFIXES: &[[u8; 2]] = &[
    [0x00, 0x00], [0x00, 0x01], [0x00, 0x7F], [0x00, 0x80], [0x00, 0xFF], [0x01, 0x00], [0x01, 0x01],
    [0x7F, 0xFF], [0x80, 0x00], [0x80, 0x01], [0xFE, 0xFF], [0xFF, 0x00], [0xFF, 0xFE], [0xFF, 0xFF],
    [0x00, 0x02], [0x02, 0x00],
];

fn gen_prefix(rng: &mut Rng) -> [u8; 2] {
    if rng.chance(2, 3) {
        *rng.pick(PREFIXES)
    } else {
        [rng.u8(), rng.u8()]
    }
}

fn gen_node(rng: &mut Rng) -> [u8; 30] {
    let mut n = [0u8; 30];
    match rng.below(6) {
        0 => {}
        1 => n = [0xFF; 30],
        2 => {
            rng.fill(&mut n);
            n[0] = *rng.pick(&[13u8, 93, 154, 192, 193, 88, 152, 248, 176, 134, 131, 130]);
        }
        _ => rng.fill(&mut n),
    }
    n
}

fn gen_set(rng: &mut Rng, kind: u64, target: usize) -> Vec<LKey> {
    match kind {
        0 => {
            // field keys: all 256 (a partition of fields), in random order
            let mut v: Vec<LKey> = (0..=255u8).map(LKey::Field).collect();
            rng.shuffle(&mut v);
            v
        }
        1 => gen_inner_set(rng, target).into_iter().map(LKey::Map).collect(),
        2 => {
            let inner = gen_inner_set(rng, target / 2 + 1);
            let mut v = vec![];
            for k in inner {
                let reps = 1 + rng.below(3);
                for _ in 0..reps {
                    v.push(LKey::Sorted(gen_prefix(rng), k.clone()));
                }
                // the inner key moved by its own prefix: (p, q||k') vs (p', k)
                if k.len() >= 2 && rng.chance(1, 4) {
                    v.push(LKey::Sorted([k[0], k[1]], k[2..].to_vec()));
                }
            }
            v
        }
        _ => {
            let mut v = vec![];
            while v.len() < target {
                let n = gen_node(rng);
                let parts: Vec<u8> = vec![0, 1, 64, 254, 255, rng.u8(), rng.u8()];
                for p in &parts {
                    v.push(LKey::NodePart(n, *p));
                }
                // relatives of the node id
                for _ in 0..3 {
                    let mut m = n;
                    m[rng.usize_below(30)] ^= 1 << rng.below(8);
                    v.push(LKey::NodePart(m, *rng.pick(&parts)));
                }
                let mut m = n;
                m.rotate_left(1);
                v.push(LKey::NodePart(m, 0));
                m = n;
                m[29] = m[29].wrapping_add(1);
                v.push(LKey::NodePart(m, 255));
            }
            v
        }
    }
}

pub fn run(args: &Args) -> i32 {
    let spec = Spec::new(
        "C16",
        "exploration",
        "SpreadPrefixKeyMapper: from_db(to_db(k)) == k for node/partition/field/map/sorted keys; within a set of \
         distinct logical keys of one kind no two share a db key (sort + adjacent compare on near-collision sets); \
         sorted keys: prefix(a) < prefix(b) => db(a) < db(b) bytewise",
    )
    .assume("injectivity is demanded among keys of one kind (one partition holds one kind of key); cross-kind coincidences are only counted")
    .assume("inverse functions are only applied to db keys produced by the mapper")
    .floor("evaluations", args.tier.pick(6666666, 133333333))
    .floor("roundtrips:field", 256)
    .floor("roundtrips:map", args.tier.pick(1333333, 25000000))
    .floor("roundtrips:sorted", args.tier.pick(2000000, 41666666))
    .floor("roundtrips:node", args.tier.pick(666666, 13333333))
    .floor("order_pairs_differing_in_high_byte", args.tier.pick(333333, 6666666))
    .floor("order_pair_checks", args.tier.pick(500000, 10000000))
    .floor("adjacent_db_compares", args.tier.pick(5000000, 100000000))
    .explain("evaluations = logical keys mapped and mapped back + explicit order pairs; distinct_nontrivial = distinct (kind, length class, byte pattern class, prefix/partition) behaviours");
    let mut report = Report::new(args, spec);

    if let Some(path) = &args.replay {
        let detail = crate::load_replay_detail(path);
        let keys: Vec<LKey> = detail
            .get("keys")
            .and_then(|k| k.as_array())
            .map(|a| a.iter().filter_map(LKey::from_json).collect())
            .unwrap_or_default();
        return crate::replay_with("C16", |shard| {
            check_set(&keys, shard);
            if keys.len() == 2 {
                check_order_pair(&keys[0], &keys[1], shard);
            }
        });
    }

    let total_keys = rv_common::scaled(args, args.tier.pick(250_000_000, 5_000_000_000));
    let per_shard = total_keys / args.threads as u64 + 1;
    let budget = Duration::from_secs(rv_common::budget_secs(args.tier, 40, 600));
    report.run_shards(16, args.threads, budget, |_idx, rng, shard| {
        let mut done = 0u64;
        let mut cross_seen: u64 = 0;
        while done < per_shard && !shard.time_up() {
            let kind = match rng.below(10) {
                0 => 0,
                1..=3 => 1,
                4..=7 => 2,
                _ => 3,
            };
            let target = match rng.below(4) {
                0 => 40,
                1 => 200,
                2 => 600,
                _ => 1500,
            };
            let set = gen_set(rng, kind, target);
            let before = shard.evaluations;
            check_set(&set, shard);
            // explicit pairwise order checks on boundary prefixes
            if kind == 2 {
                for _ in 0..(set.len() / 4).max(8) {
                    let a = rng.pick(&set).clone();
                    let mut b = rng.pick(&set).clone();
                    if let (LKey::Sorted(pa, _), LKey::Sorted(pb, kb)) = (&a, &mut b) {
                        if rng.chance(1, 2) {
                            // neighbour prefix: +-1 as u16, same or different inner key
                            let u = u16::from_be_bytes(*pa);
                            let v = if rng.bool() { u.wrapping_add(1) } else { u.wrapping_sub(1) };
                            *pb = v.to_be_bytes();
                            if rng.chance(1, 3) {
                                if let LKey::Sorted(_, ka) = &a {
                                    *kb = ka.clone();
                                }
                            }
                        }
                    }
                    check_order_pair(&a, &b, shard);
                }
                // informational: cross-kind coincidence sorted db key == map db key of crafted map key
                if cross_seen < 2000 {
                    if let LKey::Sorted(p, k) = rng.pick(&set) {
                        let sdb = M::sorted_to_db_sort_key(&(*p, k.clone()));
                        let mdb = M::map_to_db_sort_key(&sdb.0[22.min(sdb.0.len())..].to_vec());
                        let fdb = M::field_to_db_sort_key(&p[0]);
                        shard.count("cross_kind_probes");
                        if sdb == mdb || sdb == fdb {
                            shard.count("cross_kind_db_coincidences(informational)");
                        }
                        cross_seen += 1;
                    }
                }
            }
            if shard.want_sample() && kind != 0 {
                let k = &set[0];
                shard.sample(|| json!({"set_kind": k.kind(), "set_size": set.len(), "first_key": k.to_json()}));
            }
            done += shard.evaluations - before;
        }
    });
    report.finish()
}
