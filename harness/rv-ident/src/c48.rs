//! C48 - Signature primitives verify exactly the signed messages.
//!
//! Oracle (from the property text): sign -> verify is true; secp256k1 recovery returns the signer;
//! every single-byte XOR change of message, signature or public key makes verification fail (false /
//! None / another key - never a panic); a BLS aggregate verifies iff every component signature is a
//! signature of its (key, message) pair.
use num_bigint::BigUint;
use radix_common::prelude::*;
use rv_common::{catch, hex as hx, unhex, Args, Report, Rng, Shard, Spec};
use serde_json::{json, Value};
use std::time::Duration;

#[derive(Clone, Copy, Debug, PartialEq, Eq)]
pub enum Target {
    Msg,
    Sig,
    Key,
}
impl Target {
    fn name(&self) -> &'static str {
        match self {
            Target::Msg => "message",
            Target::Sig => "signature",
            Target::Key => "key",
        }
    }
    fn from_name(s: &str) -> Option<Target> {
        match s {
            "message" => Some(Target::Msg),
            "signature" => Some(Target::Sig),
            "key" => Some(Target::Key),
            _ => None,
        }
    }
}

/// (target, position, xor mask)
pub type Mutation = (Target, usize, u8);

#[derive(Clone, Copy, PartialEq, Eq)]
pub enum Mode {
    Sampled,
    Exhaustive,
}

fn plan(rng: &mut Rng, mode: Mode, msg_len: usize, sig_len: usize, key_len: usize, max_msg_positions: usize) -> Vec<Mutation> {
    let mut v = vec![];
    let positions = |len: usize, cap: usize, rng: &mut Rng| -> Vec<usize> {
        if len <= cap {
            (0..len).collect()
        } else {
            let mut p = vec![0, len - 1];
            while p.len() < cap {
                p.push(rng.usize_below(len));
            }
            p
        }
    };
    for (t, len, cap) in [(Target::Msg, msg_len, max_msg_positions), (Target::Sig, sig_len, usize::MAX), (Target::Key, key_len, usize::MAX)] {
        for pos in positions(len, cap, rng) {
            match mode {
                Mode::Exhaustive if t != Target::Msg => {
                    for m in 1..=255u8 {
                        v.push((t, pos, m));
                    }
                }
                _ => {
                    // one single-bit flip and one random mask per position
                    v.push((t, pos, 1 << rng.below(8)));
                    v.push((t, pos, rng.range(1, 255) as u8));
                }
            }
        }
    }
    v
}

fn apply(m: &Mutation, msg: &mut [u8], sig: &mut [u8], key: &mut [u8]) {
    let (t, pos, mask) = *m;
    let buf = match t {
        Target::Msg => msg,
        Target::Sig => sig,
        Target::Key => key,
    };
    if pos < buf.len() {
        buf[pos] ^= mask;
    }
}

fn case_json(scheme: &str, seed: &[u8], msg: &[u8]) -> Value {
    json!({"scheme": scheme, "seed": hx(seed), "msg": hx(msg)})
}
fn mut_json(m: &Mutation) -> Value {
    json!({"target": m.0.name(), "pos": m.1, "mask": m.2})
}

// ---------------------------------------------------------------------------------------------
// Ed25519
// ---------------------------------------------------------------------------------------------
pub fn check_ed25519(seed: &[u8; 32], msg: &[u8], muts: &[Mutation], shard: &mut Shard) {
    let case = case_json("ed25519", seed, msg);
    let Ok(sk) = Ed25519PrivateKey::from_bytes(seed) else {
        shard.count("ed25519_key_rejected");
        return;
    };
    let signed = catch(std::panic::AssertUnwindSafe(|| {
        let pk = sk.public_key();
        let sig = sk.sign(msg);
        (pk, sig, verify_ed25519(msg, &pk, &sig))
    }));
    shard.eval();
    let (pk, sig) = match signed {
        Err(p) => {
            shard.violation("ed25519:sign-verify-panic", json!({"case": case, "panic": p.summary()}));
            return;
        }
        Ok((pk, sig, ok)) => {
            shard.count("ed25519:honest");
            if !ok {
                shard.violation("ed25519:honest-signature-rejected", json!({"case": case}));
                return;
            }
            (pk, sig)
        }
    };
    shard.nontrivial(&("ed25519", rv_common::h64(&(seed, msg)) & 0xffff, msg.len().min(70)));
    // length changes of the message
    for (what, m2) in [("append", [msg, &[0u8][..]].concat()), ("truncate", msg[..msg.len().saturating_sub(1)].to_vec()), ("prepend", [&[0u8][..], msg].concat())] {
        if m2 == msg {
            continue;
        }
        shard.eval();
        shard.count("ed25519:message-length-change");
        if let Ok(true) | Err(_) = catch(std::panic::AssertUnwindSafe(|| verify_ed25519(&m2, &pk, &sig))) {
            shard.violation("ed25519:message-change-still-verifies", json!({"case": case, "change": what}));
        }
    }
    for m in muts {
        let (mut mm, mut ss, mut kk) = (msg.to_vec(), sig.0, pk.0);
        apply(m, &mut mm, &mut ss, &mut kk);
        if mm == msg && ss == sig.0 && kk == pk.0 {
            continue;
        }
        shard.eval();
        shard.count(&format!("ed25519:mutated-{}", m.0.name()));
        let r = catch(std::panic::AssertUnwindSafe(|| verify_ed25519(&mm, &Ed25519PublicKey(kk), &Ed25519Signature(ss))));
        match r {
            Ok(false) => {}
            Ok(true) => shard.violation(
                format!("ed25519:mutated-{}-still-verifies", m.0.name()),
                json!({"case": case, "mutation": mut_json(m)}),
            ),
            Err(p) => shard.violation(
                format!("ed25519:verify-panic-on-mutated-{}", m.0.name()),
                json!({"case": case, "mutation": mut_json(m), "panic": p.summary()}),
            ),
        }
    }
}

/// Hostile keys: small-order Ed25519 points as public key and as R (S = 0), and the BLS point at
/// infinity as key and signature. No (key, signature) pair may verify for two different messages
/// ("any change to the message makes verification fail").
pub fn check_weak_keys(shard: &mut Shard) {
    const SMALL_ORDER: [&str; 10] = [
        "0100000000000000000000000000000000000000000000000000000000000000",
        "ecffffffffffffffffffffffffffffffffffffffffffffffffffffffffffff7f",
        "0000000000000000000000000000000000000000000000000000000000000000",
        "0000000000000000000000000000000000000000000000000000000000000080",
        "26e8958fc2b227b045c3f489f2ef98f0d5dfac05d3c63339b13802886d53fc05",
        "26e8958fc2b227b045c3f489f2ef98f0d5dfac05d3c63339b13802886d53fc85",
        "c7176a703d4dd84fba3c0b760d10670f2a2053fa2c39ccc64ec7fd7792ac037a",
        "c7176a703d4dd84fba3c0b760d10670f2a2053fa2c39ccc64ec7fd7792ac03fa",
        // non-canonical encodings of the identity / order-2 point
        "0100000000000000000000000000000000000000000000000000000000000080",
        "eeffffffffffffffffffffffffffffffffffffffffffffffffffffffffffff7f",
    ];
    let msgs: Vec<Vec<u8>> = (0u8..16).map(|i| vec![i; (i as usize) + 1]).collect();
    for a in SMALL_ORDER {
        for r in SMALL_ORDER {
            let mut key = [0u8; 32];
            key.copy_from_slice(&unhex(a));
            let mut sig = [0u8; 64];
            sig[..32].copy_from_slice(&unhex(r));
            let mut accepted = vec![];
            for m in &msgs {
                shard.eval();
                shard.count("ed25519:weak-key-probes");
                match catch(std::panic::AssertUnwindSafe(|| verify_ed25519(m, &Ed25519PublicKey(key), &Ed25519Signature(sig)))) {
                    Ok(true) => accepted.push(hx(m)),
                    Ok(false) => {}
                    Err(p) => shard.violation("ed25519:verify-panic-on-weak-key", json!({"key": a, "sig_r": r, "panic": p.summary()})),
                }
            }
            shard.nontrivial(&("ed25519-weak", a, r, accepted.len()));
            if accepted.len() >= 2 {
                shard.violation(
                    "ed25519:weak-key-signature-verifies-for-different-messages",
                    json!({"case": {"scheme": "weak-keys"}, "key": a, "signature": hx(&sig), "messages": accepted}),
                );
            }
        }
    }
    // BLS: point at infinity (compressed form: 0xc0 then zeros)
    let mut pk = [0u8; 48];
    pk[0] = 0xc0;
    let mut sg = [0u8; 96];
    sg[0] = 0xc0;
    let mut accepted = 0;
    for m in msgs.iter().take(4) {
        shard.eval();
        shard.count("bls:weak-key-probes");
        let r = catch(std::panic::AssertUnwindSafe(|| {
            (
                verify_bls12381_v1(m, &Bls12381G1PublicKey(pk), &Bls12381G2Signature(sg)),
                aggregate_verify_bls12381_v1(&[(Bls12381G1PublicKey(pk), m.clone())], &Bls12381G2Signature(sg)),
                fast_aggregate_verify_bls12381_v1(m, &[Bls12381G1PublicKey(pk)], &Bls12381G2Signature(sg)),
                fast_aggregate_verify_bls12381_v1_anemone(m, &[Bls12381G1PublicKey(pk)], &Bls12381G2Signature(sg)),
            )
        }));
        match r {
            Ok((a, b, c, d)) => {
                if a || b || c || d {
                    accepted += 1;
                }
            }
            Err(p) => shard.violation("bls:verify-panic-on-infinity-key", json!({"panic": p.summary()})),
        }
    }
    shard.nontrivial(&("bls-weak", accepted));
    if accepted >= 2 {
        shard.violation("bls:infinity-key-signature-verifies-for-different-messages", json!({"case": {"scheme": "weak-keys"}}));
    }
}

// ---------------------------------------------------------------------------------------------
// Secp256k1
// ---------------------------------------------------------------------------------------------
fn secp_order() -> BigUint {
    BigUint::parse_bytes(b"FFFFFFFFFFFFFFFFFFFFFFFFFFFFFFFEBAAEDCE6AF48A03BBFD25E8CD0364141", 16).unwrap()
}

/// `msg` is hashed when `raw_hash` is false, otherwise its first 32 bytes are the digest itself.
pub fn check_secp256k1(seed: &[u8; 32], msg: &[u8], raw_hash: bool, muts: &[Mutation], shard: &mut Shard) {
    let mut case = case_json("secp256k1", seed, msg);
    case["raw_hash"] = json!(raw_hash);
    let Ok(sk) = Secp256k1PrivateKey::from_bytes(seed) else {
        shard.count("secp256k1_key_rejected");
        return;
    };
    let h: Hash = if raw_hash && msg.len() >= 32 {
        let mut a = [0u8; 32];
        a.copy_from_slice(&msg[..32]);
        Hash(a)
    } else {
        hash(msg)
    };
    let signed = catch(std::panic::AssertUnwindSafe(|| {
        let pk = sk.public_key();
        let sig = sk.sign(&h);
        let ok = verify_secp256k1(&h, &pk, &sig);
        let rec = verify_and_recover_secp256k1(&h, &sig);
        let recu = verify_and_recover_secp256k1_uncompressed(&h, &sig);
        (pk, sig, ok, rec, recu)
    }));
    shard.eval();
    let (pk, sig) = match signed {
        Err(p) => {
            shard.violation("secp256k1:sign-verify-panic", json!({"case": case, "panic": p.summary()}));
            return;
        }
        Ok((pk, sig, ok, rec, recu)) => {
            shard.count("secp256k1:honest");
            shard.seen("secp256k1_recovery_ids", &sig.0[0].to_string());
            if !ok {
                shard.violation("secp256k1:honest-signature-rejected", json!({"case": case}));
                return;
            }
            if rec != Some(pk) {
                shard.violation("secp256k1:recovery-does-not-return-signer", json!({"case": case, "recovered": rec.map(|k| hx(&k.0))}));
                return;
            }
            let u_ok = match &recu {
                Some(u) => u.0[0] == 4 && u.0[1..33] == pk.0[1..33] && pk.0[0] == 2 + (u.0[64] & 1),
                None => false,
            };
            if !u_ok {
                shard.violation("secp256k1:uncompressed-recovery-does-not-return-signer", json!({"case": case, "recovered": recu.map(|k| hx(&k.0))}));
            }
            (pk, sig)
        }
    };
    shard.nontrivial(&("secp256k1", rv_common::h64(&(seed, msg)) & 0xffff, raw_hash, sig.0[0]));
    // A digest that is 0 modulo the group order is not the hash of any known message; for it ECDSA
    // accepts the negated key by construction (R = (r/s)P has the same x as -(r/s)P). Such digests can
    // only be fed through the raw-digest entry points; they are outside "every key pair and message"
    // and are only counted.
    let degenerate_digest = (BigUint::from_bytes_be(&h.0) % secp_order()) == BigUint::from(0u8);
    if degenerate_digest {
        shard.count("secp256k1_digest_zero_mod_n_cases(informational)");
    }

    // informational: the (r, n-s, v^1) twin - a multi-byte change, outside the single-byte quantifier
    {
        let n = secp_order();
        let s = BigUint::from_bytes_be(&sig.0[33..65]);
        let s2 = (&n - &s).to_bytes_be();
        let mut twin = sig.0;
        twin[33..65].fill(0);
        twin[65 - s2.len()..65].copy_from_slice(&s2);
        twin[0] ^= 1;
        let tw = Secp256k1Signature(twin);
        if let Ok((rec, ver)) = catch(std::panic::AssertUnwindSafe(|| (verify_and_recover_secp256k1(&h, &tw), verify_secp256k1(&h, &pk, &tw)))) {
            shard.count("secp256k1_high_s_twin_probes(informational)");
            if rec == Some(pk) {
                shard.count("secp256k1_high_s_twin_recovers_signer(informational)");
            }
            if ver {
                shard.count("secp256k1_high_s_twin_verifies(informational)");
            }
        }
    }

    for m in muts {
        let (mut hh, mut ss, mut kk) = (h.0, sig.0, pk.0);
        apply(m, &mut hh, &mut ss, &mut kk);
        if hh == h.0 && ss == sig.0 && kk == pk.0 {
            continue;
        }
        shard.eval();
        shard.count(&format!("secp256k1:mutated-{}", m.0.name()));
        let (h2, s2, k2) = (Hash(hh), Secp256k1Signature(ss), Secp256k1PublicKey(kk));
        let r = catch(std::panic::AssertUnwindSafe(|| {
            let v = verify_secp256k1(&h2, &k2, &s2);
            let rec = if m.0 == Target::Key { None } else { verify_and_recover_secp256k1(&h2, &s2) };
            let recu = if m.0 == Target::Key { None } else { verify_and_recover_secp256k1_uncompressed(&h2, &s2) };
            // consistency probe: what recovery returns should verify
            let consistent = match &rec {
                Some(q) => Some(verify_secp256k1(&h2, q, &s2)),
                None => None,
            };
            (v, rec, recu, consistent)
        }));
        match r {
            Err(p) => shard.violation(
                format!("secp256k1:verify-panic-on-mutated-{}", m.0.name()),
                json!({"case": case, "mutation": mut_json(m), "panic": p.summary()}),
            ),
            Ok((v, rec, recu, consistent)) => {
                if v && degenerate_digest && m.0 == Target::Key {
                    shard.count("secp256k1_zero_digest_other_key_verifies(informational)");
                } else if v {
                    let sub = if m.0 == Target::Sig && m.1 == 0 { "recovery-id-byte" } else { m.0.name() };
                    shard.violation(
                        format!("secp256k1:verify:mutated-{sub}-still-verifies"),
                        json!({"case": case, "mutation": mut_json(m), "signature": hx(&sig.0), "mutated_signature": hx(&ss)}),
                    );
                }
                if rec == Some(pk) {
                    shard.violation(
                        format!("secp256k1:recover:mutated-{}-still-recovers-signer", m.0.name()),
                        json!({"case": case, "mutation": mut_json(m)}),
                    );
                }
                if let Some(u) = &recu {
                    if u.0[1..33] == pk.0[1..33] && pk.0[0] == 2 + (u.0[64] & 1) {
                        shard.violation(
                            format!("secp256k1:recover-uncompressed:mutated-{}-still-recovers-signer", m.0.name()),
                            json!({"case": case, "mutation": mut_json(m)}),
                        );
                    }
                }
                match (&rec, &recu) {
                    (Some(c), Some(u)) if u.0[1..33] == c.0[1..33] => shard.count("secp256k1_recovered_other_key"),
                    (None, None) => shard.count("secp256k1_recovery_failed"),
                    _ => shard.count("secp256k1_compressed_uncompressed_recovery_disagree(informational)"),
                }
                if consistent == Some(false) {
                    shard.count("secp256k1_recovered_key_does_not_verify(informational)");
                }
            }
        }
    }
}

// ---------------------------------------------------------------------------------------------
// BLS12-381
// ---------------------------------------------------------------------------------------------
fn bls_key(seed: &[u8; 32]) -> Option<Bls12381G1PrivateKey> {
    let mut s = *seed;
    s[0] &= 0x3f; // below the group order
    if s.iter().all(|b| *b == 0) {
        s[31] = 1;
    }
    Bls12381G1PrivateKey::from_bytes(&s).ok()
}

pub fn check_bls(seed: &[u8; 32], msg: &[u8], muts: &[Mutation], shard: &mut Shard) {
    let case = case_json("bls12381", seed, msg);
    let Some(sk) = bls_key(seed) else {
        shard.count("bls_key_rejected");
        return;
    };
    let signed = catch(std::panic::AssertUnwindSafe(|| {
        let pk = sk.public_key();
        let sig = sk.sign_v1(msg);
        (pk, sig, verify_bls12381_v1(msg, &pk, &sig))
    }));
    shard.eval();
    let (pk, sig) = match signed {
        Err(p) => {
            shard.violation("bls:sign-verify-panic", json!({"case": case, "panic": p.summary()}));
            return;
        }
        Ok((pk, sig, ok)) => {
            shard.count("bls:honest");
            if !ok {
                shard.violation("bls:honest-signature-rejected", json!({"case": case}));
                return;
            }
            (pk, sig)
        }
    };
    shard.nontrivial(&("bls", rv_common::h64(&(seed, msg)) & 0xffff, msg.len().min(70)));
    // single-element aggregate forms must agree with plain verification
    shard.eval();
    match catch(std::panic::AssertUnwindSafe(|| {
        (
            aggregate_verify_bls12381_v1(&[(pk, msg.to_vec())], &sig),
            fast_aggregate_verify_bls12381_v1(msg, &[pk], &sig),
            fast_aggregate_verify_bls12381_v1_anemone(msg, &[pk], &sig),
        )
    })) {
        Ok((true, true, true)) => {}
        other => shard.violation("bls:single-element-aggregate-disagrees", json!({"case": case, "got": format!("{other:?}")})),
    }
    for m in muts {
        let (mut mm, mut ss, mut kk) = (msg.to_vec(), sig.0, pk.0);
        apply(m, &mut mm, &mut ss, &mut kk);
        if mm == msg && ss == sig.0 && kk == pk.0 {
            continue;
        }
        shard.eval();
        shard.count(&format!("bls:mutated-{}", m.0.name()));
        let r = catch(std::panic::AssertUnwindSafe(|| verify_bls12381_v1(&mm, &Bls12381G1PublicKey(kk), &Bls12381G2Signature(ss))));
        match r {
            Ok(false) => {}
            Ok(true) => shard.violation(
                format!("bls:mutated-{}-still-verifies", m.0.name()),
                json!({"case": case, "mutation": mut_json(m)}),
            ),
            Err(p) => shard.violation(
                format!("bls:verify-panic-on-mutated-{}", m.0.name()),
                json!({"case": case, "mutation": mut_json(m), "panic": p.summary()}),
            ),
        }
    }
}

/// Aggregate verification: `seeds[i]` signs `msgs[i]`; variants are derived from `vseed`.
pub fn check_bls_aggregate(seeds: &[[u8; 32]], msgs: &[Vec<u8>], vseed: u64, shard: &mut Shard) {
    let case = json!({"scheme": "bls-aggregate", "seeds": seeds.iter().map(|s| hx(s)).collect::<Vec<_>>(),
                      "msgs": msgs.iter().map(|m| hx(m)).collect::<Vec<_>>(), "vseed": vseed.to_string()});
    let n = seeds.len();
    let sks: Vec<Bls12381G1PrivateKey> = match seeds.iter().map(bls_key).collect::<Option<Vec<_>>>() {
        Some(v) => v,
        None => return,
    };
    let pks: Vec<Bls12381G1PublicKey> = sks.iter().map(|k| k.public_key()).collect();
    let sigs: Vec<Bls12381G2Signature> = sks.iter().zip(msgs).map(|(k, m)| k.sign_v1(m)).collect();
    let mut rng = Rng::new(vseed);
    shard.count("bls_aggregate_cases");
    shard.max("bls_aggregate_size", n as u64);

    let agg = |sigs: &[Bls12381G2Signature]| Bls12381G2Signature::aggregate(sigs, true).ok();
    let judge = |shard: &mut Shard, what: &str, want: bool, pairs: &[(Bls12381G1PublicKey, Vec<u8>)], sig: &Bls12381G2Signature| {
        shard.eval();
        shard.count(&format!("bls_aggregate:{}:{}", if want { "valid" } else { "invalid" }, what));
        shard.nontrivial(&("bls-agg", what.to_string(), pairs.len(), want));
        match catch(std::panic::AssertUnwindSafe(|| aggregate_verify_bls12381_v1(pairs, sig))) {
            Ok(got) if got == want => {}
            Ok(got) => shard.violation(
                format!("bls-aggregate:{what}:{}", if got { "accepted" } else { "rejected" }),
                json!({"case": case, "variant": what, "expected": want, "got": got}),
            ),
            Err(p) => shard.violation(format!("bls-aggregate:{what}:panic"), json!({"case": case, "variant": what, "panic": p.summary()})),
        }
    };
    let pairs: Vec<(Bls12381G1PublicKey, Vec<u8>)> = pks.iter().cloned().zip(msgs.iter().cloned()).collect();

    if n == 0 {
        // no components: aggregation itself is refused; a genuine signature cannot be the aggregate of nothing
        if agg(&[]).is_some() {
            shard.violation("bls-aggregate:empty:aggregate-of-nothing-produced", json!({"case": case}));
        }
        let some_sig = bls_key(&[7u8; 32]).unwrap().sign_v1(b"x");
        judge(shard, "empty-list", false, &[], &some_sig);
        shard.eval();
        match catch(|| fast_aggregate_verify_bls12381_v1(b"x", &[], &bls_key(&[7u8; 32]).unwrap().sign_v1(b"x"))) {
            Ok(false) => {}
            other => shard.violation("bls-fast-aggregate:empty-key-list", json!({"case": case, "got": format!("{other:?}")})),
        }
        return;
    }
    let Some(good) = agg(&sigs) else {
        shard.violation("bls-aggregate:honest-aggregation-failed", json!({"case": case}));
        return;
    };
    // anemone aggregation must give the same aggregate
    if Bls12381G2Signature::aggregate_anemone(&sigs).ok() != Some(good) {
        shard.violation("bls-aggregate:anemone-aggregate-differs", json!({"case": case}));
    }
    judge(shard, "all-valid", true, &pairs, &good);
    // order of the pairs is irrelevant
    if n >= 2 {
        let mut p2 = pairs.clone();
        rng.shuffle(&mut p2);
        judge(shard, "all-valid-permuted", true, &p2, &good);
    }
    let i = rng.usize_below(n);
    // one bad component: signature over another message
    {
        let mut s2 = sigs.clone();
        let mut other = msgs[i].clone();
        other.push(1);
        s2[i] = sks[i].sign_v1(&other);
        if let Some(a) = agg(&s2) {
            judge(shard, "one-component-signs-other-message", false, &pairs, &a);
        }
    }
    // one bad component: signed by another key
    {
        let mut s2 = sigs.clone();
        let mut seed2 = seeds[i];
        seed2[31] ^= 0x55;
        seed2[5] ^= 1;
        if let Some(k2) = bls_key(&seed2) {
            s2[i] = k2.sign_v1(&msgs[i]);
            if let Some(a) = agg(&s2) {
                judge(shard, "one-component-signed-by-other-key", false, &pairs, &a);
            }
        }
    }
    // message in the list changed by one byte / extended
    {
        let mut p2 = pairs.clone();
        if p2[i].1.is_empty() {
            p2[i].1.push(0);
        } else {
            let pos = rng.usize_below(p2[i].1.len());
            p2[i].1[pos] ^= 1 << rng.below(8);
        }
        judge(shard, "listed-message-mutated", false, &p2, &good);
    }
    // key in the list replaced by another signer's key (when it differs)
    if n >= 2 {
        let j = (i + 1 + rng.usize_below(n - 1)) % n;
        if pks[i] != pks[j] {
            let mut p2 = pairs.clone();
            p2[i].0 = pks[j];
            // still valid only if the pair multiset is unchanged, i.e. same message and we effectively duplicated j
            let same = msgs[i] == msgs[j] && false;
            judge(shard, "listed-key-replaced", same, &p2, &good);
        }
        if pairs[i] != pairs[j] && (msgs[i] != msgs[j]) && (pks[i] != pks[j]) {
            let mut p2 = pairs.clone();
            let tmp = p2[i].1.clone();
            p2[i].1 = p2[j].1.clone();
            p2[j].1 = tmp;
            judge(shard, "messages-swapped", false, &p2, &good);
        }
    }
    // a pair dropped / an unsigned pair added
    if n >= 2 {
        let mut p2 = pairs.clone();
        p2.remove(i);
        judge(shard, "pair-dropped", false, &p2, &good);
    }
    {
        let mut p2 = pairs.clone();
        p2.push((pks[i], b"never signed".to_vec()));
        judge(shard, "unsigned-pair-added", false, &p2, &good);
    }
    // component left out of the aggregate signature
    if n >= 2 {
        let mut s2 = sigs.clone();
        s2.remove(i);
        if let Some(a) = agg(&s2) {
            judge(shard, "component-signature-missing", false, &pairs, &a);
        }
    }
    // aggregate signature bytes mutated
    for _ in 0..3 {
        let mut a = good;
        let pos = rng.usize_below(96);
        a.0[pos] ^= rng.range(1, 255) as u8;
        judge(shard, "aggregate-signature-mutated", false, &pairs, &a);
    }
    // same key signing two different messages (duplicated key) is fine
    {
        let mut extra_msg = msgs[i].clone();
        extra_msg.extend_from_slice(b"#2");
        let mut s2 = sigs.clone();
        s2.push(sks[i].sign_v1(&extra_msg));
        let mut p2 = pairs.clone();
        p2.push((pks[i], extra_msg));
        if let Some(a) = agg(&s2) {
            judge(shard, "duplicated-key-distinct-messages", true, &p2, &a);
        }
    }

    // fast aggregate: every key signs msgs[0]
    let m0 = &msgs[0];
    let fsigs: Vec<Bls12381G2Signature> = sks.iter().map(|k| k.sign_v1(m0)).collect();
    let Some(fgood) = agg(&fsigs) else {
        shard.violation("bls-fast-aggregate:honest-aggregation-failed", json!({"case": case}));
        return;
    };
    let fjudge = |shard: &mut Shard, what: &str, want: bool, msg: &[u8], keys: &[Bls12381G1PublicKey], sig: &Bls12381G2Signature| {
        for anemone in [false, true] {
            shard.eval();
            shard.count(&format!("bls_fast_aggregate:{}:{}", if want { "valid" } else { "invalid" }, what));
            shard.nontrivial(&("bls-fagg", what.to_string(), keys.len(), want, anemone));
            let r = catch(std::panic::AssertUnwindSafe(|| {
                if anemone {
                    fast_aggregate_verify_bls12381_v1_anemone(msg, keys, sig)
                } else {
                    fast_aggregate_verify_bls12381_v1(msg, keys, sig)
                }
            }));
            let name = if anemone { "bls-fast-aggregate-anemone" } else { "bls-fast-aggregate" };
            match r {
                Ok(got) if got == want => {}
                Ok(got) => shard.violation(
                    format!("{name}:{what}:{}", if got { "accepted" } else { "rejected" }),
                    json!({"case": case, "variant": what, "expected": want, "got": got}),
                ),
                Err(p) => shard.violation(format!("{name}:{what}:panic"), json!({"case": case, "variant": what, "panic": p.summary()})),
            }
        }
    };
    fjudge(shard, "all-valid", true, m0, &pks, &fgood);
    {
        let mut s2 = fsigs.clone();
        let mut other = m0.clone();
        other.push(9);
        s2[i] = sks[i].sign_v1(&other);
        if let Some(a) = agg(&s2) {
            fjudge(shard, "one-component-signs-other-message", false, m0, &pks, &a);
        }
    }
    {
        let mut mm = m0.clone();
        mm.push(0);
        fjudge(shard, "message-extended", false, &mm, &pks, &fgood);
    }
    // distinct keys only: dropping or adding a key changes the aggregate key
    let distinct = {
        let mut s = pks.clone();
        s.sort();
        s.dedup();
        s.len() == n
    };
    if n >= 2 && distinct {
        let mut k2 = pks.clone();
        k2.remove(i);
        fjudge(shard, "key-dropped", false, m0, &k2, &fgood);
    }
    if let Some(kx) = bls_key(&[0x42; 32]) {
        let mut k2 = pks.clone();
        k2.push(kx.public_key());
        fjudge(shard, "key-added", false, m0, &k2, &fgood);
    }
    {
        let mut k2 = pks.clone();
        let pos = rng.usize_below(48);
        k2[i].0[pos] ^= 1 << rng.below(8);
        fjudge(shard, "listed-key-mutated", false, m0, &k2, &fgood);
    }
}

// ---------------------------------------------------------------------------------------------
// Generators / driver
// ---------------------------------------------------------------------------------------------
fn gen_seed(rng: &mut Rng) -> [u8; 32] {
    let mut s = [0u8; 32];
    match rng.below(8) {
        0 => s[24..].copy_from_slice(&rng.below(1000).max(1).to_be_bytes()), // small scalars (from_u64 style)
        1 => {
            rng.fill(&mut s);
            s[..16].fill(0);
        }
        2 => {
            s = [0xFF; 32];
            s[0] = 0x7F;
            s[31] = rng.u8();
        }
        _ => rng.fill(&mut s),
    }
    if s.iter().all(|b| *b == 0) {
        s[31] = 1;
    }
    s
}

fn gen_msg(rng: &mut Rng) -> Vec<u8> {
    let len = match rng.below(10) {
        0 => 0,
        1 => 1,
        2 => 32,
        3 => 64,
        4 => rng.range(1000, 2048) as usize,
        5 => rng.range(100, 300) as usize,
        _ => rng.range(1, 80) as usize,
    };
    match rng.below(6) {
        0 => vec![0u8; len],
        1 => vec![0xFF; len],
        _ => rng.bytes(len),
    }
}

fn seed_from(v: &Value) -> Option<[u8; 32]> {
    let b = unhex(v.as_str()?);
    if b.len() != 32 {
        return None;
    }
    let mut a = [0u8; 32];
    a.copy_from_slice(&b);
    Some(a)
}

pub fn run(args: &Args) -> i32 {
    let spec = Spec::new(
        "C48",
        "exploration",
        "Ed25519 / Secp256k1 / BLS12-381: honest signature verifies, secp256k1 recovery (compressed and uncompressed) returns \
         the signer; every single-byte XOR change of message, signature or public key => verify false / recovery not the signer, \
         never a panic; BLS aggregate / fast-aggregate verify <=> every component is the signer's signature of the listed message",
    )
    .assume("BLS aggregate components are honest signatures or independently corrupted ones (no adversarially cancelling pairs of invalid components)")
    .assume("mutations are single-byte XORs (plus message length changes); multi-byte malleability such as the ECDSA (r, n-s, v^1) twin is only counted, see counters *_informational")
    .floor("evaluations", args.tier.pick(500000, 6666666))
    .floor("ed25519:honest", args.tier.pick(333, 8333))
    .floor("secp256k1:honest", args.tier.pick(333, 8333))
    .floor("bls:honest", args.tier.pick(83, 1333))
    .floor("ed25519:mutated-signature", args.tier.pick(83333, 1333333))
    .floor("ed25519:mutated-key", args.tier.pick(16666, 333333))
    .floor("ed25519:mutated-message", args.tier.pick(8333, 166666))
    .floor("secp256k1:mutated-signature", args.tier.pick(83333, 1333333))
    .floor("secp256k1:mutated-key", args.tier.pick(16666, 333333))
    .floor("secp256k1:mutated-message", args.tier.pick(8333, 166666))
    .floor("bls:mutated-signature", args.tier.pick(3333, 66666))
    .floor("bls:mutated-key", args.tier.pick(1666, 33333))
    .floor("bls:mutated-message", args.tier.pick(500, 10000))
    .floor("ed25519:weak-key-probes", 1600)
    .floor("bls_aggregate_cases", args.tier.pick(50, 1000))
    .floor("bls_aggregate:valid:all-valid", args.tier.pick(41, 833))
    .floor("bls_aggregate:invalid:one-component-signs-other-message", args.tier.pick(41, 833))
    .explain("evaluations = individual verify / recover calls judged; distinct_nontrivial = distinct (scheme, key+message fingerprint, shape) cases and aggregate variants");
    let mut report = Report::new(args, spec);

    if let Some(path) = &args.replay {
        let detail = crate::load_replay_detail(path);
        let case = detail.get("case").cloned().unwrap_or(Value::Null);
        let muts: Vec<Mutation> = detail
            .get("mutation")
            .and_then(|m| Some((Target::from_name(m.get("target")?.as_str()?)?, m.get("pos")?.as_u64()? as usize, m.get("mask")?.as_u64()? as u8)))
            .into_iter()
            .collect();
        return crate::replay_with("C48", |shard| {
            let scheme = case.get("scheme").and_then(|s| s.as_str()).unwrap_or("");
            let msg = unhex(case.get("msg").and_then(|s| s.as_str()).unwrap_or(""));
            match scheme {
                "ed25519" => {
                    if let Some(seed) = seed_from(&case["seed"]) {
                        check_ed25519(&seed, &msg, &muts, shard)
                    }
                }
                "secp256k1" => {
                    if let Some(seed) = seed_from(&case["seed"]) {
                        check_secp256k1(&seed, &msg, case["raw_hash"].as_bool().unwrap_or(false), &muts, shard)
                    }
                }
                "bls12381" => {
                    if let Some(seed) = seed_from(&case["seed"]) {
                        check_bls(&seed, &msg, &muts, shard)
                    }
                }
                "bls-aggregate" => {
                    let seeds: Vec<[u8; 32]> = case["seeds"].as_array().map(|a| a.iter().filter_map(seed_from).collect()).unwrap_or_default();
                    let msgs: Vec<Vec<u8>> = case["msgs"].as_array().map(|a| a.iter().map(|m| unhex(m.as_str().unwrap_or(""))).collect()).unwrap_or_default();
                    let vseed = case["vseed"].as_str().and_then(|s| s.parse().ok()).unwrap_or(0);
                    check_bls_aggregate(&seeds, &msgs, vseed, shard);
                }
                "weak-keys" => check_weak_keys(shard),
                other => eprintln!("unknown scheme {other:?}"),
            }
        });
    }

    let total = rv_common::scaled(args, args.tier.pick(6_000_000, 140_000_000));
    let per_shard = total / args.threads as u64 + 1;
    let budget_s = rv_common::budget_secs(args.tier, 50, 780);
    let budget = Duration::from_secs(budget_s);
    let start = std::time::Instant::now();
    report.run_shards(48, args.threads, budget, |idx, rng, shard| {
        let mut cases = 0u64;
        // time shares: the slow BLS part gets a fixed share of the wall budget
        let bls_share = Duration::from_secs_f64(budget_s as f64 * 0.45);
        let mut bls_time = Duration::ZERO;
        if idx == 0 {
            check_bls_aggregate(&[], &[], 1, shard);
            check_weak_keys(shard);
        }
        while shard.evaluations < per_shard && !shard.time_up() {
            cases += 1;
            let seed = gen_seed(rng);
            let msg = gen_msg(rng);
            let exhaustive = cases % 40 == 7;
            let mode = if exhaustive { Mode::Exhaustive } else { Mode::Sampled };
            // Ed25519
            let muts = plan(rng, mode, msg.len(), 64, 32, 48);
            check_ed25519(&seed, &msg, &muts, shard);
            if exhaustive {
                shard.count("ed25519:exhaustive-mask-cases");
            }
            // Secp256k1
            let raw = rng.chance(1, 4);
            let mut smsg = msg.clone();
            if raw && smsg.len() < 32 {
                smsg = match rng.below(8) {
                    0 => vec![0u8; 32],
                    1 => vec![0xFF; 32],
                    2 => secp_order().to_bytes_be(),
                    3 => (secp_order() - 1u8).to_bytes_be(),
                    4 => (secp_order() + 1u8).to_bytes_be(),
                    _ => rng.bytes(32),
                };
            }
            let mut muts = plan(rng, mode, 32, 65, 33, 32);
            // the recovery-id byte gets every mask in every case (cheap: most values fail to parse)
            for m in 1..=255u8 {
                muts.push((Target::Sig, 0, m));
            }
            check_secp256k1(&seed, &smsg, raw, &muts, shard);
            if exhaustive {
                shard.count("secp256k1:exhaustive-mask-cases");
            }
            // BLS (slow): only while its time share lasts, and with short plans
            let elapsed = start.elapsed();
            if bls_time < bls_share && bls_time.as_secs_f64() <= elapsed.as_secs_f64() * 0.5 {
                let t0 = std::time::Instant::now();
                let bmsg = if msg.len() > 300 { msg[..300].to_vec() } else { msg.clone() };
                if cases % 3 != 0 {
                    let muts = plan(rng, Mode::Sampled, bmsg.len(), 96, 48, 6);
                    // one mask per position is enough for the slow scheme: keep the bit flips
                    let muts: Vec<Mutation> = muts.into_iter().step_by(2).collect();
                    check_bls(&seed, &bmsg, &muts, shard);
                } else {
                    let n = match rng.below(8) {
                        0 => 1,
                        1 => 2,
                        2 => 8,
                        _ => rng.range(2, 5) as usize,
                    };
                    let mut seeds: Vec<[u8; 32]> = (0..n).map(|_| gen_seed(rng)).collect();
                    let mut msgs: Vec<Vec<u8>> = (0..n).map(|_| { let mut m = gen_msg(rng); m.truncate(200); m }).collect();
                    // sometimes duplicated keys / duplicated messages
                    if n >= 2 && rng.chance(1, 5) {
                        seeds[1] = seeds[0];
                    }
                    if n >= 2 && rng.chance(1, 5) {
                        msgs[1] = msgs[0].clone();
                    }
                    // an identical (key, message) pair twice is a legitimate but unusual aggregate: keep the pairs distinct
                    if n >= 2 && seeds[0] == seeds[1] && msgs[0] == msgs[1] {
                        msgs[1].push(1);
                    }
                    check_bls_aggregate(&seeds, &msgs, rng.u64(), shard);
                }
                bls_time += t0.elapsed();
            }
            if shard.want_sample() && cases % 500 == 1 {
                shard.sample(|| json!({"seed": hx(&seed), "message_len": msg.len(), "secp_raw_hash": raw}));
            }
        }
        shard.add("cases", cases);
    });
    report.finish()
}
