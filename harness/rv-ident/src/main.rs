//! rv-ident: runtime monitors for identifier / key / signature primitives.
//!   C16 database key mapping reversible & order preserving
//!   C28 addresses / non-fungible ids text forms
//!   C37 resource assertions accept exactly the balances they describe (pure half)
//!   C48 signature primitives
mod bech;
mod c16;
mod c28;
mod c37;
mod c48;

fn main() {
    let args = rv_common::parse_args();
    let code = match args.prop.as_str() {
        "C16" => c16::run(&args),
        "C28" => c28::run(&args),
        "C37" => c37::run(&args),
        "C48" => c48::run(&args),
        _ => {
            eprintln!("no check named {}", args.prop);
            2
        }
    };
    std::process::exit(code);
}

/// Shared replay helper: loads the replay document and returns its `detail`.
pub fn load_replay_detail(path: &std::path::Path) -> serde_json::Value {
    let text = std::fs::read_to_string(path).unwrap_or_else(|e| {
        eprintln!("cannot read replay file {}: {e}", path.display());
        std::process::exit(2)
    });
    let doc: serde_json::Value = serde_json::from_str(&text).unwrap_or_else(|e| {
        eprintln!("replay file is not JSON: {e}");
        std::process::exit(2)
    });
    doc.get("detail").cloned().unwrap_or(serde_json::Value::Null)
}

/// Runs a single-case checker on a throw-away shard and prints what it reports.
pub fn replay_with<F: FnOnce(&mut rv_common::Shard)>(prop: &str, f: F) -> i32 {
    let mut shard = rv_common::Shard::new(
        0,
        prop,
        rv_common::Tier::Quick,
        std::time::Instant::now() + std::time::Duration::from_secs(3600),
    );
    f(&mut shard);
    if shard.violations.is_empty() {
        println!("REPLAY property={prop} result=no-violation (case no longer violates)");
        0
    } else {
        for v in &shard.violations {
            println!("REPLAY property={prop} result=still-violates signature={} detail={}", v.signature, v.detail);
        }
        1
    }
}
