//! C46: instrumentation (gas metering + stack limiter) preserves program meaning, and the
//! execution cost charged depends only on the executed code path.
//!
//! Oracle:
//! * differential: the *original* module under plain wasmi (host imports stubbed) vs the
//!   validated+instrumented module under the repository's `WasmiModule` with a unit-counting
//!   runtime: same returned bytes (each export returns the whole memory incl. a digest of its
//!   result and all globals) or same trap class, and the same host call sequence;
//! * determinism: same call on a second instance of the same module, and on an instance obtained
//!   through `WasmiEngine` (cold compile, then cached module) => identical result and charge;
//! * path dependence: (a) `Family` programs: charged(n) is exactly affine in the iteration count;
//!   (b) `Separated` programs: calls that differ only in the data argument are charged equally.
use crate::gen::{generate, Flavour, Program};
use crate::hostfns::{host_fn, HostFn};
use crate::plain::{Outcome, PlainModule, OUT_OF_FUEL};
use crate::rt::{err_class, MonRuntime, MonState};
use radix_common::crypto::hash;
use radix_engine::vm::wasm::{ScryptoV1WasmValidator, WasmEngine, WasmInstance, WasmiEngine, WasmiModule};
use radix_engine::vm::ScryptoVmVersion;
use radix_engine_interface::blueprints::package::CodeHash;
use radix_engine_interface::types::Buffer;
use rv_common::*;
use serde_json::{json, Value};
use std::cell::RefCell;
use std::rc::Rc;
use std::time::Duration;

const PLAIN_FUEL: u64 = 30_000_000;

#[derive(Debug, Clone, PartialEq, Eq)]
pub struct Instr {
    pub out: Outcome,
    pub units: u64,
    pub gas_calls: u64,
}

/// Far above anything a program that finished within PLAIN_FUEL under plain wasmi can be charged.
pub const UNIT_CEILING: u64 = 2_000_000_000_000;

pub fn run_instrumented(inst: &mut dyn WasmInstance, export: &str, args: &[i64]) -> Result<Instr, PanicInfo> {
    let st = Rc::new(RefCell::new(MonState { unit_limit: Some(UNIT_CEILING), ..Default::default() }));
    let mut rt = MonRuntime::boxed(&st);
    let bufs: Vec<Buffer> = args.iter().map(|a| Buffer(*a as u64)).collect();
    let r = catch_mut(|| inst.invoke_export(export, bufs, &mut rt))?;
    let s = st.borrow();
    Ok(Instr {
        out: Outcome { result: r.map_err(|e| err_class(&e)), host_calls: s.calls.iter().map(|c| (c.name.to_string(), c.scalars.clone())).collect() },
        units: s.units,
        gas_calls: s.gas_calls,
    })
}

fn arg_value(rng: &mut Rng) -> i64 {
    match rng.below(14) {
        0 => 0,
        1 => 1,
        2 => -1,
        3 => i64::MIN,
        4 => i64::MAX,
        5 => 2,
        6 => 7,
        7 => 0xffff_ffff,
        8 => 0x1_0000_0000,
        9 => rng.below(64) as i64,
        10 => rng.below(70000) as i64,
        _ => rng.u64() as i64,
    }
}

pub struct Compiled {
    pub prog_wat: String,
    pub flavour: Flavour,
    pub exports: Vec<(String, usize)>,
    pub code: Vec<u8>,
    pub instrumented: Vec<u8>,
    pub plain: PlainModule,
    pub module: WasmiModule,
}

pub fn compile(wat_text: &str, flavour: Flavour, exports: Vec<(String, usize)>, imports: &[&'static HostFn]) -> Result<Compiled, String> {
    let code = wat::parse_str(wat_text).map_err(|e| format!("wat: {e}"))?;
    let (instrumented, _) = ScryptoV1WasmValidator::new(ScryptoVmVersion::latest()).validate(&code, std::iter::empty()).map_err(|e| format!("validate: {e:?}"))?;
    if let Err(e) = wasmparser::Validator::new_with_features(crate::c45::mvp_features()).validate_all(&instrumented) {
        return Err(format!("invalid-output: {e}"));
    }
    let plain = PlainModule::new(&code, imports).map_err(|e| format!("plain: {e}"))?;
    let module = WasmiModule::new(&instrumented).map_err(|e| format!("compile instrumented: {e:?}"))?;
    Ok(Compiled { prog_wat: wat_text.to_string(), flavour, exports, code, instrumented, plain, module })
}

fn flavour_name(f: Flavour) -> &'static str {
    match f {
        Flavour::Mixed => "mixed",
        Flavour::Separated => "separated",
        Flavour::Family => "family",
    }
}

fn case_json(c: &Compiled, export: &str, args: &[i64], imports: &[&'static HostFn]) -> Value {
    json!({
        "flavour": flavour_name(c.flavour), "export": export, "args": args.iter().map(|a| a.to_string()).collect::<Vec<_>>(),
        "imports": imports.iter().map(|h| h.name).collect::<Vec<_>>(), "nparams": c.exports.iter().find(|e| e.0 == export).map(|e| e.1),
        "wat": c.prog_wat,
    })
}

fn result_class(o: &Outcome) -> String {
    match &o.result {
        Ok(_) => "ok".into(),
        Err(e) => e.clone(),
    }
}

/// One differential + determinism evaluation. Returns the instrumented outcome when usable.
fn eval_call(c: &Compiled, engine: &WasmiEngine, export: &str, args: &[i64], imports: &[&'static HostFn], shard: &mut Shard, use_engine: bool) -> Option<Instr> {
    shard.eval();
    let plain = match c.plain.run(export, args, PLAIN_FUEL) {
        Ok(o) => o,
        Err(e) => panic!("plain execution set-up failed: {e}"),
    };
    if plain.result == Err(OUT_OF_FUEL.to_string()) {
        shard.count("discarded:plain_out_of_fuel");
        return None;
    }
    let ctx = || case_json(c, export, args, imports);
    let mut inst = c.module.instantiate().expect("instantiate instrumented");
    let a = match run_instrumented(&mut inst, export, args) {
        Ok(a) => a,
        Err(p) => {
            shard.violation(format!("instrumented:panic:{}", p.site()), json!({"case": ctx(), "panic": p.summary()}));
            return None;
        }
    };
    if a.units > UNIT_CEILING {
        shard.violation("instrumented:runaway-execution", json!({"case": ctx(), "original": result_class(&plain), "units": a.units}));
        return None;
    }
    let pc = result_class(&plain);
    let ic = result_class(&a.out);
    shard.seen("outcome_class", &pc);
    shard.count(if plain.result.is_ok() { "outcome:ok" } else { "outcome:trap" });
    if pc != ic {
        let sig = if plain.result.is_ok() || a.out.result.is_ok() { "differential:trap-vs-result" } else { "differential:trap-class-differs" };
        shard.violation(sig, json!({"case": ctx(), "original": pc, "instrumented": ic, "units": a.units}));
    } else if let (Ok(pb), Ok(ib)) = (&plain.result, &a.out.result) {
        if pb != ib {
            let first = pb.iter().zip(ib.iter()).position(|(x, y)| x != y);
            shard.violation("differential:result-differs", json!({"case": ctx(), "first_diff": first, "len_original": pb.len(), "len_instrumented": ib.len()}));
        }
    }
    if plain.host_calls != a.out.host_calls {
        shard.violation("differential:host-calls-differ", json!({"case": ctx(), "original": format!("{:?}", plain.host_calls).chars().take(400).collect::<String>(), "instrumented": format!("{:?}", a.out.host_calls).chars().take(400).collect::<String>()}));
    }
    if !plain.host_calls.is_empty() {
        shard.count("calls_with_host_imports");
    }
    if a.units == 0 {
        shard.violation("cost:nothing-charged", json!({"case": ctx()}));
    }
    // determinism: second instance of the same compiled module
    let mut inst2 = c.module.instantiate().expect("instantiate instrumented");
    match run_instrumented(&mut inst2, export, args) {
        Ok(b) => {
            shard.count("determinism:same_module_checks");
            if b != a {
                shard.violation("cost:nondeterministic-same-call", json!({"case": ctx(), "first": [a.units, a.gas_calls], "second": [b.units, b.gas_calls], "class": [ic.clone(), result_class(&b.out)]}));
            }
        }
        Err(p) => shard.violation(format!("instrumented:panic:{}", p.site()), json!({"case": ctx(), "panic": p.summary()})),
    }
    if use_engine {
        // cold compile through the engine, then the cached module
        let h = CodeHash(hash(&c.instrumented));
        for which in ["cold", "cached"] {
            let mut i3 = engine.instantiate(h, &c.instrumented);
            match run_instrumented(&mut i3, export, args) {
                Ok(b) => {
                    shard.count("determinism:engine_cache_checks");
                    if b != a {
                        shard.violation("cost:cached-module-differs", json!({"case": ctx(), "which": which, "direct": [a.units, a.gas_calls], "engine": [b.units, b.gas_calls]}));
                    }
                }
                Err(p) => shard.violation(format!("instrumented:panic:{}", p.site()), json!({"case": ctx(), "panic": p.summary()})),
            }
        }
    }
    shard.nontrivial(&(hash(&c.code), export.to_string(), args.to_vec()));
    shard.max("units_per_call", a.units);
    shard.max("gas_calls_per_call", a.gas_calls);
    Some(a)
}

fn one_module(rng: &mut Rng, shard: &mut Shard, engine: &WasmiEngine, calls_per_export: usize) {
    let fl = match rng.below(10) {
        0..=4 => Flavour::Mixed,
        5..=7 => Flavour::Separated,
        _ => Flavour::Family,
    };
    let prog: Program = generate(rng, fl);
    let c = match compile(&prog.wat, fl, prog.exports.clone(), &prog.imports) {
        Ok(c) => c,
        Err(e) => {
            if e.starts_with("wat:") || e.starts_with("plain:") {
                panic!("generator produced an invalid module: {e}\n{}", prog.wat);
            }
            if e.starts_with("invalid-output:") {
                shard.violation("instrumented:output-is-not-valid-wasm", json!({"case": {"flavour": flavour_name(fl), "wat": prog.wat, "export": prog.exports[0].0, "args": Vec::<String>::new(), "imports": prog.imports.iter().map(|h| h.name).collect::<Vec<_>>()}, "error": e}));
                return;
            }
            shard.count("generated_module_rejected");
            shard.seen("reject_reason", &e.chars().take(80).collect::<String>());
            return;
        }
    };
    shard.count("modules");
    shard.count(&format!("modules:{}", flavour_name(fl)));
    for f in &prog.features {
        shard.seen("program_features", f);
    }
    if !prog.imports.is_empty() {
        shard.count("modules_with_host_imports");
    }
    if shard.want_sample() && rng.chance(1, 50) {
        shard.sample(|| json!({"flavour": flavour_name(fl), "wat_bytes": prog.wat.len(), "code_bytes": c.code.len(), "instrumented_bytes": c.instrumented.len(), "features": prog.features}));
    }
    let use_engine = rng.chance(1, 4);
    for (export, np) in &prog.exports {
        match fl {
            Flavour::Mixed => {
                for _ in 0..calls_per_export {
                    let args: Vec<i64> = (0..*np).map(|_| arg_value(rng)).collect();
                    eval_call(&c, engine, export, &args, &prog.imports, shard, use_engine);
                    if *np == 0 {
                        break;
                    }
                }
            }
            Flavour::Separated => {
                for _ in 0..(calls_per_export / 3).max(1) {
                    let ctl = arg_value(rng);
                    let mut seen: Vec<(i64, Instr)> = vec![];
                    for _ in 0..3 {
                        let d = arg_value(rng);
                        if let Some(a) = eval_call(&c, engine, export, &[ctl, d], &prog.imports, shard, false) {
                            seen.push((d, a));
                        }
                    }
                    if seen.len() >= 2 {
                        let classes: Vec<String> = seen.iter().map(|(_, a)| result_class(&a.out)).collect();
                        if classes.iter().any(|k| *k != classes[0]) {
                            panic!("generator bug: data argument changed the outcome class {classes:?}\n{}", prog.wat);
                        }
                        shard.count("same_path_groups");
                        if seen.iter().map(|(d, _)| *d).collect::<std::collections::BTreeSet<_>>().len() >= 2 {
                            shard.count("same_path_groups_with_distinct_data");
                        }
                        if classes[0] != "ok" {
                            shard.count("same_path_groups_trapping");
                        }
                        let (d0, a0) = &seen[0];
                        for (d, a) in &seen[1..] {
                            if a.units != a0.units || a.gas_calls != a0.gas_calls {
                                shard.violation(
                                    "cost:same-path-different-charge",
                                    json!({"case": case_json(&c, export, &[ctl, *d0], &prog.imports), "other_data_arg": d.to_string(), "units": [a0.units, a.units], "gas_calls": [a0.gas_calls, a.gas_calls]}),
                                );
                                break;
                            }
                        }
                    }
                }
            }
            Flavour::Family => {
                for _ in 0..(calls_per_export / 8).max(1) {
                    let ctl = arg_value(rng);
                    let d = arg_value(rng);
                    let ns: [i64; 8] = [0, 1, 2, 3, 5, 8, 13, 21 + rng.below(40) as i64];
                    let mut us: Vec<(i64, u64, u64)> = vec![];
                    let mut ok = true;
                    for n in ns {
                        // high bits of n must not matter either
                        let n_arg = if rng.chance(1, 4) { n | (rng.u64() as i64 & !63) } else { n };
                        match eval_call(&c, engine, export, &[n_arg, ctl, d], &prog.imports, shard, false) {
                            Some(a) if a.out.result.is_ok() => us.push((n, a.units, a.gas_calls)),
                            _ => {
                                ok = false;
                                break;
                            }
                        }
                    }
                    if !ok {
                        shard.count("family:discarded_trap_or_fuel");
                        continue;
                    }
                    shard.count("family:groups");
                    let (u0, g0) = (us[0].1 as i128, us[0].2 as i128);
                    let (du, dg) = (us[1].1 as i128 - u0, us[1].2 as i128 - g0);
                    if du > 0 {
                        shard.count("family:groups_with_costly_body");
                    }
                    for (n, u, g) in &us {
                        if *u as i128 != u0 + du * *n as i128 || *g as i128 != g0 + dg * *n as i128 {
                            shard.violation(
                                "cost:not-affine-in-iteration-count",
                                json!({"case": case_json(&c, export, &[*n, ctl, d], &prog.imports), "charged": us.iter().map(|(n, u, g)| json!([n, u, g])).collect::<Vec<_>>()}),
                            );
                            break;
                        }
                    }
                }
            }
        }
    }
}

pub fn spec() -> Spec {
    Spec::new(
        "C46",
        "exploration",
        "generated terminating WAT modules (i32/i64 arithmetic incl. trapping div/rem, sign-extension ops, locals, globals, blocks, loops, br_if/br_table incl. backward and outer targets, value-carrying blocks, calls, call_indirect incl. null/out-of-range/bad-signature slots, memory load/store incl. out-of-bounds, memory.grow, unreachable, early return, dead code, scalar host imports) following the Scrypto export ABI; every export called with boundary/random i64 argument vectors. distinct = (module hash, export, argument vector).",
    )
    .assume("ample budget and stack: the runtime never refuses units; generated call graphs are acyclic with depth <= 5 so the injected 1024-slot stack limit is never reached")
    .assume("memory declares an explicit maximum <= 64 pages (the validator's injected maximum would otherwise change memory.grow results by design)")
    .assume("plain wasmi 0.39.1 is the reference semantics of the original module; host imports are deterministic stubs shared by both sides")
    .assume("path-dependence oracle relies on programs constructed so that branch conditions, loop bounds, table indices, trapping divisors and addresses never depend on the data argument (Separated) / on the iteration count (Family)")
    .floor("modules", 800)
    .floor("modules:mixed", 300)
    .floor("modules:separated", 150)
    .floor("modules:family", 100)
    .floor("evaluations", 15_000)
    .floor("distinct_nontrivial", 8_000)
    .floor("outcome:ok", 5_000)
    .floor("outcome:trap", 1_500)
    .floor("determinism:same_module_checks", 10_000)
    .floor("determinism:engine_cache_checks", 2_000)
    .floor("same_path_groups_with_distinct_data", 500)
    .floor("family:groups_with_costly_body", 150)
    .floor("calls_with_host_imports", 500)
}

pub fn run(args: &Args) -> i32 {
    let mut report = Report::new(args, spec());
    if let Some(path) = &args.replay {
        return replay(path, report);
    }
    let total_modules = scaled(args, args.tier.pick(25_000, 400_000));
    let per_shard = (total_modules / args.threads as u64).max(1);
    let budget = Duration::from_secs(budget_secs(args.tier, 45, 720));
    report.run_shards(46, args.threads, budget, |_i, rng, shard| {
        let engine = WasmiEngine::default();
        let mut n = 0;
        while n < per_shard && !shard.time_up() {
            one_module(rng, shard, &engine, 20);
            n += 1;
        }
    });
    // Informational (not part of the verdict): a single metered block whose summed weight exceeds
    // 2^32 is charged modulo 2^32 by the wasmi glue (`n as u32` in consume_wasm_execution_units).
    let obs: Vec<Value> = [289usize, 290, 291, 292]
        .iter()
        .map(|n| {
            let code = crate::c45::deep_module(*n, "grow");
            let units = ScryptoV1WasmValidator::new(ScryptoVmVersion::latest()).validate(&code, std::iter::empty()).ok().and_then(|(out, _)| {
                let m = WasmiModule::new(&out).ok()?;
                let mut inst = m.instantiate().ok()?;
                run_instrumented(&mut inst, "Test_f", &[0]).ok().map(|a| a.units)
            });
            json!({"straight_line_memory_grow_instructions": n, "units_charged": units})
        })
        .collect();
    report.extra.insert("observation_block_charge_wraps_at_2_pow_32".into(), json!(obs));
    report.finish()
}

fn replay(path: &std::path::Path, mut report: Report) -> i32 {
    let doc: Value = serde_json::from_str(&std::fs::read_to_string(path).expect("replay file")).expect("json");
    let d = &doc["detail"]["case"];
    let (Some(wat_text), Some(export), Some(args)) = (d["wat"].as_str(), d["export"].as_str(), d["args"].as_array()) else {
        println!("replay file does not describe a C46 case");
        return 2;
    };
    let args: Vec<i64> = args.iter().map(|a| a.as_str().unwrap_or("0").parse().unwrap_or(0)).collect();
    let imports: Vec<&'static HostFn> = d["imports"].as_array().map(|a| a.iter().filter_map(|n| host_fn(n.as_str().unwrap_or(""))).collect()).unwrap_or_default();
    let fl = match d["flavour"].as_str() {
        Some("family") => Flavour::Family,
        Some("separated") => Flavour::Separated,
        _ => Flavour::Mixed,
    };
    let c = match compile(wat_text, fl, vec![(export.to_string(), args.len())], &imports) {
        Ok(c) => c,
        Err(e) if e.starts_with("invalid-output:") => {
            println!("still violates: {e}");
            let mut shard = Shard::new(0, "C46", report.args.tier, std::time::Instant::now() + Duration::from_secs(60));
            shard.eval();
            shard.nontrivial(&1);
            shard.nontrivial(&2);
            shard.violation("instrumented:output-is-not-valid-wasm", json!({"error": e}));
            report.merge(shard);
            report.spec.floors.clear();
            return report.finish();
        }
        Err(e) => {
            println!("module no longer compiles: {e}");
            return 2;
        }
    };
    let mut shard = Shard::new(0, "C46", report.args.tier, std::time::Instant::now() + Duration::from_secs(60));
    if doc["signature"].as_str() == Some("instrumented:output-is-not-valid-wasm") {
        // compile() above re-validated the instrumented output: it is valid now
        println!("instrumented output of the recorded module is valid WebAssembly now: 0 violation(s)");
        shard.eval();
        shard.nontrivial(&1);
        shard.nontrivial(&2);
        report.merge(shard);
        report.spec.floors.clear();
        return report.finish();
    }
    let engine = WasmiEngine::default();
    let a = eval_call(&c, &engine, export, &args, &imports, &mut shard, true);
    println!("replayed export {export} args {args:?}: instrumented = {:?}", a.as_ref().map(|a| (result_class(&a.out), a.units, a.gas_calls)));
    // group properties: re-evaluate the group the recorded case belongs to
    if fl == Flavour::Family && args.len() == 3 {
        let mut us = vec![];
        for n in [0i64, 1, 2, 3, 5, 8, 13, 34] {
            if let Some(a) = eval_call(&c, &engine, export, &[n, args[1], args[2]], &imports, &mut shard, false) {
                us.push((n, a.units));
            }
        }
        println!("charged(n): {us:?}");
        if us.len() >= 2 {
            let (u0, du) = (us[0].1 as i128, us[1].1 as i128 - us[0].1 as i128);
            if us.iter().any(|(n, u)| *u as i128 != u0 + du * *n as i128) {
                shard.violation("cost:not-affine-in-iteration-count", json!({"charged": us}));
            }
        }
    }
    if fl == Flavour::Separated && args.len() == 2 {
        if let Some(od) = doc["detail"]["other_data_arg"].as_str().and_then(|s| s.parse::<i64>().ok()) {
            let b = eval_call(&c, &engine, export, &[args[0], od], &imports, &mut shard, false);
            if let (Some(a), Some(b)) = (&a, &b) {
                println!("charged: {} vs {}", a.units, b.units);
                if a.units != b.units {
                    shard.violation("cost:same-path-different-charge", json!({"units": [a.units, b.units]}));
                }
            }
        }
    }
    println!("{} violation(s)", shard.violations.len());
    for v in &shard.violations {
        println!("  {} {}", v.signature, v.detail.to_string().chars().take(300).collect::<String>());
    }
    shard.nontrivial(&1);
    shard.nontrivial(&2);
    report.merge(shard);
    report.spec.floors.clear();
    report.finish()
}
