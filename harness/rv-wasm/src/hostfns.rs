//! The host interface a Scrypto WASM module may import, transcribed from the *guest side*
//! declaration (`scrypto/src/engine/wasm_api.rs`, the `extern "C"` blocks) - i.e. from the
//! documentation of the interface, not from the validator under test.
//!
//! params: one letter per logical argument: `B` = (ptr, len) byte buffer = two i32 slots,
//! `S` = scalar i32. result: `L` = i64 (a `Buffer` id/len pair), `I` = i32, `V` = none.

#[derive(Clone, Copy, Debug)]
pub struct HostFn {
    pub name: &'static str,
    pub params: &'static str,
    pub result: char,
}

const fn hf(name: &'static str, params: &'static str, result: char) -> HostFn {
    HostFn { name, params, result }
}

pub const GAS: &str = "gas";

pub const HOST_FNS: &[HostFn] = &[
    hf("blueprint_call", "BBBB", 'L'),
    hf("address_allocate", "BB", 'L'),
    hf("address_get_reservation_address", "B", 'L'),
    hf("object_new", "BB", 'L'),
    hf("object_globalize", "BBB", 'L'),
    hf("object_instance_of", "BBB", 'I'),
    hf("object_get_blueprint_id", "B", 'L'),
    hf("object_get_outer_object", "B", 'L'),
    hf("object_call", "BBB", 'L'),
    hf("object_call_direct", "BBB", 'L'),
    hf("object_call_module", "BSBB", 'L'),
    hf("actor_get_package_address", "", 'L'),
    hf("actor_get_blueprint_name", "", 'L'),
    hf("actor_get_object_id", "S", 'L'),
    hf("actor_open_field", "SSS", 'I'),
    hf("actor_emit_event", "BBS", 'V'),
    hf("kv_store_new", "B", 'L'),
    hf("kv_store_open_entry", "BBS", 'I'),
    hf("kv_store_remove_entry", "BB", 'L'),
    hf("kv_entry_read", "S", 'L'),
    hf("kv_entry_write", "SB", 'V'),
    hf("kv_entry_remove", "S", 'L'),
    hf("kv_entry_close", "S", 'V'),
    hf("field_entry_read", "S", 'L'),
    hf("field_entry_write", "SB", 'V'),
    hf("field_entry_close", "S", 'V'),
    hf("costing_get_execution_cost_unit_limit", "", 'I'),
    hf("costing_get_execution_cost_unit_price", "", 'L'),
    hf("costing_get_finalization_cost_unit_limit", "", 'I'),
    hf("costing_get_finalization_cost_unit_price", "", 'L'),
    hf("costing_get_usd_price", "", 'L'),
    hf("costing_get_tip_percentage", "", 'I'),
    hf("costing_get_fee_balance", "", 'L'),
    hf("sys_log", "BB", 'V'),
    hf("sys_bech32_encode_address", "B", 'L'),
    hf("sys_get_transaction_hash", "", 'L'),
    hf("sys_generate_ruid", "", 'L'),
    hf("sys_panic", "B", 'V'),
    hf("crypto_utils_bls12381_v1_verify", "BBB", 'I'),
    hf("crypto_utils_bls12381_v1_aggregate_verify", "BB", 'I'),
    hf("crypto_utils_bls12381_v1_fast_aggregate_verify", "BBB", 'I'),
    hf("crypto_utils_bls12381_g2_signature_aggregate", "B", 'L'),
    hf("crypto_utils_keccak256_hash", "B", 'L'),
    hf("crypto_utils_blake2b_256_hash", "B", 'L'),
    hf("crypto_utils_ed25519_verify", "BBB", 'I'),
    hf("crypto_utils_secp256k1_ecdsa_verify", "BBB", 'I'),
    hf("crypto_utils_secp256k1_ecdsa_verify_and_key_recover", "BB", 'L'),
    hf("crypto_utils_secp256k1_ecdsa_verify_and_key_recover_uncompressed", "BB", 'L'),
    hf("buffer_consume", "SS", 'V'),
];

pub fn host_fn(name: &str) -> Option<&'static HostFn> {
    HOST_FNS.iter().find(|h| h.name == name)
}

impl HostFn {
    /// number of i32 parameter slots
    pub fn n_slots(&self) -> usize {
        self.params.chars().map(|c| if c == 'B' { 2 } else { 1 }).sum()
    }
    pub fn n_bufs(&self) -> usize {
        self.params.chars().filter(|c| *c == 'B').count()
    }
    pub fn n_scalars(&self) -> usize {
        self.params.chars().filter(|c| *c == 'S').count()
    }
    pub fn wat_sig(&self) -> String {
        let mut s = String::new();
        let n = self.n_slots();
        if n > 0 {
            s.push_str("(param");
            for _ in 0..n {
                s.push_str(" i32");
            }
            s.push(')');
        }
        match self.result {
            'L' => s.push_str(" (result i64)"),
            'I' => s.push_str(" (result i32)"),
            _ => {}
        }
        s
    }
    pub fn wat_import(&self) -> String {
        format!("(import \"env\" \"{}\" (func ${} {}))", self.name, self.name, self.wat_sig())
    }
}

/// Deterministic stand-in results shared by the monitoring runtime (instrumented side) and the
/// plain-wasmi stubs (original side) so that both executions see the same host behaviour.
#[derive(Default, Clone, Debug)]
pub struct HostModel {
    pub next_buffer: u32,
}

pub fn mix(name: &str, scalars: &[u64]) -> u64 {
    let mut h: u64 = 0xcbf29ce484222325;
    for b in name.bytes() {
        h = (h ^ b as u64).wrapping_mul(0x100000001b3);
    }
    for s in scalars {
        h = (h ^ *s).wrapping_mul(0x100000001b3);
        h ^= h >> 29;
    }
    h
}

impl HostModel {
    /// i32 result of a scalar-returning host function
    pub fn scalar(&mut self, name: &str, scalars: &[u64]) -> u32 {
        (mix(name, scalars) >> 17) as u32
    }
    /// (id, bytes) of the buffer a buffer-returning host function hands out
    pub fn buffer(&mut self, name: &str, scalars: &[u64]) -> (u32, Vec<u8>) {
        let id = self.next_buffer;
        self.next_buffer += 1;
        let h = mix(name, scalars);
        let len = (h % 48) as usize;
        let bytes = (0..len).map(|i| (h.rotate_left(i as u32 * 5) as u8) ^ i as u8).collect();
        (id, bytes)
    }
}
