//! Reference execution of the *original* (uninstrumented) module under plain wasmi, with host
//! imports stubbed by the same deterministic `HostModel` the monitoring runtime uses.
use crate::hostfns::{HostFn, HostModel};
use radix_engine_interface::types::Buffer;
use wasmi::{Config, Engine, Linker, Module, Store, Val};

#[derive(Default)]
pub struct PlainState {
    pub model: HostModel,
    pub calls: Vec<(String, Vec<u64>)>,
}

pub struct PlainModule {
    engine: Engine,
    module: Module,
    imports: Vec<&'static HostFn>,
}

#[derive(Debug, Clone, PartialEq, Eq)]
pub struct Outcome {
    /// Ok(bytes of the returned slice) | Err(class)
    pub result: Result<Vec<u8>, String>,
    pub host_calls: Vec<(String, Vec<u64>)>,
}

pub const OUT_OF_FUEL: &str = "Trap:OutOfFuel";

impl PlainModule {
    pub fn new(code: &[u8], imports: &[&'static HostFn]) -> Result<Self, String> {
        let mut config = Config::default();
        config.consume_fuel(true);
        let engine = Engine::new(&config);
        let module = Module::new(&engine, code).map_err(|e| format!("{e:?}"))?;
        Ok(PlainModule { engine, module, imports: imports.to_vec() })
    }

    pub fn run(&self, export: &str, args: &[i64], fuel: u64) -> Result<Outcome, String> {
        let mut store = Store::new(&self.engine, PlainState::default());
        store.set_fuel(fuel).map_err(|e| format!("{e:?}"))?;
        let mut linker = <Linker<PlainState>>::new(&self.engine);
        for h in &self.imports {
            let h: &'static HostFn = h;
            let params = vec![wasmi::core::ValType::I32; h.n_slots()];
            let results = match h.result {
                'L' => vec![wasmi::core::ValType::I64],
                'I' => vec![wasmi::core::ValType::I32],
                _ => vec![],
            };
            linker
                .func_new("env", h.name, wasmi::FuncType::new(params, results), move |mut caller, params: &[Val], results: &mut [Val]| {
                    let mut scalars: Vec<u64> = params.iter().map(|v| if let Val::I32(x) = v { *x as u32 as u64 } else { 0 }).collect();
                    if h.name == "actor_open_field" {
                        scalars[1] &= 0xff; // the host takes the field index as u8
                    }
                    let st = caller.data_mut();
                    match h.result {
                        'I' => {
                            let v = st.model.scalar(h.name, &scalars);
                            results[0] = Val::I32(v as i32);
                        }
                        'L' => {
                            let (id, bytes) = st.model.buffer(h.name, &scalars);
                            results[0] = Val::I64(Buffer::new(id, bytes.len() as u32).as_i64());
                        }
                        _ => {}
                    }
                    st.calls.push((h.name.to_string(), scalars));
                    Ok(())
                })
                .map_err(|e| format!("{e:?}"))?;
        }
        let instance = linker.instantiate(&mut store, &self.module).map_err(|e| format!("instantiate: {e:?}"))?.ensure_no_start(&mut store).map_err(|e| format!("{e:?}"))?;
        let func = instance.get_func(&store, export).ok_or("no such export")?;
        let params: Vec<Val> = args.iter().map(|a| Val::I64(*a)).collect();
        let mut ret = [Val::I64(0)];
        let r = func.call(&mut store, &params, &mut ret);
        let result = match r {
            Ok(()) => {
                let v = if let Val::I64(v) = ret[0] { v as u64 } else { 0 };
                let (ptr, len) = ((v >> 32) as usize, (v & 0xffff_ffff) as usize);
                let mem = instance.get_memory(&store, "memory").ok_or("no memory export")?;
                let data = mem.data(&store);
                if ptr <= data.len() && ptr + len <= data.len() {
                    Ok(data[ptr..ptr + len].to_vec())
                } else {
                    Err("MemoryAccessError".to_string())
                }
            }
            Err(e) => match e.as_trap_code() {
                Some(code) => Err(format!("Trap:{code:?}")),
                None => Err(format!("Other:{e:?}")),
            },
        };
        let host_calls = std::mem::take(&mut store.data_mut().calls);
        Ok(Outcome { result, host_calls })
    }
}
