//! C45 (WASM validation total + sandbox rules), C46 (instrumentation preserves meaning, cost is a
//! function of the executed path), C47 (host memory access from WASM is bounds-checked).
mod c45;
mod c46;
mod c47;
mod facts;
mod gen;
mod hostfns;
mod plain;
mod rt;

fn main() {
    let args = rv_common::parse_args();
    let code = match args.prop.as_str() {
        "C45" => c45::run(&args),
        "C46" => c46::run(&args),
        "C47" => c47::run(&args),
        // development aid: print one generated program
        "__gen" => {
            let mut rng = rv_common::Rng::new(args.seed);
            let fl = match args.extra.first().map(|s| s.as_str()) {
                Some("family") => gen::Flavour::Family,
                Some("separated") => gen::Flavour::Separated,
                _ => gen::Flavour::Mixed,
            };
            println!("{}", gen::generate(&mut rng, fl).wat);
            0
        }
        "__deep" => {
            let n: usize = args.extra.first().and_then(|s| s.parse().ok()).unwrap_or(1000);
            let kind = args.extra.get(1).cloned().unwrap_or("block".into());
            let h = std::thread::Builder::new().stack_size(8 << 20).spawn(move || c45::deep_probe(n, &kind)).unwrap();
            h.join().unwrap();
            0
        }
        other => {
            eprintln!("rv-wasm: no check named {other}");
            2
        }
    };
    std::process::exit(code);
}
