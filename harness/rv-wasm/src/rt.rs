//! Monitoring `WasmRuntime`: records exactly what every host function received from the wasmi
//! glue, hands out known buffers for `buffer_consume`, and counts charged execution units.
use crate::hostfns::HostModel;
use radix_engine::errors::InvokeError;
use radix_engine::vm::wasm::{WasmRuntime, WasmRuntimeError};
use radix_engine_interface::api::actor_api::EventFlags;
use radix_engine_interface::types::{Buffer, BufferId};
use std::cell::RefCell;
use std::collections::BTreeMap;
use std::rc::Rc;

#[derive(Clone, Debug, PartialEq, Eq)]
pub struct HostCall {
    pub name: &'static str,
    pub bufs: Vec<Vec<u8>>,
    pub scalars: Vec<u64>,
}

#[derive(Default)]
pub struct MonState {
    pub calls: Vec<HostCall>,
    pub units: u64,
    pub gas_calls: u64,
    /// buffers that `buffer_consume` can hand out
    pub buffers: BTreeMap<u32, Vec<u8>>,
    pub model: HostModel,
    /// when set, `consume_wasm_execution_units` fails once `units` exceeds it
    pub unit_limit: Option<u64>,
    pub limit_hit: bool,
}

pub type Shared = Rc<RefCell<MonState>>;

pub struct MonRuntime(pub Shared);

impl MonRuntime {
    pub fn boxed<'r>(st: &Shared) -> Box<dyn WasmRuntime + 'r> {
        Box::new(MonRuntime(st.clone()))
    }
}

type R<T> = Result<T, InvokeError<WasmRuntimeError>>;

impl MonRuntime {
    fn rec(&self, name: &'static str, bufs: Vec<Vec<u8>>, scalars: Vec<u64>) {
        self.0.borrow_mut().calls.push(HostCall { name, bufs, scalars });
    }
    fn ret_buf(&self, name: &'static str, bufs: Vec<Vec<u8>>, scalars: Vec<u64>) -> R<Buffer> {
        let mut st = self.0.borrow_mut();
        let (id, bytes) = st.model.buffer(name, &scalars);
        let len = bytes.len() as u32;
        st.buffers.insert(id, bytes);
        st.calls.push(HostCall { name, bufs, scalars });
        Ok(Buffer::new(id, len))
    }
    fn ret_u32(&self, name: &'static str, bufs: Vec<Vec<u8>>, scalars: Vec<u64>) -> R<u32> {
        let mut st = self.0.borrow_mut();
        let v = st.model.scalar(name, &scalars);
        st.calls.push(HostCall { name, bufs, scalars });
        Ok(v)
    }
}

impl WasmRuntime for MonRuntime {
    fn allocate_buffer(&mut self, buffer: Vec<u8>) -> R<Buffer> {
        let mut st = self.0.borrow_mut();
        let id = st.model.next_buffer;
        st.model.next_buffer += 1;
        let len = buffer.len() as u32;
        st.buffers.insert(id, buffer);
        Ok(Buffer::new(id, len))
    }
    fn buffer_consume(&mut self, buffer_id: BufferId) -> R<Vec<u8>> {
        let mut st = self.0.borrow_mut();
        st.calls.push(HostCall { name: "buffer_consume", bufs: vec![], scalars: vec![buffer_id as u64] });
        st.buffers.remove(&buffer_id).ok_or(InvokeError::SelfError(WasmRuntimeError::BufferNotFound(buffer_id)))
    }
    fn object_call(&mut self, receiver: Vec<u8>, ident: Vec<u8>, args: Vec<u8>) -> R<Buffer> {
        self.ret_buf("object_call", vec![receiver, ident, args], vec![])
    }
    fn object_call_module(&mut self, receiver: Vec<u8>, module_id: u32, ident: Vec<u8>, args: Vec<u8>) -> R<Buffer> {
        self.ret_buf("object_call_module", vec![receiver, ident, args], vec![module_id as u64])
    }
    fn object_call_direct(&mut self, receiver: Vec<u8>, ident: Vec<u8>, args: Vec<u8>) -> R<Buffer> {
        self.ret_buf("object_call_direct", vec![receiver, ident, args], vec![])
    }
    fn blueprint_call(&mut self, package_address: Vec<u8>, blueprint_name: Vec<u8>, ident: Vec<u8>, args: Vec<u8>) -> R<Buffer> {
        self.ret_buf("blueprint_call", vec![package_address, blueprint_name, ident, args], vec![])
    }
    fn object_new(&mut self, blueprint_name: Vec<u8>, object_states: Vec<u8>) -> R<Buffer> {
        self.ret_buf("object_new", vec![blueprint_name, object_states], vec![])
    }
    fn address_allocate(&mut self, package_address: Vec<u8>, blueprint_name: Vec<u8>) -> R<Buffer> {
        self.ret_buf("address_allocate", vec![package_address, blueprint_name], vec![])
    }
    fn address_get_reservation_address(&mut self, node_id: Vec<u8>) -> R<Buffer> {
        self.ret_buf("address_get_reservation_address", vec![node_id], vec![])
    }
    fn globalize_object(&mut self, node_id: Vec<u8>, modules: Vec<u8>, address: Vec<u8>) -> R<Buffer> {
        self.ret_buf("object_globalize", vec![node_id, modules, address], vec![])
    }
    fn key_value_store_new(&mut self, schema: Vec<u8>) -> R<Buffer> {
        self.ret_buf("kv_store_new", vec![schema], vec![])
    }
    fn key_value_store_open_entry(&mut self, node_id: Vec<u8>, key: Vec<u8>, flags: u32) -> R<u32> {
        self.ret_u32("kv_store_open_entry", vec![node_id, key], vec![flags as u64])
    }
    fn key_value_entry_get(&mut self, handle: u32) -> R<Buffer> {
        self.ret_buf("kv_entry_read", vec![], vec![handle as u64])
    }
    fn key_value_entry_set(&mut self, handle: u32, data: Vec<u8>) -> R<()> {
        self.rec("kv_entry_write", vec![data], vec![handle as u64]);
        Ok(())
    }
    fn key_value_entry_remove(&mut self, handle: u32) -> R<Buffer> {
        self.ret_buf("kv_entry_remove", vec![], vec![handle as u64])
    }
    fn key_value_entry_close(&mut self, handle: u32) -> R<()> {
        self.rec("kv_entry_close", vec![], vec![handle as u64]);
        Ok(())
    }
    fn key_value_store_remove_entry(&mut self, node_id: Vec<u8>, key: Vec<u8>) -> R<Buffer> {
        self.ret_buf("kv_store_remove_entry", vec![node_id, key], vec![])
    }
    fn instance_of(&mut self, object_id: Vec<u8>, package_address: Vec<u8>, blueprint_name: Vec<u8>) -> R<u32> {
        self.ret_u32("object_instance_of", vec![object_id, package_address, blueprint_name], vec![])
    }
    fn blueprint_id(&mut self, object_id: Vec<u8>) -> R<Buffer> {
        self.ret_buf("object_get_blueprint_id", vec![object_id], vec![])
    }
    fn get_outer_object(&mut self, component_id: Vec<u8>) -> R<Buffer> {
        self.ret_buf("object_get_outer_object", vec![component_id], vec![])
    }
    fn actor_open_field(&mut self, object_handle: u32, field: u8, flags: u32) -> R<u32> {
        self.ret_u32("actor_open_field", vec![], vec![object_handle as u64, field as u64, flags as u64])
    }
    fn field_entry_read(&mut self, handle: u32) -> R<Buffer> {
        self.ret_buf("field_entry_read", vec![], vec![handle as u64])
    }
    fn field_entry_write(&mut self, handle: u32, data: Vec<u8>) -> R<()> {
        self.rec("field_entry_write", vec![data], vec![handle as u64]);
        Ok(())
    }
    fn field_entry_close(&mut self, handle: u32) -> R<()> {
        self.rec("field_entry_close", vec![], vec![handle as u64]);
        Ok(())
    }
    fn actor_get_node_id(&mut self, actor_ref_handle: u32) -> R<Buffer> {
        self.ret_buf("actor_get_object_id", vec![], vec![actor_ref_handle as u64])
    }
    fn actor_get_package_address(&mut self) -> R<Buffer> {
        self.ret_buf("actor_get_package_address", vec![], vec![])
    }
    fn actor_get_blueprint_name(&mut self) -> R<Buffer> {
        self.ret_buf("actor_get_blueprint_name", vec![], vec![])
    }
    fn consume_wasm_execution_units(&mut self, n: u32) -> R<()> {
        let mut st = self.0.borrow_mut();
        st.units += n as u64;
        st.gas_calls += 1;
        if let Some(l) = st.unit_limit {
            if st.units > l {
                st.limit_hit = true;
                return Err(InvokeError::SelfError(WasmRuntimeError::NotImplemented));
            }
        }
        Ok(())
    }
    fn costing_get_execution_cost_unit_limit(&mut self) -> R<u32> {
        self.ret_u32("costing_get_execution_cost_unit_limit", vec![], vec![])
    }
    fn costing_get_execution_cost_unit_price(&mut self) -> R<Buffer> {
        self.ret_buf("costing_get_execution_cost_unit_price", vec![], vec![])
    }
    fn costing_get_finalization_cost_unit_limit(&mut self) -> R<u32> {
        self.ret_u32("costing_get_finalization_cost_unit_limit", vec![], vec![])
    }
    fn costing_get_finalization_cost_unit_price(&mut self) -> R<Buffer> {
        self.ret_buf("costing_get_finalization_cost_unit_price", vec![], vec![])
    }
    fn costing_get_usd_price(&mut self) -> R<Buffer> {
        self.ret_buf("costing_get_usd_price", vec![], vec![])
    }
    fn costing_get_tip_percentage(&mut self) -> R<u32> {
        self.ret_u32("costing_get_tip_percentage", vec![], vec![])
    }
    fn costing_get_fee_balance(&mut self) -> R<Buffer> {
        self.ret_buf("costing_get_fee_balance", vec![], vec![])
    }
    fn actor_emit_event(&mut self, event_name: Vec<u8>, event_payload: Vec<u8>, event_flags: EventFlags) -> R<()> {
        self.rec("actor_emit_event", vec![event_name, event_payload], vec![event_flags.bits() as u64]);
        Ok(())
    }
    fn sys_log(&mut self, level: Vec<u8>, message: Vec<u8>) -> R<()> {
        self.rec("sys_log", vec![level, message], vec![]);
        Ok(())
    }
    fn sys_bech32_encode_address(&mut self, address: Vec<u8>) -> R<Buffer> {
        self.ret_buf("sys_bech32_encode_address", vec![address], vec![])
    }
    fn sys_get_transaction_hash(&mut self) -> R<Buffer> {
        self.ret_buf("sys_get_transaction_hash", vec![], vec![])
    }
    fn sys_generate_ruid(&mut self) -> R<Buffer> {
        self.ret_buf("sys_generate_ruid", vec![], vec![])
    }
    fn sys_panic(&mut self, message: Vec<u8>) -> R<()> {
        self.rec("sys_panic", vec![message], vec![]);
        Ok(())
    }
    fn crypto_utils_bls12381_v1_verify(&mut self, message: Vec<u8>, public_key: Vec<u8>, signature: Vec<u8>) -> R<u32> {
        self.ret_u32("crypto_utils_bls12381_v1_verify", vec![message, public_key, signature], vec![])
    }
    fn crypto_utils_bls12381_v1_aggregate_verify(&mut self, pub_keys_and_msgs: Vec<u8>, signatures: Vec<u8>) -> R<u32> {
        self.ret_u32("crypto_utils_bls12381_v1_aggregate_verify", vec![pub_keys_and_msgs, signatures], vec![])
    }
    fn crypto_utils_bls12381_v1_fast_aggregate_verify(&mut self, message: Vec<u8>, public_keys: Vec<u8>, signatures: Vec<u8>) -> R<u32> {
        self.ret_u32("crypto_utils_bls12381_v1_fast_aggregate_verify", vec![message, public_keys, signatures], vec![])
    }
    fn crypto_utils_bls12381_g2_signature_aggregate(&mut self, signatures: Vec<u8>) -> R<Buffer> {
        self.ret_buf("crypto_utils_bls12381_g2_signature_aggregate", vec![signatures], vec![])
    }
    fn crypto_utils_keccak256_hash(&mut self, data: Vec<u8>) -> R<Buffer> {
        self.ret_buf("crypto_utils_keccak256_hash", vec![data], vec![])
    }
    fn crypto_utils_blake2b_256_hash(&mut self, data: Vec<u8>) -> R<Buffer> {
        self.ret_buf("crypto_utils_blake2b_256_hash", vec![data], vec![])
    }
    fn crypto_utils_ed25519_verify(&mut self, message: Vec<u8>, public_key: Vec<u8>, signature: Vec<u8>) -> R<u32> {
        self.ret_u32("crypto_utils_ed25519_verify", vec![message, public_key, signature], vec![])
    }
    fn crypto_utils_secp256k1_ecdsa_verify(&mut self, message: Vec<u8>, public_key: Vec<u8>, signature: Vec<u8>) -> R<u32> {
        self.ret_u32("crypto_utils_secp256k1_ecdsa_verify", vec![message, public_key, signature], vec![])
    }
    fn crypto_utils_secp256k1_ecdsa_verify_and_key_recover(&mut self, message: Vec<u8>, signature: Vec<u8>) -> R<Buffer> {
        self.ret_buf("crypto_utils_secp256k1_ecdsa_verify_and_key_recover", vec![message, signature], vec![])
    }
    fn crypto_utils_secp256k1_ecdsa_verify_and_key_recover_uncompressed(&mut self, message: Vec<u8>, signature: Vec<u8>) -> R<Buffer> {
        self.ret_buf("crypto_utils_secp256k1_ecdsa_verify_and_key_recover_uncompressed", vec![message, signature], vec![])
    }
}

/// Classify an invoke error into a short stable class string.
pub fn err_class(e: &InvokeError<WasmRuntimeError>) -> String {
    match e {
        InvokeError::SelfError(WasmRuntimeError::MemoryAccessError) => "MemoryAccessError".into(),
        InvokeError::SelfError(WasmRuntimeError::ExecutionError(s)) => {
            if let Some(i) = s.find("TrapCode(") {
                let rest = &s[i + 9..];
                let end = rest.find(')').unwrap_or(rest.len());
                format!("Trap:{}", &rest[..end])
            } else {
                format!("ExecutionError:{}", s.chars().take(60).collect::<String>())
            }
        }
        InvokeError::SelfError(other) => {
            let s = format!("{other:?}");
            let end = s.find(|c: char| c == '(' || c == ' ' || c == '{').unwrap_or(s.len());
            s[..end].to_string()
        }
        InvokeError::Downstream(_) => "Downstream".into(),
    }
}
