//! Independent structural reading of a WASM binary (wasmparser used as a *parser* only) and the
//! sandbox-rule checker for C45, written from the property text + the documented limits.
use crate::hostfns::{host_fn, GAS};
use wasmparser::{BlockType, ExternalKind, Operator, Parser, Payload, TypeRef, ValType};

// Documented limits (radix-common/src/constants/wasm.rs doc comments).
pub const LIM_MEMORY_PAGES: u64 = 64;
pub const LIM_TABLE_INITIAL: u32 = 1024;
pub const LIM_BR_TABLE_TARGETS: u32 = 256;
pub const LIM_GLOBALS: usize = 512;
pub const LIM_FUNCTIONS: usize = 8 * 1024;
pub const LIM_PARAMS: usize = 32;
pub const LIM_LOCALS: u64 = 256;

#[derive(Debug, Clone, PartialEq, Eq)]
pub struct Sig {
    pub params: Vec<ValType>,
    pub results: Vec<ValType>,
}

#[derive(Debug, Clone)]
pub struct ImportFact {
    pub module: String,
    pub name: String,
    pub func_type: Option<u32>,
    pub kind: &'static str,
}

#[derive(Debug, Clone, Default)]
pub struct BodyFact {
    pub locals: u64,
    pub float_local: bool,
    pub float_op: bool,
    pub simd_op: bool,
    pub float_blocktype: bool,
    pub max_br_table: u32,
    /// any instruction other than unreachable / return / else / end
    pub has_costed_instruction: bool,
    /// first two operators are `i64.const N` (N>0), `call F`: Some((N, F))
    pub leading_charge: Option<(i64, u32)>,
    /// callee indices of all direct calls
    pub calls: Vec<u32>,
    /// every `call gas` is directly preceded by an i64.const
    pub n_ops: u32,
    pub global_refs: Vec<u32>,
    /// some operator other than nop / end / unreachable / return / br / empty block / empty loop
    pub pushes_or_pops: bool,
}

#[derive(Debug, Clone, Default)]
pub struct Facts {
    pub types: Vec<Sig>,
    pub imports: Vec<ImportFact>,
    pub n_import_funcs: u32,
    pub imported_memories: u32,
    pub imported_tables: u32,
    pub imported_globals: u32,
    pub local_func_types: Vec<u32>,
    pub memories: Vec<(u64, Option<u64>)>,
    pub tables: Vec<(u32, Option<u32>)>,
    pub globals: Vec<(ValType, bool, Option<i64>)>, // type, mutable, const-init value if i32/i64 const
    pub exports: Vec<(String, ExternalKind, u32)>,
    pub start: Option<u32>,
    pub elem_items: usize,
    pub bodies: Vec<BodyFact>,
    pub float_in_types: bool,
    pub float_global: bool,
}

fn is_float(t: &ValType) -> bool {
    matches!(t, ValType::F32 | ValType::F64)
}

/// Classify by the opcode byte (WebAssembly core spec, binary format, instructions).
fn float_opcode(b0: u8, b1: u8) -> bool {
    matches!(b0, 0x2A | 0x2B | 0x38 | 0x39 | 0x43 | 0x44 | 0x5B..=0x66 | 0x8B..=0xA6 | 0xA8..=0xAB | 0xAE..=0xBF) || (b0 == 0xFC && b1 <= 7)
}

pub fn read(bytes: &[u8]) -> Result<Facts, String> {
    let mut f = Facts::default();
    for payload in Parser::new(0).parse_all(bytes) {
        let payload = payload.map_err(|e| e.to_string())?;
        match payload {
            Payload::TypeSection(r) => {
                for t in r {
                    match t.map_err(|e| e.to_string())? {
                        wasmparser::Type::Func(ft) => {
                            if ft.params().iter().chain(ft.results().iter()).any(is_float) {
                                f.float_in_types = true;
                            }
                            f.types.push(Sig { params: ft.params().to_vec(), results: ft.results().to_vec() });
                        }
                        _ => return Err("non-func type".into()),
                    }
                }
            }
            Payload::ImportSection(r) => {
                for i in r {
                    let i = i.map_err(|e| e.to_string())?;
                    let (kind, ft) = match i.ty {
                        TypeRef::Func(t) => {
                            f.n_import_funcs += 1;
                            ("func", Some(t))
                        }
                        TypeRef::Memory(_) => {
                            f.imported_memories += 1;
                            ("memory", None)
                        }
                        TypeRef::Table(_) => {
                            f.imported_tables += 1;
                            ("table", None)
                        }
                        TypeRef::Global(g) => {
                            f.imported_globals += 1;
                            if is_float(&g.content_type) {
                                f.float_global = true;
                            }
                            ("global", None)
                        }
                        TypeRef::Tag(_) => ("tag", None),
                    };
                    f.imports.push(ImportFact { module: i.module.to_string(), name: i.name.to_string(), func_type: ft, kind });
                }
            }
            Payload::FunctionSection(r) => {
                for t in r {
                    f.local_func_types.push(t.map_err(|e| e.to_string())?);
                }
            }
            Payload::TableSection(r) => {
                for t in r {
                    let t = t.map_err(|e| e.to_string())?;
                    f.tables.push((t.ty.initial, t.ty.maximum));
                }
            }
            Payload::MemorySection(r) => {
                for m in r {
                    let m = m.map_err(|e| e.to_string())?;
                    f.memories.push((m.initial, m.maximum));
                }
            }
            Payload::GlobalSection(r) => {
                for g in r {
                    let g = g.map_err(|e| e.to_string())?;
                    if is_float(&g.ty.content_type) {
                        f.float_global = true;
                    }
                    let mut init = None;
                    let mut ops = g.init_expr.get_operators_reader();
                    if let Ok(op) = ops.read() {
                        match op {
                            Operator::I32Const { value } => init = Some(value as i64),
                            Operator::I64Const { value } => init = Some(value),
                            _ => {}
                        }
                    }
                    f.globals.push((g.ty.content_type, g.ty.mutable, init));
                }
            }
            Payload::ExportSection(r) => {
                for e in r {
                    let e = e.map_err(|e| e.to_string())?;
                    f.exports.push((e.name.to_string(), e.kind, e.index));
                }
            }
            Payload::StartSection { func, .. } => f.start = Some(func),
            Payload::ElementSection(r) => {
                for e in r {
                    let e = e.map_err(|e| e.to_string())?;
                    match e.items {
                        wasmparser::ElementItems::Functions(fs) => f.elem_items += fs.count() as usize,
                        wasmparser::ElementItems::Expressions(es) => f.elem_items += es.count() as usize,
                    }
                }
            }
            Payload::CodeSectionEntry(body) => {
                let mut b = BodyFact::default();
                for l in body.get_locals_reader().map_err(|e| e.to_string())? {
                    let (n, t) = l.map_err(|e| e.to_string())?;
                    b.locals += n as u64;
                    if is_float(&t) {
                        b.float_local = true;
                    }
                }
                let mut r = body.get_operators_reader().map_err(|e| e.to_string())?;
                let mut first: Option<i64> = None;
                while !r.eof() {
                    let pos = r.original_position();
                    let op = r.read().map_err(|e| e.to_string())?;
                    let b0 = bytes.get(pos).copied().unwrap_or(0);
                    let b1 = bytes.get(pos + 1).copied().unwrap_or(0xff);
                    if float_opcode(b0, b1) {
                        b.float_op = true;
                    }
                    if b0 == 0xFD {
                        b.simd_op = true;
                    }
                    match &op {
                        Operator::Block { blockty } | Operator::Loop { blockty } | Operator::If { blockty } => {
                            if let BlockType::Type(t) = blockty {
                                if is_float(t) {
                                    b.float_blocktype = true;
                                }
                            }
                        }
                        Operator::BrTable { targets } => b.max_br_table = b.max_br_table.max(targets.len()),
                        Operator::Call { function_index } => b.calls.push(*function_index),
                        Operator::GlobalGet { global_index } | Operator::GlobalSet { global_index } => b.global_refs.push(*global_index),
                        _ => {}
                    }
                    if !matches!(op, Operator::Unreachable | Operator::Return | Operator::Else | Operator::End) {
                        b.has_costed_instruction = true;
                    }
                    if !matches!(
                        op,
                        Operator::Nop | Operator::End | Operator::Unreachable | Operator::Return | Operator::Br { .. } | Operator::Block { blockty: BlockType::Empty } | Operator::Loop { blockty: BlockType::Empty }
                    ) {
                        b.pushes_or_pops = true;
                    }
                    if b.n_ops == 0 {
                        if let Operator::I64Const { value } = op {
                            first = Some(value);
                        }
                    } else if b.n_ops == 1 {
                        if let (Some(v), Operator::Call { function_index }) = (first, &op) {
                            b.leading_charge = Some((v, *function_index));
                        }
                    }
                    b.n_ops += 1;
                }
                f.bodies.push(b);
            }
            _ => {}
        }
    }
    Ok(f)
}

fn vt(c: char) -> ValType {
    match c {
        'L' => ValType::I64,
        _ => ValType::I32,
    }
}

/// The rules an *accepted* module must satisfy. `input` = the bytes given to validate,
/// `output` = the instrumented code it returned. Returns (rule-class, explanation) pairs.
pub fn check_accepted(input: &Facts, output: &Facts) -> Vec<(String, String)> {
    let mut v: Vec<(String, String)> = vec![];
    let mut bad = |rule: &str, why: String| v.push((rule.to_string(), why));

    for (which, f) in [("input", input), ("output", output)] {
        // --- no floating point
        if f.float_in_types || f.float_global || f.bodies.iter().any(|b| b.float_local || b.float_op || b.float_blocktype) {
            bad("floating-point", format!("{which}: float type or instruction present"));
        }
        // --- no start function
        if f.start.is_some() {
            bad("start-function", format!("{which}: start section present"));
        }
        // --- single exported memory bounded by the limit
        if f.imported_memories != 0 || f.memories.len() != 1 {
            bad("memory-count", format!("{which}: {} defined + {} imported memories", f.memories.len(), f.imported_memories));
        } else {
            let (init, max) = f.memories[0];
            if init > LIM_MEMORY_PAGES {
                bad("memory-initial", format!("{which}: initial pages {init}"));
            }
            match max {
                Some(m) if m > LIM_MEMORY_PAGES => bad("memory-maximum", format!("{which}: maximum pages {m}")),
                None if which == "output" => bad("memory-maximum", "output: memory has no maximum".into()),
                _ => {}
            }
            if !f.exports.iter().any(|(n, k, i)| n == "memory" && *k == ExternalKind::Memory && *i == 0) {
                bad("memory-export", format!("{which}: memory 0 is not exported as \"memory\""));
            }
        }
        // --- bounded tables
        if f.tables.len() + f.imported_tables as usize > 1 {
            bad("table-count", format!("{which}: {} tables", f.tables.len() + f.imported_tables as usize));
        }
        for (init, _) in &f.tables {
            if *init > LIM_TABLE_INITIAL {
                bad("table-initial", format!("{which}: table initial {init}"));
            }
        }
        // --- params, locals, br_table
        for (i, t) in f.local_func_types.iter().enumerate() {
            if let Some(sig) = f.types.get(*t as usize) {
                if sig.params.len() > LIM_PARAMS {
                    bad("function-params", format!("{which}: function {i} has {} params", sig.params.len()));
                    break;
                }
            }
        }
        for (i, b) in f.bodies.iter().enumerate() {
            if b.locals > LIM_LOCALS {
                bad("function-locals", format!("{which}: function {i} has {} locals", b.locals));
                break;
            }
        }
        for (i, b) in f.bodies.iter().enumerate() {
            if b.max_br_table > LIM_BR_TABLE_TARGETS {
                bad("br-table-targets", format!("{which}: function {i} br_table with {} targets", b.max_br_table));
                break;
            }
        }
        // --- only the permitted host imports
        let mut gas_imports = 0;
        for imp in &f.imports {
            if imp.module != "env" {
                bad("import-module", format!("{which}: import from module {:?}", imp.module));
                continue;
            }
            if imp.kind != "func" {
                bad("import-kind", format!("{which}: {} import {:?}", imp.kind, imp.name));
                continue;
            }
            let sig = imp.func_type.and_then(|t| f.types.get(t as usize));
            if imp.name == GAS {
                gas_imports += 1;
                if which == "input" {
                    bad("import-name", "input: module imports the metering function itself".into());
                } else if sig != Some(&Sig { params: vec![ValType::I64], results: vec![] }) {
                    bad("metering", format!("output: gas import has signature {sig:?}"));
                }
                continue;
            }
            match host_fn(&imp.name) {
                None => bad("import-name", format!("{which}: import of unknown host function {:?}", imp.name)),
                Some(h) => {
                    let want = Sig {
                        params: (0..h.n_slots()).map(|_| ValType::I32).collect(),
                        results: if h.result == 'V' { vec![] } else { vec![vt(h.result)] },
                    };
                    if sig != Some(&want) {
                        bad("import-signature", format!("{which}: {} imported with {sig:?}", imp.name));
                    }
                }
            }
        }
        if which == "output" && gas_imports != 1 {
            bad("metering", format!("output: {gas_imports} gas imports"));
        }
    }
    // --- bounded functions and globals (instrumentation adds thunks and one global)
    if input.local_func_types.len() > LIM_FUNCTIONS {
        bad("function-count", format!("input: {} functions", input.local_func_types.len()));
    }
    if input.globals.len() > LIM_GLOBALS {
        bad("global-count", format!("input: {} globals", input.globals.len()));
    }
    let thunk_room = output.exports.len() + output.elem_items + 1;
    if output.local_func_types.len() > LIM_FUNCTIONS + thunk_room {
        bad("function-count", format!("output: {} functions", output.local_func_types.len()));
    }
    // --- metering injected: gas is called at the entry of every function that executes anything
    if let Some(gas_idx) = output.imports.iter().filter(|i| i.kind == "func").position(|i| i.name == GAS) {
        let gas_idx = gas_idx as u32;
        if output.bodies.len() < input.bodies.len() {
            bad("metering", "output has fewer function bodies than input".into());
        }
        for (i, (ib, ob)) in input.bodies.iter().zip(output.bodies.iter()).enumerate() {
            if ib.has_costed_instruction || ib.locals > 0 {
                match ob.leading_charge {
                    Some((n, f)) if n > 0 && f == gas_idx => {}
                    other => {
                        bad("metering", format!("function {i} does not start with a positive gas charge: {other:?}"));
                        break;
                    }
                }
            }
        }
    }
    // --- stack limiting injected: one extra mutable i32 global initialised to 0, used by some function
    if output.globals.len() != input.globals.len() + 1 {
        bad("stack-limiter", format!("output has {} globals, input {}", output.globals.len(), input.globals.len()));
    } else {
        let g = output.globals.last().unwrap();
        if !(g.0 == ValType::I32 && g.1 && g.2 == Some(0)) {
            bad("stack-limiter", format!("stack height global is {g:?}"));
        }
        let gidx = (output.imported_globals as usize + output.globals.len() - 1) as u32;
        // every exported local function with params or locals must go through a thunk touching it
        let n_imp = output.n_import_funcs;
        for (name, kind, idx) in &output.exports {
            if *kind != ExternalKind::Func || *idx < n_imp {
                continue;
            }
            let Some(b) = output.bodies.get((*idx - n_imp) as usize) else { continue };
            if !b.global_refs.contains(&gidx) {
                // allowed only when the export has zero stack cost: no declared locals and a body
                // that never pushes a value (the limiter skips thunks for zero-cost callees).
                let trivial = b.locals == 0 && !b.pushes_or_pops;
                if !trivial {
                    bad("stack-limiter", format!("exported function {name:?} is not wrapped by a stack-height thunk"));
                    break;
                }
            }
        }
    }
    v
}
