//! C45: `ScryptoV1WasmValidator::validate` is total (error or instrumented code, never a panic)
//! and every module it accepts obeys the sandbox rules.
//!
//! Oracle: (a) no panic for any input; (b) every *accepted* (input, output) pair is re-read with
//! wasmparser and checked by the independent rule checker in `facts.rs` (no floats, no start,
//! one memory exported as "memory" within the limit, bounded tables / functions / params /
//! locals / globals / br_table targets, only documented `env` imports with documented
//! signatures, gas charge at the entry of every function, stack-height global + thunks);
//! (c) the returned code is valid WebAssembly; (d) behavioural spot checks on accepted modules:
//! unbounded recursion is stopped by the injected stack limiter, and calling an export charges
//! units.
use crate::c46::run_instrumented;
use crate::facts::{self, check_accepted};
use crate::gen::{generate, Flavour};
use crate::hostfns::{HostFn, HOST_FNS};
use radix_engine::vm::wasm::{PrepareError, ScryptoV1WasmValidator, WasmiModule};
use radix_engine::vm::ScryptoVmVersion;
use radix_engine_interface::blueprints::package::PackageDefinition;
use rv_common::*;
use serde_json::{json, Value};
use std::time::Duration;
use wasmparser::WasmFeatures;

// ------------------------------------------------------------------------------------------
// structured near-boundary modules
// ------------------------------------------------------------------------------------------
#[derive(Clone, Debug)]
pub struct ModSpec {
    pub imports: Vec<String>, // full WAT import forms
    pub memories: Vec<(u64, Option<u64>)>,
    pub mem_export: &'static str, // "memory" | "mem" | "none" | "func"
    pub tables: Vec<(u64, Option<u64>)>,
    pub n_globals: usize,
    pub extra_funcs: usize,
    pub big_params: Option<usize>,
    pub big_locals: Option<(usize, bool)>,
    pub br_table: Option<usize>,
    pub start: bool,
    pub float: Option<usize>,
    pub export_test_f: bool,
    pub test_f_sig_ok: bool,
    pub body_noise: u64,
}

impl ModSpec {
    pub fn baseline(rng: &mut Rng) -> Self {
        ModSpec {
            imports: vec![],
            memories: vec![(1 + rng.below(3), if rng.bool() { Some(4 + rng.below(60)) } else { None })],
            mem_export: "memory",
            tables: if rng.bool() { vec![(rng.below(20), None)] } else { vec![] },
            n_globals: rng.usize_below(6),
            extra_funcs: rng.usize_below(5),
            big_params: None,
            big_locals: None,
            br_table: None,
            start: false,
            float: None,
            export_test_f: true,
            test_f_sig_ok: true,
            body_noise: rng.u64(),
        }
    }

    pub fn render(&self) -> String {
        let mut s = String::from("(module\n");
        for i in &self.imports {
            s.push_str(i);
            s.push('\n');
        }
        for (i, (init, max)) in self.memories.iter().enumerate() {
            match max {
                Some(m) => s.push_str(&format!("(memory $m{i} {init} {m})\n")),
                None => s.push_str(&format!("(memory $m{i} {init})\n")),
            }
        }
        match self.mem_export {
            "memory" if !self.memories.is_empty() => s.push_str("(export \"memory\" (memory 0))\n"),
            "mem" if !self.memories.is_empty() => s.push_str("(export \"mem\" (memory 0))\n"),
            "func" => s.push_str("(export \"memory\" (func $Test_f))\n"),
            _ => {}
        }
        for (i, (init, max)) in self.tables.iter().enumerate() {
            match max {
                Some(m) => s.push_str(&format!("(table $tb{i} {init} {m} funcref)\n")),
                None => s.push_str(&format!("(table $tb{i} {init} funcref)\n")),
            }
        }
        let mut r = Rng::new(self.body_noise);
        for i in 0..self.n_globals {
            if i % 3 == 0 {
                s.push_str(&format!("(global $g{i} i64 (i64.const {}))\n", r.below(1000)));
            } else {
                s.push_str(&format!("(global $g{i} (mut i32) (i32.const {}))\n", r.below(1000)));
            }
        }
        // float variants
        let mut test_f_extra = String::new();
        match self.float {
            Some(0) => s.push_str("(func $fl (param f32))\n"),
            Some(1) => s.push_str("(func $fl (result f64) (f64.const 1.5))\n"),
            Some(2) => s.push_str("(func $fl (local f32))\n"),
            Some(3) => s.push_str("(global $gf f64 (f64.const 0))\n"),
            Some(4) => test_f_extra.push_str("(drop (f32.const 1))\n"),
            Some(5) => test_f_extra.push_str("(drop (f64.add (f64.const 1) (f64.const 2)))\n"),
            Some(6) => test_f_extra.push_str("(drop (f32.load (i32.const 0)))\n"),
            Some(7) => test_f_extra.push_str("(drop (i32.trunc_f32_s (f32.const 1)))\n"),
            Some(8) => test_f_extra.push_str("(drop (block (result f64) (f64.const 0)))\n"),
            Some(9) => test_f_extra.push_str("(drop (i32.reinterpret_f32 (f32.const 0)))\n"),
            Some(10) => s.push_str("(type $unused (func (param f64)))\n"),
            Some(11) => test_f_extra.push_str("(f64.store (i32.const 0) (f64.convert_i32_s (i32.const 1)))\n"),
            Some(12) => test_f_extra.push_str("(drop (i64.trunc_sat_f64_u (f64.const 1)))\n"),
            Some(_) => test_f_extra.push_str("(drop (f32.demote_f64 (f64.const 1)))\n"),
            None => {}
        }
        if let Some(n) = self.br_table {
            // n targets + default
            test_f_extra.push_str("(block $o (block $i (br_table");
            for j in 0..n {
                test_f_extra.push_str(if j % 2 == 0 { " $i" } else { " $o" });
            }
            test_f_extra.push_str(" $o (i32.wrap_i64 (local.get 0)))))\n");
        }
        // Test_f
        if self.test_f_sig_ok {
            s.push_str(&format!("(func $Test_f (param i64) (result i64)\n{test_f_extra}"));
            for _ in 0..r.below(4) {
                s.push_str(&format!("(drop (i32.add (i32.const {}) (i32.const {})))\n", r.below(100), r.below(100)));
            }
            s.push_str("(i64.const 0))\n");
        } else {
            s.push_str(&format!("(func $Test_f (param i32) (result i64)\n{test_f_extra}(i64.const 0))\n"));
        }
        if self.export_test_f {
            s.push_str("(export \"Test_f\" (func $Test_f))\n");
        }
        if let Some(n) = self.big_params {
            s.push_str("(func $bp");
            for j in 0..n {
                s.push_str(if j % 2 == 0 { " (param i64)" } else { " (param i32)" });
            }
            s.push_str(")\n");
        }
        if let Some((n, split)) = self.big_locals {
            if split && n >= 2 {
                s.push_str(&format!("(func $bl (local {}) (local {}))\n", vec!["i32"; n / 2].join(" "), vec!["i64"; n - n / 2].join(" ")));
            } else {
                s.push_str(&format!("(func $bl (local {}))\n", vec!["i64"; n].join(" ")));
            }
        }
        for i in 0..self.extra_funcs {
            if i % 2 == 0 {
                s.push_str(&format!("(func $x{i} (param i32) (result i32) (i32.mul (local.get 0) (i32.const {})))\n", r.below(100)));
            } else {
                s.push_str(&format!("(func $x{i})\n"));
            }
        }
        if self.start {
            s.push_str("(func $st)\n(start $st)\n");
        }
        s.push_str(")\n");
        s
    }
}

/// (rule name, expected verdict: Some(true)=accept, Some(false)=reject, None=unspecified)
pub fn boundary_case(rng: &mut Rng, forced: Option<(u64, i64)>) -> (ModSpec, String, Option<bool>) {
    let mut m = ModSpec::baseline(rng);
    let mut delta: i64 = *rng.pick(&[-1i64, 0, 0, 1, 1]);
    if let Some((_, d)) = forced {
        delta = d;
    }
    let dn = |d: i64| if d > 0 { "+1" } else if d < 0 { "-1" } else { "+0" };
    let at = |limit: u64| (limit as i64 + delta) as u64;
    let exp = Some(delta <= 0);
    // 8192-function modules take ~2 s each to validate (the stack limiter re-reads the whole code
    // section per function), so that rule is sampled rarely
    let mut k = rng.below(28);
    if k >= 17 {
        k += 2;
    }
    if rng.chance(1, 500) {
        k = 17;
    }
    if let Some((fk, _)) = forced {
        k = fk;
    }
    let (name, expect): (String, Option<bool>) = match k {
        0 | 1 => ("baseline".into(), Some(true)),
        2 | 3 => {
            let v = rng.usize_below(14);
            m.float = Some(v);
            (format!("float:{v}"), Some(false))
        }
        4 => {
            m.start = true;
            ("start".into(), Some(false))
        }
        5 => {
            m.memories.clear();
            m.mem_export = "none";
            ("memory:none".into(), Some(false))
        }
        6 => {
            m.memories.push((1, Some(2)));
            ("memory:two".into(), Some(false))
        }
        7 => {
            m.memories.clear();
            m.mem_export = "none";
            m.imports.push("(import \"env\" \"memory\" (memory 1))".into());
            ("memory:imported".into(), Some(false))
        }
        8 => {
            m.mem_export = *rng.pick(&["mem", "none", "func"]);
            (format!("memory:export-{}", m.mem_export), Some(false))
        }
        9 | 10 => {
            let init = at(facts::LIM_MEMORY_PAGES);
            m.memories = vec![(init, if rng.bool() { Some(init) } else { None })];
            (format!("memory:initial{}", dn(delta)), exp)
        }
        11 | 12 => {
            m.memories = vec![(rng.below(3), Some(at(facts::LIM_MEMORY_PAGES)))];
            (format!("memory:maximum{}", dn(delta)), exp)
        }
        13 => {
            m.memories = vec![(5, Some(4))];
            ("memory:initial>maximum".into(), Some(false))
        }
        14 | 15 => {
            m.tables = vec![(at(facts::LIM_TABLE_INITIAL as u64), if rng.bool() { Some(100_000) } else { None })];
            (format!("table:initial{}", dn(delta)), exp)
        }
        16 => {
            m.tables = vec![(1, None), (1, None)];
            ("table:two".into(), Some(false))
        }
        17 | 18 => {
            // Test_f + extra funcs (+ none of the optional ones)
            m.extra_funcs = at(facts::LIM_FUNCTIONS as u64) as usize - 1;
            (format!("functions:count{}", dn(delta)), exp)
        }
        19 | 20 => {
            m.big_params = Some(at(facts::LIM_PARAMS as u64) as usize);
            (format!("functions:params{}", dn(delta)), exp)
        }
        21 | 22 => {
            m.big_locals = Some((at(facts::LIM_LOCALS) as usize, rng.bool()));
            (format!("functions:locals{}", dn(delta)), exp)
        }
        23 | 24 => {
            m.n_globals = at(facts::LIM_GLOBALS as u64) as usize;
            (format!("globals:count{}", dn(delta)), exp)
        }
        25 | 26 => {
            m.br_table = Some(at(facts::LIM_BR_TABLE_TARGETS as u64) as usize);
            (format!("br_table:targets{}", dn(delta)), exp)
        }
        _ => {
            // imports
            let h: &HostFn = &HOST_FNS[rng.usize_below(HOST_FNS.len())];
            match rng.below(8) {
                0 => {
                    m.imports.push(h.wat_import());
                    ("import:permitted".into(), Some(true))
                }
                1 => {
                    m.imports.push(h.wat_import().replace("\"env\"", "\"env2\""));
                    ("import:wrong-module".into(), Some(false))
                }
                2 => {
                    m.imports.push(format!("(import \"env\" \"{}_x\" (func {}))", h.name, h.wat_sig()));
                    ("import:unknown-name".into(), Some(false))
                }
                3 => {
                    // exactly one deviation from the documented signature
                    let n = h.n_slots();
                    let params = |k: usize, t: &str| if k == 0 { String::new() } else { format!("(param{})", format!(" {t}").repeat(k)) };
                    let res = |c: char| match c {
                        'L' => " (result i64)",
                        'I' => " (result i32)",
                        _ => "",
                    };
                    let (sig, what) = match rng.below(5) {
                        0 => (format!("{}{}", params(n + 1, "i32"), res(h.result)), "extra-param"),
                        1 if n > 0 => (format!("{}{}", params(n - 1, "i32"), res(h.result)), "missing-param"),
                        2 if n > 0 => (format!("(param{} i64){}", " i32".repeat(n - 1), res(h.result)), "i64-param"),
                        3 => (format!("{}{}", params(n, "i32"), res(match h.result { 'L' => 'I', 'I' => 'L', _ => 'I' })), "other-result-type"),
                        _ => (format!("{}{}", params(n, "i32"), res(if h.result == 'V' { 'L' } else { 'V' })), "result-added-or-dropped"),
                    };
                    m.imports.push(format!("(import \"env\" \"{}\" (func {sig}))", h.name));
                    (format!("import:wrong-signature:{what}"), Some(false))
                }
                4 => {
                    m.imports.push("(import \"env\" \"gas\" (func (param i64)))".into());
                    ("import:gas-itself".into(), Some(false))
                }
                5 => {
                    m.imports.push(format!("(import \"env\" \"{}\" (global i32))", h.name));
                    ("import:global".into(), Some(false))
                }
                6 => {
                    m.imports.push(format!("(import \"env\" \"{}\" (table 1 funcref))", h.name));
                    m.tables.clear();
                    ("import:table".into(), Some(false))
                }
                _ => {
                    for h in HOST_FNS {
                        m.imports.push(h.wat_import());
                    }
                    ("import:all-permitted".into(), Some(true))
                }
            }
        }
    };
    (m, name, expect)
}

// ------------------------------------------------------------------------------------------
// byte-level mutation
// ------------------------------------------------------------------------------------------
fn mutate(rng: &mut Rng, seed: &[u8], other: &[u8]) -> (Vec<u8>, &'static str) {
    let mut b = seed.to_vec();
    if b.is_empty() {
        return (b, "empty");
    }
    let kind = rng.below(12);
    let n = b.len();
    let name = match kind {
        0 | 1 => {
            let i = rng.usize_below(n);
            b[i] ^= 1 << rng.below(8);
            "bitflip"
        }
        2 => {
            let i = rng.usize_below(n);
            b[i] = if rng.bool() { b[i].wrapping_add(1) } else { b[i].wrapping_sub(1) };
            "byte-plus-minus-one"
        }
        3 => {
            for _ in 0..1 + rng.below(2) {
                let i = rng.usize_below(n);
                b[i] = *rng.pick(&[0u8, 1, 0x7f, 0x80, 0xff, 0x0b, 0x40, 0x7e, 0x7d, 0x7c, 0x70, 0x10, 0x11, 0x0e, 0x41, 0x42, 0x43, 0x44, 0xfc, 0xfd, 0x3f, 0x02, 0x03, 0x04]);
            }
            "byte-replace"
        }
        4 => {
            let cut = rng.usize_below(n);
            b.truncate(cut);
            "truncate"
        }
        5 => {
            let i = rng.usize_below(n);
            let len = 1 + rng.usize_below(8.min(n - i));
            b.drain(i..i + len);
            "delete"
        }
        6 => {
            let i = rng.usize_below(n + 1);
            let k_ = 1 + rng.usize_below(6);
            let ins = rng.bytes(k_);
            b.splice(i..i, ins);
            "insert"
        }
        7 => {
            let i = rng.usize_below(n);
            let len = 1 + rng.usize_below(16.min(n - i));
            let chunk: Vec<u8> = b[i..i + len].to_vec();
            let j = rng.usize_below(b.len() + 1);
            b.splice(j..j, chunk);
            "duplicate"
        }
        8 => {
            // LEB-ish edit: set/clear a continuation bit, or turn a byte into a long LEB
            let i = rng.usize_below(n);
            if rng.bool() {
                b[i] ^= 0x80;
            } else {
                b.splice(i..i + 1, vec![0xff, 0xff, 0xff, 0xff, 0x0f]);
            }
            "leb"
        }
        9 => {
            // splice the tail of another module
            if !other.is_empty() {
                let i = 8.min(n) + rng.usize_below(n - 8.min(n) + 1);
                let j = rng.usize_below(other.len());
                b.truncate(i);
                b.extend_from_slice(&other[j..]);
            }
            "splice"
        }
        10 => {
            let k_ = 1 + rng.usize_below(12);
            let extra = rng.bytes(k_);
            b.extend_from_slice(&extra);
            "trailing"
        }
        _ => {
            // keep the header, random body
            let len = rng.usize_below(64);
            let mut v = b[..8.min(n)].to_vec();
            v.extend(rng.bytes(len));
            b = v;
            "random-body"
        }
    };
    (b, name)
}

// ------------------------------------------------------------------------------------------
// evaluation
// ------------------------------------------------------------------------------------------
fn error_variant(e: &PrepareError) -> String {
    let s = format!("{e:?}");
    let end = s.find(|c: char| c == '(' || c == ' ' || c == '{').unwrap_or(s.len());
    let mut v = s[..end].to_string();
    match e {
        PrepareError::InvalidImport(i) => v.push_str(&format!(":{}", format!("{i:?}").split(|c| c == '(' || c == ' ').next().unwrap_or(""))),
        PrepareError::InvalidMemory(i) => v.push_str(&format!(":{i:?}")),
        PrepareError::InvalidTable(i) => v.push_str(&format!(":{i:?}")),
        _ => {}
    }
    v
}

pub fn mvp_features() -> WasmFeatures {
    WasmFeatures {
        mutable_global: true,
        saturating_float_to_int: false,
        sign_extension: true,
        reference_types: false,
        multi_value: false,
        bulk_memory: false,
        simd: false,
        relaxed_simd: false,
        threads: false,
        tail_call: false,
        floats: false,
        multi_memory: false,
        exceptions: false,
        memory64: false,
        extended_const: false,
        component_model: false,
        function_references: false,
        memory_control: false,
        gc: false,
    }
}

pub struct Verdict {
    pub accepted: Option<Vec<u8>>,
    pub class: String,
}

/// Runs validate on `code` and applies all C45 checks. `origin` describes the input for replay.
pub fn evaluate(code: &[u8], with_blueprint: bool, origin: &dyn Fn() -> Value, shard: &mut Shard) -> Verdict {
    shard.eval();
    let def = PackageDefinition::new_single_function_test_definition("Test", "f");
    let validator = ScryptoV1WasmValidator::new(ScryptoVmVersion::latest());
    let r = catch(std::panic::AssertUnwindSafe(|| if with_blueprint { validator.validate(code, def.blueprints.values()) } else { validator.validate(code, std::iter::empty()) }));
    let detail = |extra: Value| json!({"origin": origin(), "input_hex": if code.len() <= 6000 { hex(code) } else { String::new() }, "input_len": code.len(), "with_blueprint": with_blueprint, "info": extra});
    match r {
        Err(p) => {
            shard.count("outcome:panic");
            shard.violation(format!("validate:panic:{}", p.site()), detail(json!({"panic": p.summary()})));
            Verdict { accepted: None, class: "panic".into() }
        }
        Ok(Err(e)) => {
            shard.count("outcome:rejected");
            let v = error_variant(&e);
            shard.seen("error_variants", &v);
            Verdict { accepted: None, class: v }
        }
        Ok(Ok((out, _exports))) => {
            shard.count("outcome:accepted");
            // (c) returned code is valid WebAssembly of the supported feature set
            if let Err(e) = wasmparser::Validator::new_with_features(mvp_features()).validate_all(&out) {
                shard.violation("accepted:output-is-not-valid-wasm", detail(json!({"error": e.to_string()})));
                return Verdict { accepted: Some(out), class: "accepted".into() };
            }
            match (facts::read(code), facts::read(&out)) {
                (Ok(fi), Ok(fo)) => {
                    shard.count("accepted_modules_rule_checked");
                    shard.add("accepted_functions_checked_for_entry_charge", fi.bodies.len() as u64);
                    for (rule, why) in check_accepted(&fi, &fo) {
                        shard.violation(format!("accepted:{rule}"), detail(json!({"why": why})));
                    }
                }
                (a, b) => {
                    shard.violation("accepted:unreadable-module", detail(json!({"input": a.err(), "output": b.err()})));
                }
            }
            Verdict { accepted: Some(out), class: "accepted".into() }
        }
    }
}

fn recursion_module(rng: &mut Rng) -> (String, &'static str) {
    let locals = rng.below(40);
    let loc = if locals > 0 { format!("(local {})", vec!["i64"; locals as usize].join(" ")) } else { String::new() };
    match rng.below(3) {
        0 => (format!("(module (memory 1) (export \"memory\" (memory 0))\n(func $r (param i64) (result i64) {loc} (call $r (i64.add (local.get 0) (i64.const 1))))\n(export \"Test_f\" (func $r)))"), "direct"),
        1 => (
            format!("(module (memory 1) (export \"memory\" (memory 0))\n(func $a (param i64) (result i64) {loc} (call $b (local.get 0)))\n(func $b (param i64) (result i64) (call $a (i64.add (local.get 0) (i64.const 1))))\n(export \"Test_f\" (func $a)))"),
            "mutual",
        ),
        _ => (
            format!("(module (memory 1) (export \"memory\" (memory 0))\n(type $t (func (param i64) (result i64)))\n(table 2 funcref) (elem (i32.const 1) $r)\n(func $r (type $t) {loc} (call_indirect (type $t) (local.get 0) (i32.const 1)))\n(export \"Test_f\" (func $r)))"),
            "indirect",
        ),
    }
}

fn behavioural(rng: &mut Rng, shard: &mut Shard) {
    // unbounded recursion must be cut by the injected stack limiter (a deterministic
    // `unreachable`), not by the interpreter's own native limits
    let (wat_text, kind) = recursion_module(rng);
    let code = wat::parse_str(&wat_text).expect("recursion module");
    let origin = || json!({"kind": "recursion", "wat": wat_text});
    let v = evaluate(&code, true, &origin, shard);
    if let Some(out) = v.accepted {
        let module = WasmiModule::new(&out).expect("compile accepted module");
        let mut inst = module.instantiate().expect("instantiate accepted module");
        match run_instrumented(&mut inst, "Test_f", &[0]) {
            Ok(a) => {
                shard.count("behaviour:recursion_runs");
                shard.seen("recursion_kinds", kind);
                let class = a.out.result.clone().err().unwrap_or_else(|| "ok".into());
                shard.seen("recursion_outcome", &class);
                if class != "Trap:UnreachableCodeReached" {
                    shard.violation("accepted:stack-limiter-ineffective", json!({"origin": origin(), "outcome": class, "gas_calls": a.gas_calls}));
                } else if a.gas_calls > 1100 {
                    shard.violation("accepted:stack-limiter-too-deep", json!({"origin": origin(), "gas_calls": a.gas_calls}));
                }
                if a.units == 0 {
                    shard.violation("accepted:metering-ineffective", json!({"origin": origin()}));
                }
                shard.max("recursion_depth_reached", a.gas_calls);
            }
            Err(p) => shard.violation(format!("accepted-module-run:panic:{}", p.site()), json!({"origin": origin(), "panic": p.summary()})),
        }
    }
}

pub fn spec() -> Spec {
    Spec::new(
        "C45",
        "exploration",
        "(i) byte-level mutations (bit flips, hostile byte/LEB edits, truncation, deletion, insertion, duplication, splicing, trailing bytes, random bodies) of a corpus of valid modules (generated compute programs, the 49-import host module, boundary modules) and raw random bytes; (ii) WAT-generated structurally valid modules violating exactly one sandbox rule at limit-1 / limit / limit+1 (and none); (iii) unbounded-recursion modules run after acceptance. distinct = hash of the input bytes.",
    )
    .assume("wasmparser 0.107 is trusted as a *reader* of accepted modules; the rule logic, opcode classification, limits and the host import table are written independently (import table from scrypto's guest-side extern declarations)")
    .assume("ScryptoVmVersion::latest() (all crypto_utils imports permitted)")
    .floor("evaluations", 30_000)
    .floor("distinct_nontrivial", 20_000)
    .floor("outcome:accepted", 3_000)
    .floor("outcome:rejected", 10_000)
    .floor("mutated:accepted", 300)
    .floor("boundary:accepted_at_or_below_limit", 500)
    .floor("boundary:rejected_above_limit", 300)
    .floor("accepted_modules_rule_checked", 3_000)
    .floor("behaviour:recursion_runs", 50)
    .floor("export_name_cases", 100)
    .floor("hostile_shapes", 8)
}

const BOUNDARY_RULES: &[&str] = &["memory:initial", "memory:maximum", "table:initial", "functions:count", "functions:params", "functions:locals", "globals:count", "br_table:targets"];

pub fn run(args: &Args) -> i32 {
    let mut report = Report::new(args, spec());
    if let Some(path) = &args.replay {
        return replay(path, report);
    }
    let small = args.extra.iter().any(|a| a == "small") || args.scale < 0.05;
    if small {
        report.args.replay = Some(std::path::PathBuf::from("<small-mode>"));
        report.notes.push("small mode (valgrind-sized): evidence file not rewritten".into());
        report.spec.floors.clear();
    }
    let total = if small { 400 } else { scaled(args, args.tier.pick(60_000, 3_000_000)) };
    let threads = if small { 1 } else { args.threads };
    let per_shard = (total / threads as u64).max(1);
    let budget = Duration::from_secs(budget_secs(args.tier, 45, 720));
    report.run_shards(45, threads, budget, |_i, rng, shard| {
        // corpus of valid seeds for this shard
        let mut corpus: Vec<Vec<u8>> = vec![];
        for k in 0..24 {
            let fl = [Flavour::Mixed, Flavour::Separated, Flavour::Family][k % 3];
            let p = generate(rng, fl);
            corpus.push(wat::parse_str(&p.wat).expect("corpus program"));
        }
        for _ in 0..12 {
            let m = ModSpec::baseline(rng);
            corpus.push(wat::parse_str(m.render()).expect("corpus baseline"));
        }
        {
            let mut m = ModSpec::baseline(rng);
            for h in HOST_FNS {
                m.imports.push(h.wat_import());
            }
            corpus.push(wat::parse_str(m.render()).expect("corpus imports"));
        }
        let mut n = 0u64;
        while n < per_shard && !shard.time_up() {
            n += 1;
            let pick = if n <= 3 && _i == 0 && !small { 19 } else { rng.below(20) };
            match pick {
                0..=11 => {
                    // (i) mutation
                    let si = rng.usize_below(corpus.len());
                    let oi = rng.usize_below(corpus.len());
                    let rounds = if rng.chance(3, 5) { 1 } else { 1 + rng.below(3) };
                    let mut b = corpus[si].clone();
                    let mut kinds = vec![];
                    for _ in 0..rounds {
                        let (nb, k) = mutate(rng, &b, &corpus[oi]);
                        b = nb;
                        kinds.push(k);
                    }
                    shard.seen("mutation_kinds", kinds[0]);
                    let origin = || json!({"kind": "mutation", "mutations": kinds});
                    let wb = rng.chance(1, 4);
                    let v = evaluate(&b, wb, &origin, shard);
                    shard.count("mutated");
                    if v.accepted.is_some() {
                        shard.count("mutated:accepted");
                        if b != corpus[si] {
                            shard.count("mutated:accepted_and_different_from_seed");
                        }
                    }
                    shard.nontrivial(&b);
                }
                12 => {
                    // raw bytes
                    let len = rng.size(200);
                    let mut b = rng.bytes(len);
                    if rng.bool() && b.len() >= 8 {
                        b[..8].copy_from_slice(&[0, 0x61, 0x73, 0x6d, 1, 0, 0, 0]);
                    }
                    let origin = || json!({"kind": "raw"});
                    evaluate(&b, false, &origin, shard);
                    shard.count("raw_bytes");
                    shard.nontrivial(&b);
                }
                13 if rng.chance(1, 6) => behavioural(rng, shard),
                14 if rng.chance(1, 8) => {
                    // hostile export names (binary built directly; may be invalid UTF-8 / not identifiers)
                    let name: Vec<u8> = match rng.below(16) {
                        0 => vec![],
                        1 => b"_".to_vec(),
                        2 => b"r#abc".to_vec(),
                        3 => b"r#self".to_vec(),
                        4 => b"self".to_vec(),
                        5 => b"a b".to_vec(),
                        6 => b"a\0b".to_vec(),
                        7 => "\u{fc}n\u{ef}code".as_bytes().to_vec(),
                        8 => b"123".to_vec(),
                        9 => b"'a".to_vec(),
                        10 => b"/*".to_vec(),
                        11 => vec![0xff, 0xfe, 0x80],
                        12 => vec![b'a'; 1 + rng.usize_below(100_000)],
                        13 => "\u{1F600}".as_bytes().to_vec(),
                        14 => b"memory".to_vec(),
                        _ => {
                            let k_ = 1 + rng.usize_below(12);
                            rng.bytes(k_)
                        }
                    };
                    let code = deep_module_named(3, "line", &name);
                    let origin = || json!({"kind": "export-name", "name_hex": hex(&name[..name.len().min(64)])});
                    let v = evaluate(&code, false, &origin, shard);
                    shard.count("export_name_cases");
                    shard.seen("export_name_outcomes", &v.class);
                    shard.nontrivial(&code);
                }
                15 if rng.chance(1, 150) => {
                    // deep nesting / long bodies / tall operand stacks, on an ordinary 8 MiB stack
                    let kind = *rng.pick(&["block", "loop", "if", "stack", "line", "calls", "grow"]);
                    let n = 1 + rng.usize_below(40_000);
                    let code = deep_module(n, kind);
                    let origin = || json!({"kind": "hostile-shape", "shape": kind, "n": n});
                    let mut sub = Shard::new(shard.index, &shard.prop, shard.tier, shard.deadline);
                    std::thread::scope(|sc| {
                        std::thread::Builder::new().stack_size(8 << 20).spawn_scoped(sc, || {
                            evaluate(&code, true, &origin, &mut sub);
                        }).unwrap().join().unwrap();
                    });
                    shard.evaluations += sub.evaluations;
                    for (k, v) in sub.counters {
                        shard.add(&k, v);
                    }
                    shard.violations.extend(sub.violations);
                    shard.count("hostile_shapes");
                    shard.seen("hostile_shape_kinds", kind);
                    shard.max("hostile_shape_n", n as u64);
                    shard.nontrivial(&(kind, n));
                }
                _ => {
                    // (ii) boundary module
                    // make sure the expensive function-count rule is seen on all three sides
                    let forced = if n <= 3 && _i == 0 && !small { Some((17, n as i64 - 2)) } else { None };
                    let (m, rule, expect) = boundary_case(rng, forced);
                    let wat_text = m.render();
                    let code = match wat::parse_str(&wat_text) {
                        Ok(c) => c,
                        Err(e) => {
                            // the text assembler itself refuses a few ill-formed cases (e.g. initial > maximum)
                            shard.count("boundary:refused_by_assembler");
                            shard.seen("assembler_refusals", &format!("{rule}: {}", e.to_string().lines().last().unwrap_or("").trim().chars().take(60).collect::<String>()));
                            continue;
                        }
                    };
                    let origin = || json!({"kind": "boundary", "rule": rule, "wat": if wat_text.len() < 4000 { wat_text.clone() } else { format!("{}...", &wat_text[..4000]) }});
                    let wb = rng.chance(1, 3);
                    let t0 = std::time::Instant::now();
                    let v = evaluate(&code, wb, &origin, shard);
                    if std::env::var("RV_TIMING").is_ok() {
                        shard.add(&format!("us:{}", rule.split(|c| c == '+' || c == '-').next().unwrap_or("")), t0.elapsed().as_micros() as u64);
                        shard.add(&format!("n:{}", rule.split(|c| c == '+' || c == '-').next().unwrap_or("")), 1);
                    }
                    shard.count("boundary");
                    let accepted = v.accepted.is_some();
                    shard.seen(if accepted { "rules_seen_accepted" } else { "rules_seen_rejected" }, &rule);
                    if !accepted {
                        shard.seen("rule_to_error", &format!("{rule} -> {}", v.class));
                    }
                    if BOUNDARY_RULES.iter().any(|r| rule.starts_with(r)) {
                        if accepted && !rule.ends_with("+1") {
                            shard.count("boundary:accepted_at_or_below_limit");
                        }
                        if !accepted && rule.ends_with("+1") {
                            shard.count("boundary:rejected_above_limit");
                        }
                    }
                    match (expect, accepted) {
                        (Some(false), true) => {
                            // the independent checker must already have flagged it; keep an explicit class too
                            shard.violation(format!("accepted-module-violating:{rule}"), json!({"origin": origin()}));
                        }
                        (Some(true), false) => {
                            shard.count("boundary:valid_module_rejected");
                            shard.seen("valid_modules_rejected", &format!("{rule} -> {}", v.class));
                        }
                        _ => {}
                    }
                    shard.nontrivial(&code);
                    if shard.want_sample() && rng.chance(1, 200) {
                        shard.sample(|| json!({"rule": rule, "accepted": accepted, "class": v.class, "input_bytes": code.len()}));
                    }
                }
            }
        }
    });
    // every boundary rule must have been seen on both sides
    let acc = report.sets.get("rules_seen_accepted").cloned().unwrap_or_default();
    let rej = report.sets.get("rules_seen_rejected").cloned().unwrap_or_default();
    let mut both = 0;
    for r in BOUNDARY_RULES {
        if acc.contains(&format!("{r}+0")) && acc.contains(&format!("{r}-1")) && rej.contains(&format!("{r}+1")) {
            both += 1;
        }
    }
    report.counters.insert("boundary_rules_observed_on_both_sides".into(), both);
    if !small {
        report.spec.floors.push(("boundary_rules_observed_on_both_sides".into(), BOUNDARY_RULES.len() as u64));
    }
    report.finish()
}

fn replay(path: &std::path::Path, mut report: Report) -> i32 {
    let doc: Value = serde_json::from_str(&std::fs::read_to_string(path).expect("replay file")).expect("json");
    let d = &doc["detail"];
    let wb = d["with_blueprint"].as_bool().unwrap_or(false);
    let code: Vec<u8> = if let Some(h) = d["input_hex"].as_str().filter(|h| !h.is_empty()) {
        unhex(h)
    } else if let Some(w) = d["origin"]["wat"].as_str() {
        match wat::parse_str(w) {
            Ok(c) => c,
            Err(e) => {
                println!("cannot assemble recorded wat: {e}");
                return 2;
            }
        }
    } else {
        println!("replay file holds neither input_hex nor wat");
        return 2;
    };
    let mut shard = Shard::new(0, "C45", report.args.tier, std::time::Instant::now() + Duration::from_secs(60));
    let origin = || json!({"kind": "replay"});
    let v = evaluate(&code, wb, &origin, &mut shard);
    println!("replayed {} input bytes: {} ; {} violation(s)", code.len(), v.class, shard.violations.len());
    for x in &shard.violations {
        println!("  {} {}", x.signature, x.detail["info"]);
    }
    shard.nontrivial(&1);
    shard.nontrivial(&2);
    report.merge(shard);
    report.spec.floors.clear();
    report.finish()
}

/// Hostile shapes: deep nesting / long straight-line bodies (binary built directly: the text
/// assembler is recursive).
pub fn deep_module(n: usize, kind: &str) -> Vec<u8> {
    deep_module_named(n, kind, b"Test_f")
}

pub fn deep_module_named(n: usize, kind: &str, export_name: &[u8]) -> Vec<u8> {
    fn leb(mut v: u64, out: &mut Vec<u8>) {
        loop {
            let b = (v & 0x7f) as u8;
            v >>= 7;
            if v == 0 {
                out.push(b);
                break;
            }
            out.push(b | 0x80);
        }
    }
    fn section(id: u8, body: &[u8], out: &mut Vec<u8>) {
        out.push(id);
        leb(body.len() as u64, out);
        out.extend_from_slice(body);
    }
    let mut code: Vec<u8> = vec![];
    match kind {
        "block" | "loop" => {
            let op = if kind == "block" { 0x02 } else { 0x03 };
            for _ in 0..n {
                code.extend_from_slice(&[op, 0x40]);
            }
            for _ in 0..n {
                code.push(0x0b);
            }
        }
        "if" => {
            for _ in 0..n {
                code.extend_from_slice(&[0x41, 0x01, 0x04, 0x40]);
            }
            for _ in 0..n {
                code.push(0x0b);
            }
        }
        "stack" => {
            // push n constants then drop them: operand stack height n
            for _ in 0..n {
                code.extend_from_slice(&[0x41, 0x01]);
            }
            for _ in 0..n {
                code.push(0x1a);
            }
        }
        "grow" => {
            for _ in 0..n {
                code.extend_from_slice(&[0x41, 0x00, 0x40, 0x00, 0x1a]); // i32.const 0; memory.grow; drop
            }
        }
        "calls" => {
            for _ in 0..n {
                code.extend_from_slice(&[0x42, 0x00, 0x10, 0x00, 0x1a]); // i64.const 0; call 0; drop
            }
        }
        _ => {
            // long straight line: n * (i32.const 1; drop)
            for _ in 0..n {
                code.extend_from_slice(&[0x41, 0x01, 0x1a]);
            }
        }
    }
    code.extend_from_slice(&[0x42, 0x00, 0x0b]); // i64.const 0; end
    let mut m: Vec<u8> = vec![0, 0x61, 0x73, 0x6d, 1, 0, 0, 0];
    section(1, &[1, 0x60, 1, 0x7e, 1, 0x7e], &mut m); // type (i64)->i64
    section(3, &[1, 0], &mut m); // one function
    section(5, &[1, 0, 1], &mut m); // memory 1
    let mut ex = vec![2u8];
    ex.push(6);
    ex.extend_from_slice(b"memory");
    ex.extend_from_slice(&[2, 0]);
    leb(export_name.len() as u64, &mut ex);
    ex.extend_from_slice(export_name);
    ex.extend_from_slice(&[0, 0]);
    section(7, &ex, &mut m);
    let mut body = vec![0u8]; // no locals
    body.extend_from_slice(&code);
    let mut cs = vec![1u8];
    leb(body.len() as u64, &mut cs);
    cs.extend_from_slice(&body);
    section(10, &cs, &mut m);
    m
}

pub fn deep_probe(n: usize, kind: &str) {
    let code = deep_module(n, kind);
    let t0 = std::time::Instant::now();
    let r = catch(std::panic::AssertUnwindSafe(|| ScryptoV1WasmValidator::new(ScryptoVmVersion::latest()).validate(&code, std::iter::empty())));
    let dt = t0.elapsed();
    match r {
        Err(p) => println!("{kind} n={n} bytes={} PANIC {} in {dt:?}", code.len(), p.summary()),
        Ok(Err(e)) => println!("{kind} n={n} bytes={} rejected {} in {dt:?}", code.len(), format!("{e:?}").chars().take(150).collect::<String>()),
        Ok(Ok((out, _))) => {
            println!("{kind} n={n} bytes={} accepted out_bytes={} in {dt:?}", code.len(), out.len());
            let t1 = std::time::Instant::now();
            let module = WasmiModule::new(&out).expect("compile");
            let mut inst = module.instantiate().expect("instantiate");
            let a = run_instrumented(&mut inst, "Test_f", &[0]);
            println!("  run: {:?} in {:?}", a.map(|a| (a.out.result.map(|b| b.len()), a.units, a.gas_calls)).map_err(|p| p.summary()), t1.elapsed());
        }
    }
}
