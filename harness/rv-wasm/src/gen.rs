//! Generator of structurally valid, terminating WAT programs following the Scrypto export ABI
//! (exports take N i64 and return an i64 `Slice` = ptr<<32|len pointing into memory).
//!
//! Three flavours:
//! * `Mixed`     - anything goes: trapping div/rem, unmasked addresses, unreachable, bad
//!                 call_indirect, early returns ... (differential + determinism checks)
//! * `Separated` - every branch condition / loop bound / table index / divisor / address that can
//!                 trap is computed from *control* values only (derived from export argument 0 and
//!                 constants); export argument 1 is *data*: it flows through arithmetic, data
//!                 locals/globals and the data memory region but never into control. Two calls
//!                 that differ only in the data argument execute the same path.
//! * `Family`    - like Separated but trap-free, and the top function has one main loop whose
//!                 iteration count is `arg0 & 63` and nothing else depends on arg0; control state
//!                 is loop-invariant, so every iteration executes the same path.
use crate::hostfns::{host_fn, HostFn};
use rv_common::Rng;

#[derive(Clone, Copy, Debug, PartialEq, Eq)]
pub enum Flavour {
    Mixed,
    Separated,
    Family,
}

#[derive(Clone, Copy, Debug, PartialEq, Eq)]
pub enum T {
    I32,
    I64,
}
impl T {
    fn s(self) -> &'static str {
        match self {
            T::I32 => "i32",
            T::I64 => "i64",
        }
    }
}

#[derive(Clone, Copy, Debug, PartialEq, Eq)]
pub enum Taint {
    Ctl,
    Dat,
}

#[derive(Clone, Debug)]
struct Var {
    name: String,
    ty: T,
    taint: Taint,
}

#[derive(Clone, Debug)]
struct FuncSig {
    name: String,
    params: Vec<(T, Taint)>,
    result: Option<(T, Taint)>,
    leaf: bool,
    type_name: String,
    table_slot: Option<u32>,
}

pub struct Program {
    pub wat: String,
    #[allow(dead_code)]
    pub flavour: Flavour,
    /// (export name, number of i64 parameters)
    pub exports: Vec<(String, usize)>,
    pub imports: Vec<&'static HostFn>,
    pub features: Vec<&'static str>,
}

const CTL_MASK: i32 = 0x0ff8;
const DAT_MASK: i32 = 0x3ff8;
const DAT_BASE: i32 = 0x4000;
pub const DIGEST_BASE: u32 = 0x8000;

const IMPORTABLE: &[&str] = &[
    "actor_open_field",
    "costing_get_tip_percentage",
    "costing_get_execution_cost_unit_limit",
    "kv_entry_close",
    "field_entry_close",
    "kv_entry_read",
    "actor_get_object_id",
    "sys_generate_ruid",
    "costing_get_finalization_cost_unit_limit",
];

struct G<'r> {
    rng: &'r mut Rng,
    fl: Flavour,
    funcs: Vec<FuncSig>,
    globals: Vec<Var>,
    const_globals: Vec<Var>,
    imports: Vec<&'static HostFn>,
    table_size: u32,
    label_n: u32,
    features: std::collections::BTreeSet<&'static str>,
    /// 0..=2: how often trap-prone constructs are emitted (Mixed / Separated control code)
    hostility: u32,
    /// a host import placed in the table (call_indirect to an imported function)
    import_slot: Option<(&'static HostFn, u32)>,
    /// Separated only: memory.grow amounts come from *data* (same path, different operand values);
    /// memory.size is then a data value
    dat_grow: bool,
}

struct Fx {
    vars: Vec<Var>,
    result: Option<(T, Taint)>,
    loop_depth: u32,
    /// labels of enclosing blocks/loops: (name, is_loop, may_exit_to)
    labels: Vec<(String, bool, bool)>,
    self_index: usize,
    is_top: bool,
    is_leaf: bool,
    counters: u32,
    budget: i32,
    in_main_loop: bool,
}

fn interesting_i32(rng: &mut Rng) -> i32 {
    match rng.below(12) {
        0 => 0,
        1 => 1,
        2 => -1,
        3 => i32::MIN,
        4 => i32::MAX,
        5 => 2,
        6 => 31,
        7 => 32,
        8 => 0xffff,
        9 => 65536,
        _ => rng.u32() as i32 >> rng.below(28),
    }
}
fn interesting_i64(rng: &mut Rng) -> i64 {
    match rng.below(12) {
        0 => 0,
        1 => 1,
        2 => -1,
        3 => i64::MIN,
        4 => i64::MAX,
        5 => 63,
        6 => 64,
        7 => 0xffff_ffff,
        8 => 0x1_0000_0000,
        9 => i32::MIN as i64,
        _ => rng.u64() as i64 >> rng.below(60),
    }
}

impl<'r> G<'r> {
    fn separated(&self) -> bool {
        self.fl != Flavour::Mixed
    }
    fn safe(&self) -> bool {
        self.fl == Flavour::Family
    }
    /// chance(num, den) scaled down for less hostile modules
    fn hostile(&mut self, num: u64, den: u64) -> bool {
        let scale = match self.hostility {
            0 => 10,
            1 => 3,
            _ => 1,
        };
        self.rng.chance(num, den * scale)
    }
    fn label(&mut self, p: &str) -> String {
        self.label_n += 1;
        format!("${p}{}", self.label_n)
    }
    fn feat(&mut self, f: &'static str) {
        self.features.insert(f);
    }

    fn readable(sep: bool, vars: &[Var], ty: T, taint: Taint) -> Vec<String> {
        vars.iter().filter(|v| v.ty == ty && (!sep || taint == Taint::Dat || v.taint == Taint::Ctl)).map(|v| v.name.clone()).collect()
    }

    fn konst(&mut self, ty: T) -> String {
        match ty {
            T::I32 => format!("(i32.const {})", interesting_i32(self.rng)),
            T::I64 => format!("(i64.const {})", interesting_i64(self.rng)),
        }
    }

    fn leaf_expr(&mut self, fx: &Fx, ty: T, taint: Taint) -> String {
        let sep = self.separated();
        let locals = Self::readable(sep, &fx.vars, ty, taint);
        let mut globals = Self::readable(sep, &self.globals, ty, taint);
        globals.extend(self.const_globals.iter().filter(|g| g.ty == ty).map(|g| g.name.clone()));
        match self.rng.below(10) {
            0..=4 if !locals.is_empty() => format!("(local.get {})", locals[self.rng.usize_below(locals.len())]),
            5 | 6 if !globals.is_empty() => format!("(global.get {})", globals[self.rng.usize_below(globals.len())]),
            7 if ty == T::I32 && !(self.separated() && fx.loop_depth > 0 && taint == Taint::Ctl) && !(self.dat_grow && taint == Taint::Ctl) => {
                self.feat("memory.size");
                "(memory.size)".into()
            }
            _ => self.konst(ty),
        }
    }

    /// address expression for an access of `width` bytes with static `offset`
    fn addr(&mut self, fx: &mut Fx, taint: Taint, d: u32, region_dat: bool) -> String {
        let safe = self.separated();
        let a = self.expr(fx, T::I32, taint, d);
        if safe {
            if region_dat {
                format!("(i32.or (i32.and {a} (i32.const {DAT_MASK})) (i32.const {DAT_BASE}))")
            } else {
                format!("(i32.and {a} (i32.const {CTL_MASK}))")
            }
        } else {
            if self.hostile(3, 8) {
                match self.rng.below(3) {
                    0 => a, // raw: mostly out of bounds
                    1 => format!("(i32.and {a} (i32.const 0x1fff8))"),
                    _ => format!("(i32.and {a} (i32.const 0xffff))"), // may straddle the end of page 0
                }
            } else {
                format!("(i32.and {a} (i32.const 0x7ff8))")
            }
        }
    }

    fn mem_suffix(&mut self, width: u32) -> String {
        let mut s = String::new();
        if self.rng.chance(1, 3) {
            let off = if !self.separated() && self.hostile(1, 6) { 65530 } else { self.rng.below(8) };
            s.push_str(&format!(" offset={off}"));
        }
        if self.rng.chance(1, 4) {
            let a = 1 << self.rng.below((width.trailing_zeros() + 1) as u64);
            s.push_str(&format!(" align={a}"));
        }
        s
    }

    fn divisor(&mut self, fx: &mut Fx, ty: T, taint: Taint, d: u32) -> String {
        let e = self.expr(fx, ty, taint, d);
        let must_be_safe = self.safe() || (self.separated() && taint == Taint::Dat);
        if must_be_safe {
            match ty {
                T::I32 => format!("(i32.or (i32.and {e} (i32.const 0x7fffffff)) (i32.const 1))"),
                T::I64 => format!("(i64.or (i64.and {e} (i64.const 0x7fffffffffffffff)) (i64.const 1))"),
            }
        } else {
            self.feat("trapping-division");
            if self.hostile(1, 3) {
                if self.rng.bool() {
                    format!("({}.const 0)", ty.s())
                } else {
                    format!("({}.const -1)", ty.s())
                }
            } else if self.hostility < 2 && self.rng.chance(2, 3) {
                // mostly non-zero
                format!("({t}.or {e} ({t}.const 1))", t = ty.s())
            } else {
                e
            }
        }
    }

    fn expr(&mut self, fx: &mut Fx, ty: T, taint: Taint, d: u32) -> String {
        fx.budget -= 1;
        if d == 0 || fx.budget < 0 || self.rng.chance(1, 4) {
            return self.leaf_expr(fx, ty, taint);
        }
        let t = ty.s();
        match self.rng.below(20) {
            0..=5 => {
                let op = *self.rng.pick(&["add", "sub", "mul", "and", "or", "xor", "shl", "shr_s", "shr_u", "rotl", "rotr"]);
                let a = self.expr(fx, ty, taint, d - 1);
                let b = self.expr(fx, ty, taint, d - 1);
                format!("({t}.{op} {a} {b})")
            }
            6 | 7 => {
                let op = *self.rng.pick(&["div_s", "div_u", "rem_s", "rem_u"]);
                let a = self.expr(fx, ty, taint, d - 1);
                let b = self.divisor(fx, ty, taint, d - 1);
                format!("({t}.{op} {a} {b})")
            }
            8 => {
                let op = *self.rng.pick(&["clz", "ctz", "popcnt"]);
                let a = self.expr(fx, ty, taint, d - 1);
                format!("({t}.{op} {a})")
            }
            9 => {
                // comparison (i32 result) or conversion
                match ty {
                    T::I32 => {
                        let ot = if self.rng.bool() { T::I32 } else { T::I64 };
                        match self.rng.below(4) {
                            0 => {
                                let a = self.expr(fx, ot, taint, d - 1);
                                format!("({}.eqz {a})", ot.s())
                            }
                            1 => {
                                let a = self.expr(fx, T::I64, taint, d - 1);
                                format!("(i32.wrap_i64 {a})")
                            }
                            _ => {
                                let op = *self.rng.pick(&["eq", "ne", "lt_s", "lt_u", "gt_s", "gt_u", "le_s", "le_u", "ge_s", "ge_u"]);
                                let a = self.expr(fx, ot, taint, d - 1);
                                let b = self.expr(fx, ot, taint, d - 1);
                                format!("({}.{op} {a} {b})", ot.s())
                            }
                        }
                    }
                    T::I64 => {
                        let op = *self.rng.pick(&["extend_i32_s", "extend_i32_u"]);
                        let a = self.expr(fx, T::I32, taint, d - 1);
                        format!("(i64.{op} {a})")
                    }
                }
            }
            10 => {
                self.feat("sign-extension-ops");
                let op = match ty {
                    T::I32 => *self.rng.pick(&["extend8_s", "extend16_s"]),
                    T::I64 => *self.rng.pick(&["extend8_s", "extend16_s", "extend32_s"]),
                };
                let a = self.expr(fx, ty, taint, d - 1);
                format!("({t}.{op} {a})")
            }
            11 | 12 => {
                // load
                self.feat("load");
                let (op, width) = match ty {
                    T::I32 => *self.rng.pick(&[("load", 4), ("load8_s", 1), ("load8_u", 1), ("load16_s", 2), ("load16_u", 2)]),
                    T::I64 => *self.rng.pick(&[("load", 8), ("load8_s", 1), ("load8_u", 1), ("load16_s", 2), ("load16_u", 2), ("load32_s", 4), ("load32_u", 4)]),
                };
                let region_dat = taint == Taint::Dat;
                let a = self.addr(fx, taint, d - 1, region_dat);
                let sfx = self.mem_suffix(width);
                format!("({t}.{op}{sfx} {a})")
            }
            13 => {
                self.feat("select");
                let a = self.expr(fx, ty, taint, d - 1);
                let b = self.expr(fx, ty, taint, d - 1);
                let c = self.expr(fx, T::I32, taint, d - 1);
                format!("(select {a} {b} {c})")
            }
            14 => {
                self.feat("if-with-result");
                let c = self.expr(fx, T::I32, Taint::Ctl, d - 1);
                let a = self.expr(fx, ty, taint, d - 1);
                let b = self.expr(fx, ty, taint, d - 1);
                format!("(if (result {t}) {c} (then {a}) (else {b}))")
            }
            15 => {
                self.feat("br_if-with-value");
                let l = self.label("v");
                let c = self.expr(fx, T::I32, Taint::Ctl, d - 1);
                let a = self.expr(fx, ty, taint, d - 1);
                let b = self.expr(fx, ty, taint, d - 1);
                format!("(block {l} (result {t}) (drop (br_if {l} {a} {c})) {b})")
            }
            16 | 17 => {
                // call a function with a matching result
                let cands: Vec<FuncSig> = self
                    .funcs
                    .iter()
                    .enumerate()
                    .filter(|(i, f)| {
                        *i > fx.self_index
                            && !fx.is_leaf
                            && (fx.loop_depth == 0 || f.leaf)
                            && matches!(f.result, Some((rt, rtaint)) if rt == ty && (!self.separated() || taint == Taint::Dat || rtaint == Taint::Ctl))
                    })
                    .map(|(_, f)| f.clone())
                    .collect();
                if cands.is_empty() {
                    return self.leaf_expr(fx, ty, taint);
                }
                let f = cands[self.rng.usize_below(cands.len())].clone();
                self.call_expr(fx, &f, d - 1)
            }
            18 => {
                // local.tee of a writable variable
                if let Some(v) = self.pick_writable(fx, ty, taint) {
                    self.feat("local.tee");
                    let a = self.expr(fx, ty, taint, d - 1);
                    format!("(local.tee {} {a})", v.name)
                } else {
                    self.leaf_expr(fx, ty, taint)
                }
            }
            _ => {
                // host import returning a value
                let cands: Vec<&'static HostFn> = self
                    .imports
                    .iter()
                    .copied()
                    .filter(|h| {
                        (h.result == 'I' && ty == T::I32) || (h.result == 'L' && ty == T::I64 && (!self.separated() || taint == Taint::Dat))
                    })
                    .collect();
                if cands.is_empty() {
                    return self.leaf_expr(fx, ty, taint);
                }
                self.feat("host-import-call");
                let h = cands[self.rng.usize_below(cands.len())];
                let via_table = matches!(self.import_slot, Some((ih, _)) if ih.name == h.name) && self.rng.bool();
                let mut s = if via_table { "(call_indirect (type $ti)".to_string() } else { format!("(call ${}", h.name) };
                // scalar-returning imports are pure functions of their arguments; buffer ids are not
                let at = if h.result == 'I' { taint } else { Taint::Dat };
                for _ in 0..h.n_slots() {
                    s.push(' ');
                    s.push_str(&self.expr(fx, T::I32, at, d - 1));
                }
                if via_table {
                    self.feat("call_indirect-to-host-import");
                    s.push_str(&format!(" (i32.const {})", self.import_slot.unwrap().1));
                }
                s.push(')');
                s
            }
        }
    }

    fn call_expr(&mut self, fx: &mut Fx, f: &FuncSig, d: u32) -> String {
        let mut args = String::new();
        for (pt, ptaint) in &f.params {
            args.push(' ');
            args.push_str(&self.expr(fx, *pt, *ptaint, d));
        }
        let indirect = f.table_slot.is_some() && self.rng.chance(1, 2);
        if indirect {
            self.feat("call_indirect");
            let slot = f.table_slot.unwrap();
            let idx = if self.separated() || !self.hostile(1, 4) {
                format!("(i32.const {slot})")
            } else {
                self.feat("call_indirect-wild-index");
                let e = self.expr(fx, T::I32, Taint::Ctl, 1);
                format!("(i32.rem_u {e} (i32.const {}))", self.table_size + 2)
            };
            format!("(call_indirect (type {}){args} {idx})", f.type_name)
        } else {
            self.feat("call");
            format!("(call {}{args})", f.name)
        }
    }

    fn pick_writable(&mut self, fx: &Fx, ty: T, taint: Taint) -> Option<Var> {
        let sep = self.separated();
        let cands: Vec<&Var> = fx
            .vars
            .iter()
            .filter(|v| {
                v.ty == ty
                    && if sep {
                        match taint {
                            Taint::Dat => v.taint == Taint::Dat,
                            Taint::Ctl => v.taint == Taint::Ctl && fx.loop_depth == 0,
                        }
                    } else {
                        true
                    }
            })
            .collect();
        if cands.is_empty() {
            None
        } else {
            Some(cands[self.rng.usize_below(cands.len())].clone())
        }
    }

    fn pick_writable_global(&mut self, fx: &Fx, ty: T, taint: Taint) -> Option<Var> {
        let sep = self.separated();
        let cands: Vec<&Var> = self
            .globals
            .iter()
            .filter(|v| {
                v.ty == ty
                    && if sep {
                        match taint {
                            Taint::Dat => v.taint == Taint::Dat,
                            Taint::Ctl => v.taint == Taint::Ctl && fx.loop_depth == 0 && fx.is_top,
                        }
                    } else {
                        true
                    }
            })
            .collect();
        if cands.is_empty() {
            None
        } else {
            Some(cands[self.rng.usize_below(cands.len())].clone())
        }
    }

    fn rand_ty(&mut self) -> T {
        if self.rng.bool() {
            T::I32
        } else {
            T::I64
        }
    }
    fn rand_taint(&mut self) -> Taint {
        if self.rng.chance(2, 5) {
            Taint::Ctl
        } else {
            Taint::Dat
        }
    }

    fn cond(&mut self, fx: &mut Fx) -> String {
        self.expr(fx, T::I32, Taint::Ctl, 2)
    }

    fn stmts(&mut self, fx: &mut Fx, n: u32, depth: u32) -> String {
        let mut s = String::new();
        for _ in 0..n {
            if fx.budget < 0 {
                break;
            }
            s.push_str(&self.stmt(fx, depth));
            s.push('\n');
        }
        s
    }

    fn stmt(&mut self, fx: &mut Fx, depth: u32) -> String {
        fx.budget -= 2;
        let k = if depth == 0 { self.rng.below(8) } else { self.rng.below(24) };
        match k {
            0..=2 => {
                let ty = self.rand_ty();
                let taint = self.rand_taint();
                match self.pick_writable(fx, ty, taint) {
                    Some(v) => {
                        let e = self.expr(fx, ty, taint, 3);
                        format!("(local.set {} {e})", v.name)
                    }
                    None => "(nop)".into(),
                }
            }
            3 => {
                let ty = self.rand_ty();
                let taint = self.rand_taint();
                match self.pick_writable_global(fx, ty, taint) {
                    Some(v) => {
                        self.feat("global.set");
                        let e = self.expr(fx, ty, taint, 3);
                        format!("(global.set {} {e})", v.name)
                    }
                    None => "(nop)".into(),
                }
            }
            4 | 5 => {
                // store
                let ty = self.rand_ty();
                let mut taint = self.rand_taint();
                if self.separated() && taint == Taint::Ctl && !(fx.is_top && fx.loop_depth == 0) {
                    taint = Taint::Dat;
                }
                self.feat("store");
                let (op, width) = match ty {
                    T::I32 => *self.rng.pick(&[("store", 4), ("store8", 1), ("store16", 2)]),
                    T::I64 => *self.rng.pick(&[("store", 8), ("store8", 1), ("store16", 2), ("store32", 4)]),
                };
                let a = self.addr(fx, taint, 2, taint == Taint::Dat);
                let v = self.expr(fx, ty, taint, 3);
                let sfx = self.mem_suffix(width);
                format!("({}.{op}{sfx} {a} {v})", ty.s())
            }
            6 => {
                let ty = self.rand_ty();
                let e = self.expr(fx, ty, Taint::Dat, 3);
                format!("(drop {e})")
            }
            7 => "(nop)".into(),
            8..=10 => {
                self.feat("if");
                let c = self.cond(fx);
                let a = { let n_ = 1 + self.rng.below(3) as u32; self.stmts(fx, n_, depth - 1) };
                if self.rng.bool() {
                    self.feat("if-else");
                    let b = { let n_ = 1 + self.rng.below(3) as u32; self.stmts(fx, n_, depth - 1) };
                    format!("(if {c} (then\n{a}) (else\n{b}))")
                } else {
                    format!("(if {c} (then\n{a}))")
                }
            }
            11 | 12 => {
                // block with exits
                self.feat("block");
                let l = self.label("b");
                fx.labels.push((l.clone(), false, true));
                let a = { let n_ = 1 + self.rng.below(2) as u32; self.stmts(fx, n_, depth - 1) };
                let c = self.cond(fx);
                let b = { let n_ = 1 + self.rng.below(2) as u32; self.stmts(fx, n_, depth - 1) };
                let tail = if self.rng.chance(1, 4) {
                    self.feat("dead-code-after-br");
                    let dead = self.stmts(fx, 1, 0);
                    format!("(br {l})\n{dead}")
                } else {
                    String::new()
                };
                fx.labels.pop();
                format!("(block {l}\n{a}(br_if {l} {c})\n{b}{tail})")
            }
            13 | 14 => self.loop_stmt(fx, depth, None),
            15 => self.br_table_stmt(fx, depth),
            16 => {
                // branch to an enclosing label
                let cands: Vec<String> = fx.labels.iter().filter(|(_, _, ok)| *ok).map(|(l, _, _)| l.clone()).collect();
                if cands.is_empty() {
                    return "(nop)".into();
                }
                self.feat("br-to-outer");
                let l = cands[self.rng.usize_below(cands.len())].clone();
                let c = self.cond(fx);
                format!("(br_if {l} {c})")
            }
            17 | 18 => {
                // call as a statement
                if fx.is_leaf {
                    return "(nop)".into();
                }
                let cands: Vec<FuncSig> =
                    self.funcs.iter().enumerate().filter(|(i, f)| *i > fx.self_index && (fx.loop_depth == 0 || f.leaf)).map(|(_, f)| f.clone()).collect();
                if cands.is_empty() {
                    return "(nop)".into();
                }
                let f = cands[self.rng.usize_below(cands.len())].clone();
                let call = self.call_expr(fx, &f, 2);
                match f.result {
                    None => call,
                    Some((rt, rtaint)) => {
                        let taint = if self.separated() { rtaint } else { Taint::Dat };
                        match self.pick_writable(fx, rt, taint) {
                            Some(v) if self.rng.bool() => format!("(local.set {} {call})", v.name),
                            _ => format!("(drop {call})"),
                        }
                    }
                }
            }
            19 => {
                // memory.grow
                if self.separated() && !(fx.is_top && fx.loop_depth == 0) {
                    return "(nop)".into();
                }
                if self.dat_grow {
                    self.feat("memory.grow-by-data-amount");
                    let e = self.expr(fx, T::I32, Taint::Dat, 2);
                    let amt = format!("(i32.and {e} (i32.const 1))");
                    return match self.pick_writable(fx, T::I32, Taint::Dat) {
                        Some(v) if self.rng.bool() => format!("(local.set {} (memory.grow {amt}))", v.name),
                        _ => format!("(drop (memory.grow {amt}))"),
                    };
                }
                self.feat("memory.grow");
                let amt = match self.rng.below(4) {
                    0 => "(i32.const 1)".to_string(),
                    1 => "(i32.const 0)".to_string(),
                    2 => "(i32.const 70000)".to_string(),
                    _ => {
                        let e = self.expr(fx, T::I32, Taint::Ctl, 1);
                        format!("(i32.and {e} (i32.const 3))")
                    }
                };
                match self.pick_writable(fx, T::I32, Taint::Ctl) {
                    Some(v) if self.rng.bool() => format!("(local.set {} (memory.grow {amt}))", v.name),
                    _ => format!("(drop (memory.grow {amt}))"),
                }
            }
            20 => {
                if self.safe() || fx.in_main_loop || !self.hostile(1, 1) {
                    return "(nop)".into();
                }
                self.feat("unreachable");
                let c = self.cond(fx);
                format!("(if {c} (then (unreachable)))")
            }
            21 => {
                // early return
                if fx.in_main_loop {
                    return "(nop)".into();
                }
                self.feat("early-return");
                let c = self.cond(fx);
                match fx.result {
                    Some((rt, rtaint)) => {
                        let e = self.expr(fx, rt, rtaint, 2);
                        format!("(if {c} (then (return {e})))")
                    }
                    None => format!("(if {c} (then (return)))"),
                }
            }
            22 => {
                // void host import
                let cands: Vec<&'static HostFn> = self.imports.iter().copied().filter(|h| h.result == 'V').collect();
                if cands.is_empty() {
                    return "(nop)".into();
                }
                self.feat("host-import-call");
                let h = cands[self.rng.usize_below(cands.len())];
                let mut s = format!("(call ${}", h.name);
                for _ in 0..h.n_slots() {
                    s.push(' ');
                    s.push_str(&self.expr(fx, T::I32, Taint::Dat, 2));
                }
                s.push(')');
                s
            }
            _ => {
                self.feat("nested-block-with-result");
                let ty = self.rand_ty();
                let e = self.expr(fx, ty, Taint::Dat, 3);
                format!("(drop (block (result {}) {e}))", ty.s())
            }
        }
    }

    /// bounded loop: the counter is decremented at the loop head so `continue` terminates too
    fn loop_stmt(&mut self, fx: &mut Fx, depth: u32, main_count: Option<String>) -> String {
        if fx.loop_depth >= 2 && main_count.is_none() {
            return "(nop)".into();
        }
        self.feat("loop");
        let k = format!("$k{}", fx.counters);
        fx.counters += 1;
        let brk = self.label("brk");
        let cont = self.label("cont");
        let is_main = main_count.is_some();
        let count = match main_count {
            Some(c) => c,
            None => {
                if self.rng.bool() {
                    format!("(i32.const {})", self.rng.below(6))
                } else {
                    let e = self.expr(fx, T::I32, Taint::Ctl, 1);
                    format!("(i32.and {e} (i32.const 7))")
                }
            }
        };
        let was_main = fx.in_main_loop;
        if is_main {
            fx.in_main_loop = true;
        }
        // in the Family main loop nothing may leave the loop early
        fx.labels.push((brk.clone(), false, !is_main));
        fx.labels.push((cont.clone(), true, true));
        fx.loop_depth += 1;
        let body = { let n_ = 1 + self.rng.below(4) as u32; self.stmts(fx, n_, depth.saturating_sub(1)) };
        fx.loop_depth -= 1;
        fx.labels.pop();
        fx.labels.pop();
        // labels of outer blocks must not be branch targets from inside the main loop: they were
        // pushed before; handled by `in_main_loop` filter in callers (see br-to-outer below)
        fx.in_main_loop = was_main;
        format!(
            "(local.set {k} {count})\n(block {brk}\n(loop {cont}\n(br_if {brk} (i32.eqz (local.get {k})))\n(local.set {k} (i32.sub (local.get {k}) (i32.const 1)))\n{body}(br {cont})))"
        )
    }

    fn br_table_stmt(&mut self, fx: &mut Fx, depth: u32) -> String {
        self.feat("br_table");
        let n = 1 + self.rng.below(4) as usize;
        let done = self.label("sw");
        let arms: Vec<String> = (0..n).map(|_| self.label("arm")).collect();
        fx.labels.push((done.clone(), false, true));
        let idx = self.expr(fx, T::I32, Taint::Ctl, 2);
        let idx = if self.rng.bool() { format!("(i32.rem_u {idx} (i32.const {}))", n + 2) } else { idx };
        // possible extra targets: enclosing labels (loops = backward jumps)
        let mut targets: Vec<String> = arms.clone();
        let outer: Vec<String> = fx.labels.iter().filter(|(_, _, ok)| *ok).map(|(l, _, _)| l.clone()).collect();
        if !outer.is_empty() && self.rng.chance(1, 2) {
            self.feat("br_table-to-outer-or-loop");
            targets.push(outer[self.rng.usize_below(outer.len())].clone());
        }
        self.rng.shuffle(&mut targets);
        let default = if self.rng.bool() { done.clone() } else { targets[0].clone() };
        let mut s = String::new();
        // innermost: the dispatch
        let mut inner = format!("(br_table {} {default} {idx})", targets.join(" "));
        for arm in arms.iter() {
            let body = { let n_ = 1 + self.rng.below(2) as u32; self.stmts(fx, n_, depth.saturating_sub(1)) };
            let exit = if self.rng.chance(2, 3) { format!("(br {done})\n") } else { String::new() }; // else fall through
            inner = format!("(block {arm}\n{inner})\n{body}{exit}");
        }
        fx.labels.pop();
        s.push_str(&format!("(block {done}\n{inner})"));
        s
    }

    fn func_body(&mut self, idx: usize, is_top: bool) -> String {
        let f = self.funcs[idx].clone();
        let mut vars: Vec<Var> = vec![];
        let mut header = format!("(func {} (type {})", f.name, f.type_name);
        for (i, (pt, ptaint)) in f.params.iter().enumerate() {
            header.push_str(&format!(" (param $p{i} {})", pt.s()));
            // in Family the top function's p0 is the iteration count: not readable
            if !(is_top && self.fl == Flavour::Family && i == 0) {
                vars.push(Var { name: format!("$p{i}"), ty: *pt, taint: *ptaint });
            }
        }
        if let Some((rt, _)) = f.result {
            header.push_str(&format!(" (result {})", rt.s()));
        }
        let nloc = 2 + self.rng.below(5) as usize;
        let mut locals = String::new();
        for i in 0..nloc {
            let ty = self.rand_ty();
            let taint = if self.separated() { self.rand_taint() } else { Taint::Ctl };
            let name = format!("$l{i}");
            locals.push_str(&format!(" (local {name} {})", ty.s()));
            vars.push(Var { name, ty, taint });
        }
        let mut fx = Fx {
            vars,
            result: f.result,
            loop_depth: 0,
            labels: vec![],
            self_index: idx,
            is_top,
            is_leaf: f.leaf,
            counters: 0,
            budget: if f.leaf { 60 } else { 160 },
            in_main_loop: false,
        };
        let depth = if f.leaf { 2 } else { 3 };
        let mut body = String::new();
        if is_top && self.fl == Flavour::Family {
            body.push_str(&{ let n_ = 1 + self.rng.below(3) as u32; self.stmts(&mut fx, n_, 2) });
            let main = self.loop_stmt(&mut fx, 3, Some("(i32.and (i32.wrap_i64 (local.get $p0)) (i32.const 63))".into()));
            body.push_str(&main);
            body.push('\n');
            fx.budget += 40;
            body.push_str(&{ let n_ = 1 + self.rng.below(2) as u32; self.stmts(&mut fx, n_, 2) });
        } else {
            let n = 2 + self.rng.below(5) as u32;
            body.push_str(&self.stmts(&mut fx, n, depth));
        }
        if let Some((rt, rtaint)) = f.result {
            fx.budget += 10;
            body.push_str(&self.expr(&mut fx, rt, rtaint, 3));
            body.push('\n');
        }
        for i in 0..fx.counters {
            locals.push_str(&format!(" (local $k{i} i32)"));
        }
        format!("{header}{locals}\n{body})\n")
    }
}

pub fn generate(rng: &mut Rng, fl: Flavour) -> Program {
    let hostility = rng.below(3) as u32;
    let mut g = G { rng, fl, funcs: vec![], globals: vec![], const_globals: vec![], imports: vec![], table_size: 0, label_n: 0, features: Default::default(), hostility, import_slot: None, dat_grow: false };
    g.dat_grow = fl == Flavour::Separated && g.rng.bool();
    let sep = g.separated();
    // ---- imports
    if g.rng.chance(2, 3) {
        let n = 1 + g.rng.below(4) as usize;
        let mut names: Vec<&str> = IMPORTABLE.to_vec();
        g.rng.shuffle(&mut names);
        for nm in names.into_iter().take(n) {
            g.imports.push(host_fn(nm).unwrap());
        }
    }
    // ---- globals
    let ng = g.rng.below(5) as usize;
    let mut globals_wat = String::new();
    for i in 0..ng {
        let ty = g.rand_ty();
        let taint = if sep { g.rand_taint() } else { Taint::Ctl };
        let name = format!("$g{i}");
        let init = g.konst(ty);
        globals_wat.push_str(&format!("(global {name} (mut {}) {init})\n", ty.s()));
        g.globals.push(Var { name, ty, taint });
    }
    if g.rng.bool() {
        let ty = g.rand_ty();
        let init = g.konst(ty);
        globals_wat.push_str(&format!("(global $gk {} {init})\n", ty.s()));
        g.const_globals.push(Var { name: "$gk".into(), ty, taint: Taint::Ctl });
    }
    // ---- function signatures: tops first, then helpers, leaves last
    let n_exports = 1 + g.rng.below(2) as usize;
    let n_mid = g.rng.below(3) as usize;
    let n_leaf = 1 + g.rng.below(3) as usize;
    let mut types: Vec<(Vec<T>, Option<T>)> = vec![];
    let mut type_of = |params: &[(T, Taint)], result: &Option<(T, Taint)>| -> String {
        let key = (params.iter().map(|p| p.0).collect::<Vec<_>>(), result.map(|r| r.0));
        let pos = types.iter().position(|t| *t == key).unwrap_or_else(|| {
            types.push(key.clone());
            types.len() - 1
        });
        format!("$t{pos}")
    };
    let mut export_list = vec![];
    for e in 0..n_exports {
        let params: Vec<(T, Taint)> = match fl {
            Flavour::Mixed => (0..g.rng.below(4)).map(|_| (T::I64, Taint::Ctl)).collect(),
            Flavour::Separated => vec![(T::I64, Taint::Ctl), (T::I64, Taint::Dat)],
            Flavour::Family => vec![(T::I64, Taint::Ctl), (T::I64, Taint::Ctl), (T::I64, Taint::Dat)],
        };
        let result = Some((T::I64, Taint::Dat));
        let type_name = type_of(&params, &result);
        export_list.push((format!("e{e}"), params.len()));
        g.funcs.push(FuncSig { name: format!("$top{e}"), params, result, leaf: false, type_name, table_slot: None });
    }
    for i in 0..n_mid + n_leaf {
        let leaf = i >= n_mid;
        let np = g.rng.below(4) as usize;
        let params: Vec<(T, Taint)> = (0..np)
            .map(|_| {
                let t = g.rand_ty();
                let ta = if sep { g.rand_taint() } else { Taint::Ctl };
                (t, ta)
            })
            .collect();
        let result = if g.rng.chance(4, 5) {
            let t = g.rand_ty();
            let ta = if sep { g.rand_taint() } else { Taint::Ctl };
            Some((t, ta))
        } else {
            None
        };
        let type_name = type_of(&params, &result);
        g.funcs.push(FuncSig { name: format!("$f{i}"), params, result, leaf, type_name, table_slot: None });
    }
    // ---- table: only leaves (no recursion through call_indirect)
    let mut table_wat = String::new();
    if g.rng.chance(3, 4) {
        let leaves: Vec<usize> = (0..g.funcs.len()).filter(|i| g.funcs[*i].leaf).collect();
        let mut size = leaves.len() as u32 + 1 + g.rng.below(3) as u32;
        let imp = g.imports.iter().copied().find(|h| h.result == 'I');
        if imp.is_some() {
            size += 1;
        }
        g.table_size = size;
        let size = if imp.is_some() { size - 1 } else { size };
        let start = 1 + g.rng.below((size - leaves.len() as u32) as u64) as u32; // slot 0 and the tail stay null
        let start = start.min(size - leaves.len() as u32);
        let mut names = vec![];
        for (j, li) in leaves.iter().enumerate() {
            g.funcs[*li].table_slot = Some(start + j as u32);
            names.push(g.funcs[*li].name.clone());
        }
        let max = if g.rng.bool() { format!(" {}", size + 3) } else { String::new() };
        let total = g.table_size;
        let max = if max.is_empty() { max } else { format!(" {}", total + 3) };
        table_wat = format!("(table $T {total}{max} funcref)\n(elem (i32.const {start}) {})\n", names.join(" "));
        if let Some(h) = imp {
            g.import_slot = Some((h, total - 1));
            table_wat.push_str(&format!("(type $ti (func {}))\n(elem (i32.const {}) ${})\n", h.wat_sig(), total - 1, h.name));
        }
    }
    // ---- bodies
    let mut funcs_wat = String::new();
    for i in 0..g.funcs.len() {
        let is_top = i < n_exports;
        funcs_wat.push_str(&g.func_body(i, is_top));
    }
    // ---- export wrappers: call the top function, dump result + globals, return slice(0, memory size)
    let mut wrappers = String::new();
    for (e, (name, np)) in export_list.iter().enumerate() {
        let mut w = format!("(func (export \"{name}\")");
        for _ in 0..*np {
            w.push_str(" (param i64)");
        }
        w.push_str(" (result i64)\n");
        w.push_str(&format!("(i64.store (i32.const {DIGEST_BASE}) (call $top{e}"));
        for j in 0..*np {
            w.push_str(&format!(" (local.get {j})"));
        }
        w.push_str("))\n");
        for (j, gv) in g.globals.iter().enumerate() {
            let addr = DIGEST_BASE + 8 + 8 * j as u32;
            match gv.ty {
                T::I32 => w.push_str(&format!("(i32.store (i32.const {addr}) (global.get {}))\n", gv.name)),
                T::I64 => w.push_str(&format!("(i64.store (i32.const {addr}) (global.get {}))\n", gv.name)),
            }
        }
        w.push_str("(i64.extend_i32_u (i32.shl (memory.size) (i32.const 16))))\n");
        wrappers.push_str(&w);
    }
    // ---- assemble
    let mut wat = String::from("(module\n");
    for (i, (ps, r)) in types.iter().enumerate() {
        wat.push_str(&format!("(type $t{i} (func"));
        if !ps.is_empty() {
            wat.push_str(" (param");
            for p in ps {
                wat.push(' ');
                wat.push_str(p.s());
            }
            wat.push(')');
        }
        if let Some(r) = r {
            wat.push_str(&format!(" (result {})", r.s()));
        }
        wat.push_str("))\n");
    }
    for h in &g.imports {
        wat.push_str(&h.wat_import());
        wat.push('\n');
    }
    let max_pages = 1 + g.rng.below(3);
    wat.push_str(&format!("(memory $m 1 {max_pages})\n(export \"memory\" (memory $m))\n"));
    // some initial data in all three regions
    let seed_bytes: String = g.rng.bytes(24).iter().map(|b| format!("\\{b:02x}")).collect();
    wat.push_str(&format!("(data (i32.const 16) \"{seed_bytes}\")\n(data (i32.const {}) \"{seed_bytes}\")\n", DAT_BASE + 64));
    wat.push_str(&globals_wat);
    wat.push_str(&table_wat);
    wat.push_str(&funcs_wat);
    wat.push_str(&wrappers);
    wat.push_str(")\n");
    Program { wat, flavour: fl, exports: export_list, imports: g.imports.clone(), features: g.features.iter().copied().collect() }
}
