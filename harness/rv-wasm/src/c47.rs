//! C47: whatever (ptr, len) a WASM program hands to a host function (or returns from an export),
//! the wasmi glue either reads / writes exactly that range of the program's memory or fails the
//! call with an error; it never panics.
//!
//! Oracle: a byte-for-byte *model* of the instance's linear memory (known pattern from a data
//! segment, zero pages appended by successful `memory.grow`, ranges replaced by successful
//! `buffer_consume`). A monitoring `WasmRuntime` records the byte vectors each host function was
//! given. In range  => the recorded vectors equal model[ptr..ptr+len] and memory is unchanged
//! (writes: exactly [ptr, ptr+n) replaced). Out of range => the call failed with an error, the
//! runtime never saw the host call, and (checked by a follow-up dump) memory is unchanged.
use crate::hostfns::{HostFn, HOST_FNS};
use crate::rt::{err_class, HostCall, MonRuntime, MonState, Shared};
use radix_engine::vm::wasm::{ScryptoV1WasmValidator, WasmInstance, WasmiInstance, WasmiModule};
use radix_engine::vm::ScryptoVmVersion;
use radix_engine_interface::types::Buffer;
use rv_common::*;
use serde_json::{json, Value};
use std::cell::RefCell;
use std::rc::Rc;
use std::time::Duration;

pub const PAGE: usize = 65536;
pub const INIT_PAGES: usize = 1;
pub const MAX_PAGES: usize = 4;

pub fn pattern(i: usize) -> u8 {
    ((i.wrapping_mul(167)).wrapping_add((i >> 8).wrapping_mul(13)).wrapping_add(89) & 0xff) as u8
}

pub fn build_wat() -> String {
    let mut s = String::with_capacity(300_000);
    s.push_str("(module\n");
    for h in HOST_FNS {
        s.push_str(&h.wat_import());
        s.push('\n');
    }
    s.push_str(&format!("(memory $m {INIT_PAGES} {MAX_PAGES})\n(export \"memory\" (memory $m))\n"));
    s.push_str("(data (i32.const 0) \"");
    for i in 0..INIT_PAGES * PAGE {
        s.push_str(&format!("\\{:02x}", pattern(i)));
    }
    s.push_str("\")\n");
    let hi = |j: usize| format!("(i32.wrap_i64 (i64.shr_u (local.get {j}) (i64.const 32)))");
    let lo = |j: usize| format!("(i32.wrap_i64 (local.get {j}))");
    for h in HOST_FNS {
        s.push_str(&format!("(func (export \"t_{}\") (param i64 i64 i64 i64 i64 i64) (result i64)\n", h.name));
        // grow before the host call: bits 32..40 of param 4
        s.push_str("  (drop (memory.grow (i32.and (i32.wrap_i64 (i64.shr_u (local.get 4) (i64.const 32))) (i32.const 255))))\n");
        if h.name == "buffer_consume" {
            s.push_str(&format!("  {} {}\n", hi(0), lo(0)));
        } else {
            let mut b = 0;
            for c in h.params.chars() {
                if c == 'B' {
                    s.push_str(&format!("  {} {}\n", hi(b), lo(b)));
                    b += 1;
                } else {
                    s.push_str(&format!("  {}\n", lo(4)));
                }
            }
        }
        s.push_str(&format!("  (call ${})\n", h.name));
        if h.result != 'V' {
            s.push_str("  (drop)\n");
        }
        // grow after the host call: bits 40..48 of param 4
        s.push_str("  (drop (memory.grow (i32.and (i32.wrap_i64 (i64.shr_u (local.get 4) (i64.const 40))) (i32.const 255))))\n");
        s.push_str("  (local.get 5))\n");
    }
    s.push_str("(func (export \"dump\") (param i64 i64 i64 i64 i64 i64) (result i64) (local.get 0))\n");
    s.push_str(")\n");
    s
}

pub fn build_instrumented() -> Vec<u8> {
    let code = wat::parse_str(build_wat()).expect("C47 module WAT");
    let (instrumented, _exports) = ScryptoV1WasmValidator::new(ScryptoVmVersion::latest())
        .validate(&code, std::iter::empty())
        .expect("C47 module must validate");
    instrumented
}

#[derive(Clone, Debug)]
pub struct Case {
    pub func: usize,          // index into HOST_FNS
    pub args: Vec<(u32, u32)>, // (ptr,len) per buffer argument; buffer_consume: (id, dest)
    pub scalar: u32,
    pub grow_before: u8,
    pub grow_after: u8,
    pub ret: (u32, u32),
    pub consume_len: usize, // buffer_consume: length of the provisioned buffer
    pub consume_seed: u64,
}

impl Case {
    pub fn to_json(&self, pages_before: usize) -> Value {
        json!({
            "fn": HOST_FNS[self.func].name, "args": self.args, "scalar": self.scalar,
            "grow_before": self.grow_before, "grow_after": self.grow_after, "ret": [self.ret.0, self.ret.1],
            "consume_len": self.consume_len, "consume_seed": self.consume_seed.to_string(), "pages_before": pages_before,
        })
    }
    pub fn from_json(d: &Value) -> Option<(Case, usize)> {
        let name = d["fn"].as_str()?;
        let func = HOST_FNS.iter().position(|h| h.name == name)?;
        let args = d["args"].as_array()?.iter().map(|a| (a[0].as_u64().unwrap_or(0) as u32, a[1].as_u64().unwrap_or(0) as u32)).collect();
        Some((
            Case {
                func,
                args,
                scalar: d["scalar"].as_u64()? as u32,
                grow_before: d["grow_before"].as_u64()? as u8,
                grow_after: d["grow_after"].as_u64()? as u8,
                ret: (d["ret"][0].as_u64()? as u32, d["ret"][1].as_u64()? as u32),
                consume_len: d["consume_len"].as_u64()? as usize,
                consume_seed: d["consume_seed"].as_str()?.parse().ok()?,
            },
            d["pages_before"].as_u64()? as usize,
        ))
    }
}

fn class_of(v: u32, sz: usize) -> &'static str {
    let v = v as usize;
    if v == 0 {
        "0"
    } else if v == 1 {
        "1"
    } else if v + 1 == sz {
        "sz-1"
    } else if v == sz {
        "sz"
    } else if v == sz + 1 {
        "sz+1"
    } else if v == 1 << 31 {
        "2^31"
    } else if v == u32::MAX as usize {
        "2^32-1"
    } else if v < sz {
        "in"
    } else {
        "out"
    }
}

fn hostile(rng: &mut Rng, sz: usize) -> u32 {
    match rng.below(12) {
        0 => 0,
        1 => 1,
        2 => (sz - 1) as u32,
        3 => sz as u32,
        4 => (sz + 1) as u32,
        5 => 1 << 31,
        6 => u32::MAX,
        7 => rng.below(64) as u32,
        8 | 9 => rng.below(sz as u64) as u32,
        10 => (sz as u64 - 1 - rng.below(64)) as u32,
        _ => rng.u32(),
    }
}

/// (ptr,len) for one buffer argument against a memory of `sz` bytes.
fn gen_range(rng: &mut Rng, sz: usize, want_valid: bool) -> (u32, u32) {
    if want_valid {
        match rng.below(8) {
            0 => (0, sz as u32),                       // whole memory
            1 => (sz as u32, 0),                       // empty at the very end
            2 => ((sz - 1) as u32, 1),                 // last byte
            3 => {
                let p = rng.below(sz as u64) as u32;   // exact fit to the end
                (p, sz as u32 - p)
            }
            4 => (0, 0),
            _ => {
                let p = rng.below(sz as u64) as u32;
                let room = sz as u64 - p as u64;
                (p, rng.below(room.min(300) + 1) as u32)
            }
        }
    } else {
        match rng.below(8) {
            0 => {
                let p = rng.below(sz as u64 + 1) as u32; // one byte over the end
                (p, sz as u32 - p + 1)
            }
            1 => ((sz + 1) as u32, 0), // empty range just beyond the end
            2 => (hostile(rng, sz), u32::MAX),
            3 => (u32::MAX, hostile(rng, sz)),
            _ => (hostile(rng, sz), hostile(rng, sz)),
        }
    }
}

pub fn gen_case(rng: &mut Rng, pages: usize) -> Case {
    let func = if rng.chance(1, 5) { HOST_FNS.len() - 1 } else { rng.usize_below(HOST_FNS.len()) };
    let h = &HOST_FNS[func];
    let grow_before: u8 = match rng.below(12) {
        0 => 1,
        1 => 2,
        2 => 3,
        3 => 255,
        _ => 0,
    };
    let grow_after: u8 = match rng.below(12) {
        0 => 1,
        1 => 255,
        _ => 0,
    };
    let pages_mid = if pages + grow_before as usize <= MAX_PAGES { pages + grow_before as usize } else { pages };
    let sz = pages_mid * PAGE;
    let all_valid = rng.chance(1, 2);
    let mut args = vec![];
    let mut consume_len = 0;
    if h.name == "buffer_consume" {
        let id = rng.u32();
        let want_valid = all_valid;
        let n = match rng.below(8) {
            0 => 0,
            1 => 1,
            2 => sz,
            3 => sz + 1,
            4 => sz - 1,
            5 => rng.usize_below(sz),
            _ => rng.usize_below(400),
        };
        let dest = if want_valid && n <= sz {
            match rng.below(4) {
                0 => (sz - n) as u32,
                1 => 0,
                _ => rng.below((sz - n) as u64 + 1) as u32,
            }
        } else {
            match rng.below(4) {
                0 if n <= sz => (sz - n + 1) as u32,
                _ => hostile(rng, sz),
            }
        };
        consume_len = n;
        args.push((id, dest));
    } else {
        let nb = h.n_bufs();
        let bad = if all_valid || nb == 0 { usize::MAX } else { rng.usize_below(nb) };
        for j in 0..nb {
            let want_valid = all_valid || (j != bad && rng.chance(3, 4));
            args.push(gen_range(rng, sz, want_valid));
        }
    }
    let pages_end = if pages_mid + grow_after as usize <= MAX_PAGES { pages_mid + grow_after as usize } else { pages_mid };
    let szr = pages_end * PAGE;
    let ret = match rng.below(10) {
        0 | 1 | 2 => (0, szr as u32),
        3 => gen_range(rng, szr, false),
        _ => gen_range(rng, szr, true),
    };
    let scalar = if h.name == "actor_emit_event" { rng.below(2) as u32 } else { rng.u32() };
    Case { func, args, scalar, grow_before, grow_after, ret, consume_len, consume_seed: rng.u64() }
}

pub struct Harness {
    /// failed host calls on the current instance (each leaves the injected stack-height counter
    /// raised by the export's frame cost, so the instance is replaced well before 1024 is reached)
    pub failures: u32,
    pub module: WasmiModule,
    pub inst: Option<WasmiInstance>,
    pub model: Vec<u8>,
    pub state: Shared,
}

fn in_range(ptr: u32, len: usize, sz: usize) -> bool {
    (ptr as usize) <= sz && ptr as usize + len <= sz
}

impl Harness {
    pub fn new(code: &[u8]) -> Self {
        let module = WasmiModule::new(code).expect("compile instrumented C47 module");
        Harness { failures: 0, module, inst: None, model: vec![], state: Rc::new(RefCell::new(MonState::default())) }
    }
    pub fn fresh(&mut self) {
        self.inst = Some(self.module.instantiate().expect("instantiate"));
        self.failures = 0;
        self.model = (0..INIT_PAGES * PAGE).map(pattern).collect();
    }
    pub fn pages(&self) -> usize {
        self.model.len() / PAGE
    }
    fn model_grow(&mut self, g: u8) {
        let p = self.pages();
        if p + g as usize <= MAX_PAGES {
            self.model.resize((p + g as usize) * PAGE, 0);
        }
    }
    fn invoke(&mut self, export: &str, a: [u64; 6]) -> Result<Result<Vec<u8>, String>, PanicInfo> {
        let inst = self.inst.as_mut().unwrap();
        let mut rt = MonRuntime::boxed(&self.state);
        let args: Vec<Buffer> = a.iter().map(|v| Buffer(*v)).collect();
        catch_mut(|| inst.invoke_export(export, args, &mut rt).map_err(|e| err_class(&e)))
    }
    /// dump the whole memory through a return slice and compare with the model
    fn check_dump(&mut self, shard: &mut Shard, ctx: &Value) -> bool {
        let sz = self.model.len();
        let r = self.invoke("dump", [(sz as u64), 0, 0, 0, 0, 0]);
        shard.count("dump_checks");
        match r {
            Ok(Ok(bytes)) => {
                if bytes != self.model {
                    let first = bytes.iter().zip(self.model.iter()).position(|(a, b)| a != b);
                    shard.violation("memory-differs-from-model", json!({"case": ctx, "first_diff": first, "got_len": bytes.len(), "model_len": sz}));
                    return false;
                }
                true
            }
            Ok(Err(e)) => {
                shard.violation("whole-memory-slice-rejected", json!({"case": ctx, "error": e, "model_len": sz}));
                false
            }
            Err(p) => {
                shard.violation(format!("panic:{}", p.site()), json!({"case": ctx, "panic": p.summary(), "during": "dump"}));
                false
            }
        }
    }

    /// Runs one case on the current instance, checks it against the model.
    pub fn run_case(&mut self, c: &Case, shard: &mut Shard) {
        if self.inst.is_none() {
            self.fresh();
        }
        let h: &HostFn = &HOST_FNS[c.func];
        let pages_before = self.pages();
        let ctx = c.to_json(pages_before);
        shard.eval();
        // ---- expectations from the model
        self.model_grow(c.grow_before);
        let sz = self.model.len();
        let is_consume = h.name == "buffer_consume";
        let mut expect_ok = true;
        let mut expected_bufs: Vec<Vec<u8>> = vec![];
        let mut consume_data = vec![];
        if is_consume {
            let (id, dest) = c.args[0];
            let mut r = Rng::new(c.consume_seed);
            consume_data = r.bytes(c.consume_len);
            self.state.borrow_mut().buffers.insert(id, consume_data.clone());
            expect_ok = in_range(dest, c.consume_len, sz);
        } else {
            for (p, l) in &c.args {
                if in_range(*p, *l as usize, sz) {
                    expected_bufs.push(self.model[*p as usize..*p as usize + *l as usize].to_vec());
                } else {
                    expect_ok = false;
                }
            }
        }
        self.state.borrow_mut().calls.clear();
        let mut a = [0u64; 6];
        for (j, (p, l)) in c.args.iter().enumerate() {
            a[j] = ((*p as u64) << 32) | *l as u64;
        }
        a[4] = c.scalar as u64 | ((c.grow_before as u64) << 32) | ((c.grow_after as u64) << 40);
        a[5] = ((c.ret.0 as u64) << 32) | c.ret.1 as u64;
        let res = self.invoke(&format!("t_{}", h.name), a);
        let calls: Vec<HostCall> = std::mem::take(&mut self.state.borrow_mut().calls);
        self.state.borrow_mut().buffers.clear();
        let host_calls: Vec<&HostCall> = calls.iter().filter(|k| k.name == h.name).collect();

        // coverage signature
        let mut sig = String::from(h.name);
        for (p, l) in &c.args {
            sig.push_str(&format!("|{}:{}:{}", class_of(*p, sz), class_of(*l, sz), in_range(*p, if is_consume { c.consume_len } else { *l as usize }, sz)));
        }
        sig.push_str(&format!("|g{}{}", c.grow_before.min(4), c.grow_after.min(2)));
        shard.seen("host_fn", h.name);

        let res = match res {
            Err(p) => {
                shard.violation(format!("panic:{}", p.site()), json!({"case": ctx, "panic": p.summary()}));
                self.inst = None;
                return;
            }
            Ok(r) => r,
        };
        if !expect_ok {
            shard.count("expect:out_of_range");
            shard.count(&format!("oob:{}", if is_consume { "write" } else { "read" }));
            match &res {
                Ok(_) => {
                    shard.violation(
                        if is_consume { "out-of-range-write-accepted" } else { "out-of-range-read-accepted" },
                        json!({"case": ctx, "mem_size": sz, "host_saw": host_calls.iter().map(|k| k.bufs.iter().map(|b| b.len()).collect::<Vec<_>>()).collect::<Vec<_>>()}),
                    );
                }
                Err(e) => {
                    shard.seen("oob_error_class", e);
                    if e != "MemoryAccessError" {
                        shard.violation("out-of-range-wrong-error-class", json!({"case": ctx, "error": e}));
                    }
                }
            }
            if !is_consume && !host_calls.is_empty() {
                shard.violation("host-invoked-despite-out-of-range-argument", json!({"case": ctx, "mem_size": sz}));
            }
            // memory must be untouched (grow_before did take effect, nothing else)
            if res.is_err() {
                self.failures += 1;
                let ok = if c.consume_seed % 3 == 0 || is_consume { self.check_dump(shard, &ctx) } else { true };
                if !ok || self.failures >= 40 {
                    self.inst = None; // stack-height global is not unwound after a host error
                }
            } else {
                self.inst = None;
            }
            shard.nontrivial(&(sig, "oob"));
            return;
        }
        // ---- all arguments in range: the host must have seen exactly the model bytes
        shard.count("expect:in_range");
        if is_consume {
            shard.count("in_range:write");
            let dest = c.args[0].1 as usize;
            self.model[dest..dest + c.consume_len].copy_from_slice(&consume_data);
            if dest + c.consume_len == sz && c.consume_len > 0 {
                shard.count("write:exact_fit_to_end");
            }
        } else {
            shard.count("in_range:read");
            if host_calls.len() != 1 {
                shard.violation("host-call-count", json!({"case": ctx, "seen": host_calls.len(), "result": format!("{res:?}").chars().take(200).collect::<String>()}));
            } else {
                let k = host_calls[0];
                if k.bufs != expected_bufs {
                    let lens: Vec<usize> = k.bufs.iter().map(|b| b.len()).collect();
                    shard.violation("host-received-wrong-bytes", json!({"case": ctx, "received_lens": lens, "mem_size": sz}));
                }
                let nscal = h.n_scalars();
                if nscal > 0 {
                    let mut exp = vec![c.scalar as u64; nscal];
                    if h.name == "actor_open_field" {
                        exp[1] &= 0xff;
                    }
                    if k.scalars != exp {
                        shard.violation("host-received-wrong-scalars", json!({"case": ctx, "received": k.scalars}));
                    }
                }
            }
            for (p, l) in &c.args {
                if *l > 0 && *p as usize + *l as usize == sz {
                    shard.count("read:exact_fit_to_end");
                }
            }
        }
        self.model_grow(c.grow_after);
        let szr = self.model.len();
        if szr > sz || (c.grow_before > 0 && sz > pages_before * PAGE) {
            shard.count("memory_grown_mid_call");
        }
        let (rp, rl) = c.ret;
        let ret_ok = in_range(rp, rl as usize, szr);
        match (&res, ret_ok) {
            (Ok(bytes), true) => {
                shard.count("ret:in_range");
                if bytes[..] != self.model[rp as usize..rp as usize + rl as usize] {
                    let first = bytes.iter().zip(self.model[rp as usize..].iter()).position(|(a, b)| a != b);
                    shard.violation(
                        if rl as usize == szr { "memory-differs-from-model" } else { "returned-slice-wrong-bytes" },
                        json!({"case": ctx, "first_diff": first, "got_len": bytes.len()}),
                    );
                    self.inst = None;
                }
                if rl as usize == szr {
                    shard.count("dump_checks");
                }
            }
            (Ok(bytes), false) => {
                shard.count("ret:out_of_range");
                shard.violation("out-of-range-return-slice-accepted", json!({"case": ctx, "mem_size": szr, "got_len": bytes.len()}));
                self.inst = None;
            }
            (Err(e), false) => {
                shard.count("ret:out_of_range");
                shard.seen("ret_error_class", e);
                if e != "MemoryAccessError" {
                    shard.violation("out-of-range-return-wrong-error-class", json!({"case": ctx, "error": e}));
                }
                // the export itself completed: the instance stays usable and memory must match
                self.check_dump(shard, &ctx);
            }
            (Err(e), true) => {
                shard.violation("in-range-call-failed", json!({"case": ctx, "error": e, "mem_size": sz}));
                self.inst = None;
            }
        }
        shard.nontrivial(&(sig, class_of(rp, szr), class_of(rl, szr), ret_ok));
        if shard.want_sample() && !c.args.is_empty() {
            shard.sample(|| json!({"case": ctx, "result": if res.is_ok() { "ok" } else { "err" }}));
        }
    }
}

pub fn spec(small: bool) -> Spec {
    let f = |n: u64| if small { (n / 400).max(1) } else { n };
    Spec::new(
        "C47",
        "exploration",
        "calls of every env host function from a validated+instrumented WAT module through WasmiInstance::invoke_export with (ptr,len) per buffer argument drawn from {0,1,size-1,size,size+1,2^31,2^32-1,exact fit,one over,random}, buffer_consume writes of provisioned buffers (lengths 0..size+1) to hostile destinations, returned (ptr,len) slices incl. out-of-range, memory.grow before/after the host call inside the same export call; long call histories on one instance (memory accumulates writes and growth) checked against a byte-exact model. distinct = (host function, per-argument ptr/len class and validity, growth, return slice class).",
    )
    .assume("the monitoring WasmRuntime stands in for ScryptoRuntime: the property's memory accesses are all made by the wasmi glue (read_memory / write_memory / read_slice) before/after the runtime is invoked")
    .assume("an instance is re-entered after failed host calls at most 40 times (the engine itself never re-enters a failed instance)")
    .floor("evaluations", f(8_000))
    .floor("distinct_nontrivial", f(1_500))
    .floor("expect:in_range", f(2_500))
    .floor("expect:out_of_range", f(2_500))
    .floor("in_range:write", f(300))
    .floor("oob:write", f(300))
    .floor("read:exact_fit_to_end", f(200))
    .floor("write:exact_fit_to_end", f(40))
    .floor("ret:out_of_range", f(300))
    .floor("memory_grown_mid_call", f(300))
    .floor("dump_checks", f(1_500))
}

pub fn run(args: &Args) -> i32 {
    let small = args.extra.iter().any(|a| a == "small") || args.scale < 0.05;
    let mut report = Report::new(args, spec(small));
    if let Some(path) = &args.replay {
        return replay(path, report);
    }
    if small {
        // valgrind-sized run: keep the evidence of the full run on disk untouched
        report.args.replay = Some(std::path::PathBuf::from("<small-mode>"));
        report.notes.push("small mode (valgrind-sized): evidence file not rewritten".into());
    }
    let code = build_instrumented();
    let total = if small { 600 } else { scaled(args, args.tier.pick(1_200_000, 40_000_000)) };
    let threads = if small { 1 } else { args.threads };
    let per_shard = (total / threads as u64).max(1);
    let budget = Duration::from_secs(budget_secs(args.tier, 40, 600));
    report.extra.insert("host_functions_in_module".into(), json!(HOST_FNS.len()));
    report.extra.insert("instrumented_module_bytes".into(), json!(code.len()));
    report.run_shards(47, threads, budget, |_i, rng, shard| {
        let mut hz = Harness::new(&code);
        let mut n = 0u64;
        let mut since_fresh = 0u32;
        while n < per_shard && !shard.time_up() {
            if hz.inst.is_none() || since_fresh > 200 {
                hz.fresh();
                since_fresh = 0;
                shard.count("instances");
            }
            let c = gen_case(rng, hz.pages());
            hz.run_case(&c, shard);
            since_fresh += 1;
            shard.max("history_len_on_one_instance", since_fresh as u64);
            n += 1;
        }
    });
    report.finish()
}

fn replay(path: &std::path::Path, mut report: Report) -> i32 {
    let doc: Value = serde_json::from_str(&std::fs::read_to_string(path).expect("replay file")).expect("json");
    let d = if doc["detail"]["case"].is_object() { &doc["detail"]["case"] } else { &doc["detail"] };
    let Some((case, pages_before)) = Case::from_json(d) else {
        println!("replay file does not describe a C47 case: {d}");
        return 2;
    };
    let code = build_instrumented();
    let mut hz = Harness::new(&code);
    hz.fresh();
    let mut shard = Shard::new(0, "C47", report.args.tier, std::time::Instant::now() + Duration::from_secs(60));
    // bring memory to the recorded size first
    if pages_before > INIT_PAGES {
        let grow = Case { func: HOST_FNS.iter().position(|h| h.name == "sys_generate_ruid").unwrap(), args: vec![], scalar: 0, grow_before: (pages_before - INIT_PAGES) as u8, grow_after: 0, ret: (0, 0), consume_len: 0, consume_seed: 0 };
        hz.run_case(&grow, &mut shard);
    }
    hz.run_case(&case, &mut shard);
    println!("replayed {}: {} violation(s)", d, shard.violations.len());
    for v in &shard.violations {
        println!("  {} {}", v.signature, v.detail);
    }
    shard.nontrivial(&1);
    shard.nontrivial(&2);
    report.merge(shard);
    report.spec.floors.clear();
    report.finish()
}
