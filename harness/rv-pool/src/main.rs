//! Native pool blueprints under hostile ledger workloads (C41).
mod c41;

fn main() {
    let args = rv_common::parse_args();
    let code = match args.prop.as_str() {
        "C41" => c41::run(&args),
        other => {
            eprintln!("rv-pool: no check named {other}");
            2
        }
    };
    std::process::exit(code);
}
